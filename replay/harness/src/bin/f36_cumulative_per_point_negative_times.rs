//! F36 (C08): the per-point time-tables were BTreeMaps keyed by `time_point as u32`: negative time points sort
//! AFTER the positive ones, so `time_table.values()` is not in increasing time order.  With generate_sequence = true
//! the three per-point propagators then build wrong sequences of profiles; conflict analysis panics
//! (resolution_resolver.rs: "If the heap is empty when extracting the final nogood ...").  Exit 1 = reproduced.
use pumpkin_solver::constraints;
use pumpkin_solver::options::*;
use pumpkin_solver::results::solution_iterator::IteratedSolution;
use pumpkin_solver::termination::Indefinite;
use pumpkin_solver::Solver;

const TASKS: [(i32, i32, i32, i32); 4] = [(4, 7, 1, 3), (-3, 3, 2, 3), (-2, 1, 5, 2), (-5, -4, 2, 1)];
const CAPACITY: i32 = 3;

fn brute_force() -> usize {
    let mut n = 0;
    for a in TASKS[0].0..=TASKS[0].1 { for b in TASKS[1].0..=TASKS[1].1 { for c in TASKS[2].0..=TASKS[2].1 { for d in TASKS[3].0..=TASKS[3].1 {
        let s = [a, b, c, d];
        let ok = (-20..40).all(|t| (0..4).filter(|&i| s[i] <= t && t < s[i] + TASKS[i].2).map(|i| TASKS[i].3).sum::<i32>() <= CAPACITY);
        if ok { n += 1; }
    }}}}
    n
}

fn main() {
    let expected = brute_force();
    let methods = [CumulativePropagationMethod::TimeTablePerPoint, CumulativePropagationMethod::TimeTablePerPointIncremental,
        CumulativePropagationMethod::TimeTablePerPointIncrementalSynchronised];
    let mut bad = vec![];
    for (mi, m) in methods.iter().enumerate() {
        let mm = *m;
        let r = std::panic::catch_unwind(move || {
            let mut solver = Solver::default();
            let vars: Vec<_> = TASKS.iter().map(|t| solver.new_bounded_integer(t.0, t.1)).collect();
            let opts = CumulativeOptions::new(false, CumulativeExplanationType::Naive, true, mm, false);
            if solver.add_constraint(constraints::cumulative_with_options(vars, TASKS.iter().map(|t| t.2).collect::<Vec<_>>(), TASKS.iter().map(|t| t.3).collect::<Vec<_>>(), CAPACITY, opts)).post().is_err() { return 0usize; }
            let mut brancher = solver.default_brancher();
            let mut termination = Indefinite;
            let mut it = solver.get_solution_iterator(&mut brancher, &mut termination);
            let mut n = 0;
            loop { match it.next_solution() { IteratedSolution::Solution(..) => n += 1, _ => break } if n > 1000 { break; } }
            n
        });
        match r {
            Ok(n) if n == expected => {}
            Ok(n) => bad.push(format!("method {mi}: {n} solutions, expected {expected}")),
            Err(_) => bad.push(format!("method {mi}: panic during conflict analysis")),
        }
    }
    let what = "cumulative (start domain, duration, usage) (4..7,1,3) (-3..3,2,3) (-2..1,5,2) (-5..-4,2,1), capacity 3, per-point methods, Naive, generate_sequence";
    if bad.is_empty() { println!("ok: {what}: {expected} solutions with every method"); }
    else { println!("REPRODUCED: {what}: {}", bad.join("; ")); std::process::exit(1); }
}
