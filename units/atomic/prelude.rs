use vstd::prelude::*;
use std::ops::Not;
verus! {
// mirror of drcp-format/src/atomic.rs types (field-for-field)
pub enum AtomicConstraint<Identifier> {
    Bool(BoolAtomicConstraint<Identifier>),
    Int(IntAtomicConstraint<Identifier>),
}
pub struct BoolAtomicConstraint<Identifier> {
    pub name: Identifier,
    pub value: bool,
}
pub struct IntAtomicConstraint<Identifier> {
    pub name: Identifier,
    pub comparison: Comparison,
    pub value: i64,
}
#[derive(Clone, Copy)]
pub enum Comparison {
    GreaterThanEqual,
    LessThanEqual,
    Equal,
    NotEqual,
}

// meaning: an integer atomic over the value v of its variable, a boolean atomic over the truth value b
pub open spec fn int_holds<I>(c: IntAtomicConstraint<I>, v: int) -> bool {
    match c.comparison {
        Comparison::GreaterThanEqual => v >= c.value,
        Comparison::LessThanEqual => v <= c.value,
        Comparison::Equal => v == c.value,
        Comparison::NotEqual => v != c.value,
    }
}
pub open spec fn bool_holds<I>(c: BoolAtomicConstraint<I>, b: bool) -> bool { b == c.value }

// spec-level negation (mathematical: value +- 1 over int, must fit i64 to be representable)
pub open spec fn int_not<I>(c: IntAtomicConstraint<I>) -> IntAtomicConstraint<I> {
    match c.comparison {
        Comparison::GreaterThanEqual => IntAtomicConstraint { name: c.name, comparison: Comparison::LessThanEqual, value: (c.value - 1) as i64 },
        Comparison::LessThanEqual => IntAtomicConstraint { name: c.name, comparison: Comparison::GreaterThanEqual, value: (c.value + 1) as i64 },
        Comparison::Equal => IntAtomicConstraint { name: c.name, comparison: Comparison::NotEqual, value: c.value },
        Comparison::NotEqual => IntAtomicConstraint { name: c.name, comparison: Comparison::Equal, value: c.value },
    }
}
pub open spec fn bool_not<I>(c: BoolAtomicConstraint<I>) -> BoolAtomicConstraint<I> { BoolAtomicConstraint { name: c.name, value: !c.value } }
pub open spec fn atomic_not<I>(c: AtomicConstraint<I>) -> AtomicConstraint<I> {
    match c { AtomicConstraint::Bool(b) => AtomicConstraint::Bool(bool_not(b)), AtomicConstraint::Int(i) => AtomicConstraint::Int(int_not(i)) }
}

// No precondition: the property quantifies over ALL 64-bit values, so `value - 1` / `value + 1` must not overflow.
impl<Identifier> vstd::std_specs::ops::NotSpecImpl for IntAtomicConstraint<Identifier> {
    open spec fn obeys_not_spec() -> bool { true }
    open spec fn not_req(self) -> bool { true }
    open spec fn not_spec(self) -> IntAtomicConstraint<Identifier> { int_not(self) }
}
impl<Identifier> vstd::std_specs::ops::NotSpecImpl for BoolAtomicConstraint<Identifier> {
    open spec fn obeys_not_spec() -> bool { true }
    open spec fn not_req(self) -> bool { true }
    open spec fn not_spec(self) -> BoolAtomicConstraint<Identifier> { bool_not(self) }
}
impl<Identifier> vstd::std_specs::ops::NotSpecImpl for AtomicConstraint<Identifier> {
    open spec fn obeys_not_spec() -> bool { true }
    open spec fn not_req(self) -> bool { true }
    open spec fn not_spec(self) -> AtomicConstraint<Identifier> { atomic_not(self) }
}

// C19: negating twice gives the original; the negation is the complement
pub proof fn lemma_int_not<I>(c: IntAtomicConstraint<I>)
    requires (c.comparison is GreaterThanEqual ==> c.value > i64::MIN), (c.comparison is LessThanEqual ==> c.value < i64::MAX)
    ensures int_not(int_not(c)) == c, forall|v: int| #[trigger] int_holds(int_not(c), v) <==> !int_holds(c, v)
{ }
pub proof fn lemma_bool_not<I>(c: BoolAtomicConstraint<I>)
    ensures bool_not(bool_not(c)) == c, forall|b: bool| #[trigger] bool_holds(bool_not(c), b) <==> !bool_holds(c, b)
{ }

//@@EXTRACT not_atomic@@
//@@EXTRACT not_bool@@
//@@EXTRACT not_int@@
} // verus!
fn main() {}
