// The engine as seen by the API layer: abstracted to its *contract* (the statements of C01 / C02 / C05 plus
// the life-cycle facts proved in unit engine_state).  ghost `model` = conjunction of everything posted so far.
pub open spec fn clause_holds(c: Seq<Predicate>, a: Asg) -> bool { seq_some_holds(c, a) }
pub open spec fn all_hold(s: Seq<Predicate>, a: Asg) -> bool { seq_holds(s, a) }

pub trait ClauseLike { spec fn preds(&self) -> Seq<Predicate>; }
impl<const N: usize> ClauseLike for [Predicate; N] { open spec fn preds(&self) -> Seq<Predicate> { self@ } }
impl ClauseLike for Vec<Predicate> { open spec fn preds(&self) -> Seq<Predicate> { self@ } }

pub enum CSPSolverExecutionFlag { Feasible, Infeasible, Timeout }
#[derive(Clone, Copy)]
pub enum ConstraintOperationError { InfeasibleClause, InfeasibleNogood, InfeasiblePropagator, InfeasibleState }

pub struct Solution { pub asg: Ghost<Asg> }
impl Solution {
    #[verifier::external_body]
    pub fn default() -> Solution { unimplemented!() }
    #[verifier::external_body]
    pub fn as_reference(&self) -> (r: SolutionReference<'_>) ensures r.asg == self.asg { unimplemented!() }
    // the identifiers of the variables the solution knows (contents unspecified)
    #[verifier::external_body]
    pub fn get_domains(&self) -> (r: DomainGeneratorIterator) { unimplemented!() }
}
pub struct DomainGeneratorIterator { pub x: u32 }
impl DomainGeneratorIterator {
    #[verifier::external_body]
    pub fn next(&mut self) -> (r: Option<u32>) { unimplemented!() }
}
pub struct SolutionReference<'a> { pub asg: Ghost<Asg>, pub p: core::marker::PhantomData<&'a ()> }
impl<'a> SolutionReference<'a> {
    // `impl From<SolutionReference> for Solution` clones the assignment
    #[verifier::external_body]
    pub fn into(self) -> (r: Solution) ensures r.asg == self.asg { unimplemented!() }
}

pub trait TerminationCondition { fn should_stop(&mut self) -> bool; }   // no postcondition: all interrupt schedules
pub trait Brancher { fn on_solution(&mut self, solution: SolutionReference<'_>); }

pub enum Phase { Ready, RootInfeasible, HasSolution, TimedOut, InfeasibleUnderAssumptions }
pub struct CSPSolverState { pub phase: Ghost<Phase> }
impl CSPSolverState {
    #[verifier::external_body]
    pub fn is_infeasible_under_assumptions(&self) -> (r: bool) ensures r == (self.phase@ is InfeasibleUnderAssumptions) { unimplemented!() }
}

pub struct ConstraintSatisfactionSolver {
    pub state: CSPSolverState,
    pub model: Ghost<Model>,            // conjunction of everything posted so far
    pub base: Ghost<Model>,             // the model a proof is about: what was posted, without the bounds an optimisation procedure adds (kept by every operation here)
    pub cur: Ghost<Asg>,                // the engine's assignment while it holds a solution
}
pub enum CoreExtractionResult { Core(Vec<Predicate>), ConflictingAssumption(Predicate) }

impl ConstraintSatisfactionSolver {
    pub open spec fn ready(&self) -> bool { self.state.phase@ is Ready || self.state.phase@ is RootInfeasible }
    pub open spec fn unsat(&self) -> bool { forall|a: Asg| !(#[trigger] (self.model@)(a)) }

    // C01 + C02 + C05 (assumed here; life-cycle part proved in engine_state)
    #[verifier::external_body]
    pub fn solve_under_assumptions<T: TerminationCondition, B: Brancher>(&mut self, assumptions: &[Predicate], termination: &mut T, brancher: &mut B) -> (r: CSPSolverExecutionFlag)
        requires old(self).ready()
        ensures
            final(self).model == old(self).model, final(self).base == old(self).base,
            r is Feasible ==> final(self).state.phase@ is HasSolution && (final(self).model@)(final(self).cur@) && all_hold(assumptions@, final(self).cur@),
            r is Infeasible ==> (final(self).state.phase@ is RootInfeasible && final(self).unsat())
                || (final(self).state.phase@ is InfeasibleUnderAssumptions && assumptions@.len() > 0
                    && forall|a: Asg| #![trigger (final(self).model@)(a)] !((final(self).model@)(a) && all_hold(assumptions@, a))),
            r is Timeout ==> final(self).state.phase@ is TimedOut,
            old(self).state.phase@ is RootInfeasible ==> r is Infeasible && final(self).state.phase@ is RootInfeasible,
    { unimplemented!() }

    #[verifier::external_body]
    pub fn solve<T: TerminationCondition, B: Brancher>(&mut self, termination: &mut T, brancher: &mut B) -> (r: CSPSolverExecutionFlag)
        requires old(self).ready()
        ensures
            final(self).model == old(self).model, final(self).base == old(self).base,
            r is Feasible ==> final(self).state.phase@ is HasSolution && (final(self).model@)(final(self).cur@),
            r is Infeasible ==> final(self).state.phase@ is RootInfeasible && final(self).unsat(),
            r is Timeout ==> final(self).state.phase@ is TimedOut,
    { unimplemented!() }

    // proved in engine_state (restore_state_at_root: every result hands back a usable solver)
    #[verifier::external_body]
    pub fn restore_state_at_root<B: Brancher>(&mut self, brancher: &mut B)
        ensures final(self).model == old(self).model, final(self).base == old(self).base, final(self).ready(),
                old(self).state.phase@ is RootInfeasible <==> final(self).state.phase@ is RootInfeasible,
    { unimplemented!() }

    // nothing is promised about the level at which a solve ends (a solve can be interrupted at the root: the state is
    // TimedOut all the same)
    #[verifier::external_body]
    pub fn get_decision_level(&self) -> (r: usize) { unimplemented!() }
    #[verifier::external_body]
    pub fn conclude_proof_unsat(&mut self) -> (r: Result<(), ()>) ensures *final(self) == *old(self) { unimplemented!() }
    // @C06 the concluded bound is a DUAL bound: it holds in every solution of the model the proof is about
    #[verifier::external_body]
    pub fn conclude_proof_optimal(&mut self, bound: Predicate) -> (r: Result<(), ()>)
        requires forall|a: Asg| #![trigger (old(self).base@)(a)] (old(self).base@)(a) ==> pred_holds(bound, a)
        ensures *final(self) == *old(self)
    { unimplemented!() }

    // adds exactly the clause; an error means the accumulated model has become unsatisfiable (C02 for clauses)
    #[verifier::external_body]
    pub fn add_clause<I: ClauseLike>(&mut self, clause: I) -> (r: Result<(), ConstraintOperationError>)
        requires old(self).ready()
        ensures
            forall|a: Asg| #![trigger (final(self).model@)(a)] #![trigger (old(self).model@)(a)] (final(self).model@)(a) <==> ((old(self).model@)(a) && clause_holds(clause.preds(), a)),
            r is Err ==> final(self).unsat(),
            final(self).ready(), final(self).base == old(self).base,
            old(self).state.phase@ is RootInfeasible ==> r is Err,
    { unimplemented!() }

    #[verifier::external_body]
    pub fn get_assigned_integer_value<V: IntegerVariable>(&self, variable: &V) -> (r: Option<i32>)
        requires self.state.phase@ is HasSolution
        ensures r is Some, r->Some_0 == variable.eval(self.cur@)
    { unimplemented!() }

    #[verifier::external_body]
    pub fn get_solution_reference(&self) -> (r: SolutionReference<'_>)
        requires self.state.phase@ is HasSolution      // @C01 the snapshot is taken while the engine still holds the solution
        ensures r.asg == self.cur
    { unimplemented!() }

    #[verifier::external_body]
    pub fn extract_clausal_core<B: Brancher>(&mut self, brancher: &mut B) -> (r: CoreExtractionResult)
        requires old(self).state.phase@ is InfeasibleUnderAssumptions
        ensures final(self).model == old(self).model, final(self).base == old(self).base
    { unimplemented!() }
}
