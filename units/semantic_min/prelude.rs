use vstd::prelude::*;
//@@SPEC macros.rs@@
verus! {
//@@SPEC std_minmax.rs@@
broadcast use {std_minmax_axioms::axiom_max_i32, std_minmax_axioms::axiom_min_i32};
pub mod cmp { pub use std::cmp::max; pub use std::cmp::min; }

pub struct HashSet<T> { pub s: Ghost<Set<T>> }
impl HashSet<i32> {
    #[verifier::external_body]
    pub fn contains(&self, k: &i32) -> (r: bool) ensures r == self.s@.contains(*k) { unimplemented!() }
    #[verifier::external_body]
    pub fn insert(&mut self, k: i32) -> (r: bool) ensures final(self).s@ == old(self).s@.insert(k) { unimplemented!() }
}
pub struct SimpleIntegerDomain {
    pub lower_bound: i32,
    pub upper_bound: i32,
    pub holes: HashSet<i32>,
    pub inconsistent: bool,
}
impl SimpleIntegerDomain {
    // the values the working domain still admits
    pub open spec fn has(&self, v: int) -> bool {
        !self.inconsistent && self.lower_bound <= v <= self.upper_bound && i32::MIN <= v <= i32::MAX && !self.holes.s@.contains(v as i32)
    }
//@@EXTRACT sid@@
}
} // verus!
fn main() {}
