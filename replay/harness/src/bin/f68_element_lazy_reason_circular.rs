//! F68 (C17, C02, C01): ElementPropagator::lazy_explanation chose, per array element, between [x_i >= v] and [index != i] by the
//! domain of `index` AT THE TIME THE EXPLANATION IS ASKED FOR.  An index removed later - possibly as a consequence of the
//! explained bound itself - appeared as the premise [index != i] although it was in the domain when the bound was
//! propagated: a circular reason, a real premise dropped, an unsound nogood learned.  Model: element(index, [x0, x1], rhs),
//! (rhs <= 2 or index <= 0), (rhs <= 2 or x0 <= 2 or index >= 1); decisions x1 >= 3, x0 >= 3: the solver learned the unit
//! nogood [x0 <= 2] and reported 42 of the 66 solutions.  Exit 1 = reproduced.
use pumpkin_solver::branching::branchers::independent_variable_value_brancher::IndependentVariableValueBrancher;
use pumpkin_solver::branching::value_selection::InDomainMin;
use pumpkin_solver::branching::variable_selection::InputOrder;
use pumpkin_solver::branching::Brancher;
use pumpkin_solver::branching::BrancherEvent;
use pumpkin_solver::branching::SelectionContext;
use pumpkin_solver::constraints;
use pumpkin_solver::predicate;
use pumpkin_solver::predicates::Predicate;
use pumpkin_solver::results::solution_iterator::IteratedSolution;
use pumpkin_solver::results::ProblemSolution;
use pumpkin_solver::termination::Indefinite;
use pumpkin_solver::variables::DomainId;
use pumpkin_solver::Solver;

struct ScriptedBrancher {
    script: Vec<Predicate>,
    fallback: IndependentVariableValueBrancher<DomainId, InputOrder<DomainId>, InDomainMin>,
}

impl Brancher for ScriptedBrancher {
    fn next_decision(&mut self, context: &mut SelectionContext) -> Option<Predicate> {
        while !self.script.is_empty() {
            let decision = self.script.remove(0);
            if !context.is_predicate_assigned(decision) {
                return Some(decision);
            }
        }
        self.fallback.next_decision(context)
    }

    fn subscribe_to_events(&self) -> Vec<BrancherEvent> {
        vec![]
    }
}

fn main() {
    let mut solver = Solver::default();

    let x0 = solver.new_bounded_integer(0, 10);
    let x1 = solver.new_bounded_integer(0, 10);
    let index = solver.new_bounded_integer(0, 1);
    let rhs = solver.new_bounded_integer(0, 10);

    solver
        .add_constraint(constraints::element(index, vec![x0, x1], rhs))
        .post()
        .expect("no root conflict");

    // rhs >= 3 -> index = 0
    solver
        .add_clause(vec![predicate![rhs <= 2], predicate![index <= 0]])
        .expect("no root conflict");
    // rhs >= 3 /\ x0 >= 3 -> index = 1
    solver
        .add_clause(vec![
            predicate![rhs <= 2],
            predicate![x0 <= 2],
            predicate![index >= 1],
        ])
        .expect("no root conflict");

    let variables = [x0, x1, index, rhs];
    let mut brancher = ScriptedBrancher {
        script: vec![predicate![x1 >= 3], predicate![x0 >= 3]],
        fallback: IndependentVariableValueBrancher::new(InputOrder::new(&variables), InDomainMin),
    };

    let mut termination = Indefinite;
    let mut solution_iterator = solver.get_solution_iterator(&mut brancher, &mut termination);
    let mut solutions = Vec::new();
    loop {
        match solution_iterator.next_solution() {
            IteratedSolution::Solution(solution, _, _) => {
                solutions.push(
                    variables
                        .iter()
                        .map(|&variable| solution.get_integer_value(variable))
                        .collect::<Vec<_>>(),
                );
            }
            IteratedSolution::Finished => break,
            IteratedSolution::Unknown => panic!("the termination condition is indefinite"),
            IteratedSolution::Unsatisfiable => break,
        }
    }
    solutions.sort();

    let mut expected = Vec::new();
    for v_x0 in 0..=10 {
        for v_x1 in 0..=10 {
            for v_index in 0..=1 {
                let v_rhs = if v_index == 0 { v_x0 } else { v_x1 };
                if (v_rhs <= 2 || v_index <= 0) && (v_rhs <= 2 || v_x0 <= 2 || v_index >= 1) {
                    expected.push(vec![v_x0, v_x1, v_index, v_rhs]);
                }
            }
        }
    }
    expected.sort();
    println!("element(index, [x0, x1], rhs) with two clauses: expected {} solutions, found {}", expected.len(), solutions.len());
    if expected == solutions { println!("ok: every solution is reported"); }
    else {
        let missing = expected.iter().filter(|s| !solutions.contains(s)).count();
        println!("REPRODUCED: {missing} solutions are missing (an unsound nogood was learned from a circular lazy reason)");
        std::process::exit(1);
    }
}
