//! F47 (C18, C11): DynamicBrancher resets its brancher_index only in on_conflict / on_solution.  A solve that is
//! interrupted by the termination condition goes back to the root through restore_state_at_root (which only calls
//! on_backtrack); the next solve with the same brancher starts at the stale index, never asks the branchers before it
//! and returns None while their variables are unfixed: the solver reports a "solution" with unassigned variables.
//! Exit 1 = reproduced.
use pumpkin_solver::branching::branchers::dynamic_brancher::DynamicBrancher;
use pumpkin_solver::branching::branchers::independent_variable_value_brancher::IndependentVariableValueBrancher;
use pumpkin_solver::branching::value_selection::InDomainMin;
use pumpkin_solver::branching::variable_selection::InputOrder;
use pumpkin_solver::results::ProblemSolution;
use pumpkin_solver::results::SatisfactionResult;
use pumpkin_solver::termination::Indefinite;
use pumpkin_solver::termination::TerminationCondition;
use pumpkin_solver::Solver;

/// Stops the solver at the `n`-th time it is asked.
struct StopAtCall(usize);
impl TerminationCondition for StopAtCall {
    fn should_stop(&mut self) -> bool {
        self.0 -= 1;
        self.0 == 0
    }
}

fn main() {
    let r = std::panic::catch_unwind(|| {
        let mut solver = Solver::default();
        let x = solver.new_named_bounded_integer(0, 2, "x");
        let y1 = solver.new_named_bounded_integer(0, 1, "y1");
        let y2 = solver.new_named_bounded_integer(0, 1, "y2");
        let mut brancher = DynamicBrancher::new(vec![
            Box::new(IndependentVariableValueBrancher::new(InputOrder::new(&[x]), InDomainMin)),
            Box::new(IndependentVariableValueBrancher::new(InputOrder::new(&[y1, y2]), InDomainMin)),
        ]);
        // interrupted after the decisions [x == 0] and [y1 == 0]
        let first = solver.satisfy(&mut brancher, &mut StopAtCall(3));
        let first_unknown = matches!(first, SatisfactionResult::Unknown);
        drop(first);
        match solver.satisfy(&mut brancher, &mut Indefinite) {
            SatisfactionResult::Satisfiable(solution) => {
                let dom = |v| (solution.get_integer_value(v), ());
                format!("first call unknown: {first_unknown}; second call: satisfiable x={} y1={} y2={}", dom(x).0, dom(y1).0, dom(y2).0)
            }
            SatisfactionResult::Unsatisfiable => "unsatisfiable".to_string(),
            SatisfactionResult::Unknown => "unknown".to_string(),
        }
    });
    match r {
        Ok(s) if s.contains("satisfiable x=") => println!("ok: {s}"),
        Ok(s) => { println!("REPRODUCED: {s}"); std::process::exit(1); }
        Err(_) => { println!("REPRODUCED: the solution returned after an interrupted solve leaves a variable of the first brancher unassigned (get_integer_value panics)"); std::process::exit(1); }
    }
}
