#![feature(allocator_api)]
use vstd::prelude::*;
use std::rc::Rc;
verus! {
pub assume_specification<'a, T: Copy> [std::option::Option::<&T>::copied] (o: std::option::Option<&'a T>) -> (r: std::option::Option<T>)
    ensures o is Some <==> r is Some, o is Some ==> r->Some_0 == *(o->Some_0);

// ---- container stubs (A-PRELUDE / A-HASH) ----
// BTreeSet<T> is modelled as a sequence (its iteration order); only membership matters for the contracts.
pub type BTreeSet<T> = Vec<T>;
pub mod std_hooks { use vstd::prelude::*;
pub uninterp spec fn spec_into_seq<I, T>(i: I) -> Seq<T>;
}
pub use std_hooks::*;
pub assume_specification<T, A, I> [<std::vec::Vec<T, A> as std::iter::Extend<T>>::extend] (v: &mut std::vec::Vec<T, A>, iter: I)
    where A: std::alloc::Allocator, I: std::iter::IntoIterator<Item = T>,
    ensures final(v)@ == old(v)@ + spec_into_seq::<I, T>(iter);
pub mod std_axioms { use vstd::prelude::*; use super::std_hooks::*;
#[verifier::external_body]
pub broadcast proof fn axiom_vec_into_seq<T>(v: Vec<T>)
    ensures #[trigger] spec_into_seq::<Vec<T>, T>(v) == v@ {}
// `[x].into()` builds the collection holding exactly x (std: From<[T; N]>)
#[verifier::external_body]
pub broadcast proof fn axiom_from_array_obeys<T, const N: usize>()
    ensures #[trigger] <[T; N] as vstd::std_specs::convert::IntoSpec<Vec<T>>>::obeys_into_spec() {}
#[verifier::external_body]
pub broadcast proof fn axiom_from_array<T, const N: usize>(a: [T; N])
    ensures (#[trigger] <[T; N] as vstd::std_specs::convert::IntoSpec<Vec<T>>>::into_spec(a))@ == a@ {}
}
broadcast use {std_axioms::axiom_vec_into_seq, std_axioms::axiom_from_array_obeys, std_axioms::axiom_from_array};

pub struct HashMap<K, V> { pub m: Ghost<Map<K, V>>, pub k: core::marker::PhantomData<(K, V)> }
impl<K, V> HashMap<K, V> {
    #[verifier::external_body]
    pub fn insert(&mut self, k: K, v: V) -> (r: Option<V>)
        ensures final(self).m@ == old(self).m@.insert(k, v)
    { unimplemented!() }
    #[verifier::external_body]
    pub fn get(&self, k: &K) -> (r: Option<&V>)
        ensures self.m@.dom().contains(*k) ==> r == Some(&self.m@[*k]),
                !self.m@.dom().contains(*k) ==> r is None,
    { unimplemented!() }
}

// bt with the first k elements of s mapped to v (what the two re-wiring loops of `merge` compute)
pub open spec fn insert_all(m: Map<Rc<str>, usize>, s: Seq<Rc<str>>, k: int, v: usize) -> Map<Rc<str>, usize>
    decreases k
{
    if k <= 0 { m } else { insert_all(m, s, k - 1, v).insert(s[k - 1], v) }
}
pub open spec fn in_prefix(s: Seq<Rc<str>>, k: int, name: Rc<str>) -> bool {
    exists|i: int| 0 <= i < k && #[trigger] s[i] == name
}
pub proof fn lemma_insert_all(m: Map<Rc<str>, usize>, s: Seq<Rc<str>>, k: int, v: usize)
    requires 0 <= k <= s.len()
    ensures
        forall|name: Rc<str>| #![trigger insert_all(m, s, k, v).dom().contains(name)]
            insert_all(m, s, k, v).dom().contains(name) <==> (m.dom().contains(name) || in_prefix(s, k, name)),
        forall|name: Rc<str>| #![trigger insert_all(m, s, k, v)[name]]
            in_prefix(s, k, name) ==> insert_all(m, s, k, v)[name] == v,
        forall|name: Rc<str>| #![trigger insert_all(m, s, k, v)[name]]
            !in_prefix(s, k, name) ==> insert_all(m, s, k, v)[name] == m[name],
    decreases k
{
    if k > 0 {
        lemma_insert_all(m, s, k - 1, v);
        let prev = insert_all(m, s, k - 1, v);
        assert(insert_all(m, s, k, v) == prev.insert(s[k - 1], v));
        assert forall|name: Rc<str>| in_prefix(s, k, name) <==> (in_prefix(s, k - 1, name) || name == s[k - 1]) by {
            if in_prefix(s, k - 1, name) {
                let i = choose|i: int| 0 <= i < k - 1 && s[i] == name;
                assert(0 <= i < k && s[i] == name);
            }
            if name == s[k - 1] { assert(s[k - 1] == name); }
        }
    }
}

pub proof fn lemma_contains_prefix(s: Seq<Rc<str>>, name: Rc<str>)
    ensures s.contains(name) <==> in_prefix(s, s.len() as int, name)
{
    if s.contains(name) { let i = choose|i: int| 0 <= i < s.len() && s[i] == name; assert(0 <= i < s.len() && s[i] == name); }
    if in_prefix(s, s.len() as int, name) { let i = choose|i: int| 0 <= i < s.len() && #[trigger] s[i] == name; assert(s[i] == name); }
}
pub proof fn lemma_contains_add(x: Seq<Rc<str>>, e: Seq<Rc<str>>, name: Rc<str>)
    ensures (x + e).contains(name) <==> (x.contains(name) || e.contains(name))
{
    if x.contains(name) { let i = choose|i: int| 0 <= i < x.len() && x[i] == name; assert((x + e)[i] == name); }
    if e.contains(name) { let i = choose|i: int| 0 <= i < e.len() && e[i] == name; assert((x + e)[x.len() + i] == name); }
    if (x + e).contains(name) {
        let i = choose|i: int| 0 <= i < (x + e).len() && (x + e)[i] == name;
        if i < x.len() { assert(x[i] == name); } else { assert(e[i - x.len()] == name); }
    }
}

pub enum Domain {
    IntervalDomain { lb: i32, ub: i32 },
    SparseDomain { values: Vec<i32> },
}
impl Domain {
    #[verifier::external_body]
    pub fn merge(&mut self, other: Domain) { unimplemented!() }
    pub fn from_lower_bound_and_upper_bound(lb: i32, ub: i32) -> (r: Self) { Domain::IntervalDomain { lb, ub } }
}

pub struct VariableEquivalences {
    pub classes: Vec<BTreeSet<Rc<str>>>,
    pub domains: Vec<Domain>,
    pub belongs_to: HashMap<Rc<str>, usize>,
}
impl VariableEquivalences {
    // representation invariant: every known variable is mapped to an existing class that contains it,
    // and there is one domain per class
    pub open spec fn well_formed(&self) -> bool {
        &&& self.classes@.len() == self.domains@.len()
        &&& forall|name: Rc<str>| #![trigger self.belongs_to.m@.dom().contains(name)] self.belongs_to.m@.dom().contains(name) ==> {
                &&& self.belongs_to.m@[name] < self.classes@.len()
                &&& self.classes@[self.belongs_to.m@[name] as int]@.contains(name)
            }
        // ... and conversely every member of a class is a known variable mapped to that class (classes are disjoint)
        &&& forall|i: int, k: int| #![trigger self.classes@[i]@[k]] 0 <= i < self.classes@.len() && 0 <= k < self.classes@[i]@.len() ==> {
                &&& self.belongs_to.m@.dom().contains(self.classes@[i]@[k])
                &&& self.belongs_to.m@[self.classes@[i]@[k]] == i
            }
    }
    pub open spec fn same_class(&self, a: Rc<str>, b: Rc<str>) -> bool {
        self.belongs_to.m@.dom().contains(a) && self.belongs_to.m@.dom().contains(b) && self.belongs_to.m@[a] == self.belongs_to.m@[b]
    }

//@@EXTRACT equiv@@
}
} // verus!
fn main() {}
