#![feature(allocator_api)]
use vstd::prelude::*;
//@@SPEC macros.rs@@
//@@EXTRACT macro_predicate@@
verus! {
#[derive(Clone, Copy, PartialEq, Eq, Structural)]
pub struct DomainId { pub id: u32 }
#[derive(Clone, Copy, PartialEq, Eq, Structural)]
pub enum Predicate {
    LowerBound { domain_id: DomainId, lower_bound: i32 },
    UpperBound { domain_id: DomainId, upper_bound: i32 },
    NotEqual { domain_id: DomainId, not_equal_constant: i32 },
    Equal { domain_id: DomainId, equality_constant: i32 },
}
impl DomainId {
    #[verifier::external_body]
    pub fn lower_bound_predicate(&self, bound: i32) -> (p: Predicate) ensures p == (Predicate::LowerBound { domain_id: *self, lower_bound: bound }) { unimplemented!() }
    #[verifier::external_body]
    pub fn upper_bound_predicate(&self, bound: i32) -> (p: Predicate) ensures p == (Predicate::UpperBound { domain_id: *self, upper_bound: bound }) { unimplemented!() }
    #[verifier::external_body]
    pub fn equality_predicate(&self, bound: i32) -> (p: Predicate) ensures p == (Predicate::Equal { domain_id: *self, equality_constant: bound }) { unimplemented!() }
    #[verifier::external_body]
    pub fn disequality_predicate(&self, bound: i32) -> (p: Predicate) ensures p == (Predicate::NotEqual { domain_id: *self, not_equal_constant: bound }) { unimplemented!() }
}
// the domain of a variable: a set of values whose smallest and largest members are its bounds
pub struct SelectionContext { pub dom: Ghost<Map<int, Set<int>>>, pub lb: Ghost<Map<int, int>>, pub ub: Ghost<Map<int, int>> }
impl SelectionContext {
    pub open spec fn wf(&self, v: DomainId) -> bool {
        let d = self.dom@[v.id as int]; let l = self.lb@[v.id as int]; let u = self.ub@[v.id as int];
        &&& d.contains(l) && d.contains(u) && l <= u
        &&& forall|x: int| #![trigger d.contains(x)] d.contains(x) ==> l <= x <= u
        &&& -0x4000_0000 <= l && u <= 0x4000_0000
    }
    #[verifier::external_body]
    pub fn lower_bound(&self, v: DomainId) -> (r: i32) ensures r == self.lb@[v.id as int] { unimplemented!() }
    #[verifier::external_body]
    pub fn upper_bound(&self, v: DomainId) -> (r: i32) ensures r == self.ub@[v.id as int] { unimplemented!() }
    #[verifier::external_body]
    pub fn contains(&self, v: DomainId, value: i32) -> (r: bool) ensures r == self.dom@[v.id as int].contains(value as int) { unimplemented!() }
    #[verifier::external_body]
    pub fn get_size_of_domain(&self, v: DomainId) -> (r: i32) ensures r == self.ub@[v.id as int] - self.lb@[v.id as int] { unimplemented!() }
}
pub struct InDomainSplit;
impl InDomainSplit {
    #[verifier::external_body]
    pub fn get_predicate_excluding_upper_half(context: &mut SelectionContext, decision_variable: DomainId) -> (r: Predicate)
        requires old(context).wf(decision_variable), old(context).lb@[decision_variable.id as int] < old(context).ub@[decision_variable.id as int]
        ensures *final(context) == *old(context),
                r matches Predicate::UpperBound { domain_id, upper_bound } && domain_id == decision_variable
                    && old(context).lb@[decision_variable.id as int] <= upper_bound < old(context).ub@[decision_variable.id as int],
    { unimplemented!() }
}
pub struct InDomainInterval;
pub trait ValueSelector {
    // @C18 @C10 the decision splits the domain: it is neither true nor false (the lower bound satisfies it, the upper bound does not)
    fn select_value(&mut self, context: &mut SelectionContext, decision_variable: DomainId) -> (r: Predicate)
        requires old(context).wf(decision_variable), old(context).lb@[decision_variable.id as int] < old(context).ub@[decision_variable.id as int],
        ensures r matches Predicate::UpperBound { domain_id, upper_bound } && domain_id == decision_variable
                    && old(context).lb@[decision_variable.id as int] <= upper_bound < old(context).ub@[decision_variable.id as int],
                *final(context) == *old(context);
}
impl ValueSelector for InDomainInterval {
//@@EXTRACT idi@@
}
} // verus!
fn main() {}
