// In-place sort / dedup of a vector of integers (rule D42): the documented effect of <[T]>::sort and Vec::dedup
// (trusted: std semantics).  `asc` = ascending, `strict_asc` = strictly ascending.
pub open spec fn asc(s: Seq<u64>) -> bool { forall|i: int, j: int| 0 <= i < j < s.len() ==> s[i] <= s[j] }
pub open spec fn strict_asc(s: Seq<u64>) -> bool { forall|i: int, j: int| 0 <= i < j < s.len() ==> s[i] < s[j] }
#[verifier::external_body]
pub fn pv_sort(v: &mut Vec<u64>)
    ensures asc(final(v)@), final(v)@.len() == old(v)@.len(),
            forall|x: u64| #![trigger final(v)@.contains(x)] #![trigger old(v)@.contains(x)] final(v)@.contains(x) == old(v)@.contains(x),
{ v.sort() }
#[verifier::external_body]
pub fn pv_dedup(v: &mut Vec<u64>)
    ensures final(v)@.len() <= old(v)@.len(),
            forall|x: u64| #![trigger final(v)@.contains(x)] #![trigger old(v)@.contains(x)] final(v)@.contains(x) == old(v)@.contains(x),
            // consecutive repetitions are removed: an ascending sequence becomes strictly ascending
            asc(old(v)@) ==> strict_asc(final(v)@),
{ v.dedup() }
