pub mod trunc { use vstd::prelude::*;
// Truncating (Rust) division on mathematical integers.  The definition mirrors Verus' own encoding of the
// machine `/` and `%` (ite on the sign of the dividend over Euclidean division), so that `d == trunc_div(a, b)`
// holds by definition for `let d = a / b` in executable code; lemma_trunc then gives the *mathematical*
// characterisation (quotient rounded towards zero, remainder with the sign of the dividend).
pub open spec fn trunc_div(a: int, b: int) -> int {
    if a == 0 { 0 } else if a > 0 { a / b } else { -((-a) / b) }
}
pub open spec fn trunc_rem(a: int, b: int) -> int {
    if a == 0 { 0 } else if a > 0 { a % b } else { -((-a) % b) }
}

pub proof fn lemma_euclid(x: int, d: int)
    requires d != 0
    ensures x == d * (x / d) + x % d, 0 <= x % d, d > 0 ==> x % d < d, d < 0 ==> x % d < -d
{
    assert(x == d * (x / d) + x % d && 0 <= x % d && (d > 0 ==> x % d < d) && (d < 0 ==> x % d < -d)) by(nonlinear_arith)
        requires d != 0;
}

pub proof fn lemma_trunc(a: int, b: int)
    requires b != 0
    ensures ({ let d = trunc_div(a,b); let m = a - d*b;
        &&& m == trunc_rem(a, b)
        &&& (a >= 0 ==> 0 <= m)
        &&& (a <= 0 ==> m <= 0)
        &&& (b > 0 ==> -b < m < b)
        &&& (b < 0 ==> b < m < -b) })
{
    let d = trunc_div(a,b);
    if a == 0 {
        assert(d * b == 0) by(nonlinear_arith) requires d == 0;
    } else if a > 0 {
        lemma_euclid(a, b);
        assert(d * b == b * (a / b)) by(nonlinear_arith) requires d == a / b;
    } else {
        lemma_euclid(-a, b);
        assert(d * b == -(b * ((-a) / b))) by(nonlinear_arith) requires d == -((-a) / b);
    }
}


// |a / b| <= |a|, and the only quotient of two i32 that is not an i32 is MIN / -1
pub proof fn lemma_trunc_range(a: int, b: int)
    requires b != 0
    ensures ({ let d = trunc_div(a, b);
        &&& (a >= 0 ==> -a <= d <= a)
        &&& (a < 0 ==> a <= d <= -a)
        &&& (a < 0 && b != -1 ==> d < -a) }),
        ({ let m = trunc_rem(a, b); &&& (a >= 0 ==> 0 <= m <= a) &&& (a < 0 ==> a <= m <= 0) }),
        // a non-zero remainder means |b| >= 2, hence |d| <= |a| / 2
        ({ let d = trunc_div(a, b); trunc_rem(a, b) != 0 ==> (a >= 0 ==> -a <= 2 * d <= a) && (a < 0 ==> a <= 2 * d <= -a) })
{
    lemma_trunc(a, b);
    let d = trunc_div(a, b);
    let m = a - d * b;
    if a > 0 {
        assert(-a <= d <= a) by(nonlinear_arith) requires a == d * b + m, 0 <= m, a > 0, b != 0, (b > 0 ==> m < b), (b < 0 ==> m < -b);
        assert(m <= a) by(nonlinear_arith) requires a == d * b + m, 0 <= m, a > 0, b != 0, (b > 0 ==> m < b), (b < 0 ==> m < -b);
        assert(m != 0 ==> -a <= 2 * d <= a) by(nonlinear_arith) requires a == d * b + m, 0 <= m, a > 0, b != 0, (b > 0 ==> m < b), (b < 0 ==> m < -b);
    } else if a < 0 {
        assert(a <= d <= -a) by(nonlinear_arith) requires a == d * b + m, m <= 0, a < 0, b != 0, (b > 0 ==> -b < m), (b < 0 ==> b < m);
        assert(b != -1 ==> d < -a) by(nonlinear_arith) requires a == d * b + m, m <= 0, a < 0, b != 0, (b > 0 ==> -b < m), (b < 0 ==> b < m);
        assert(a <= m) by(nonlinear_arith) requires a == d * b + m, m <= 0, a < 0, b != 0, (b > 0 ==> -b < m), (b < 0 ==> b < m);
        assert(m != 0 ==> a <= 2 * d <= -a) by(nonlinear_arith) requires a == d * b + m, m <= 0, a < 0, b != 0, (b > 0 ==> -b < m), (b < 0 ==> b < m);
    }
}

// ceil / floor of the rational a/b as the unique integer q with the usual sandwich.
pub open spec fn is_floor_div(a: int, b: int, q: int) -> bool {
    (b > 0 ==> q * b <= a < (q + 1) * b) && (b < 0 ==> q * b >= a > (q + 1) * b)
}
pub open spec fn is_ceil_div(a: int, b: int, q: int) -> bool {
    (b > 0 ==> (q - 1) * b < a <= q * b) && (b < 0 ==> (q - 1) * b > a >= q * b)
}

pub proof fn lemma_floor_ceil_from_trunc(a: int, b: int)
    requires b != 0
    ensures ({ let d = trunc_div(a, b); let r = trunc_rem(a, b);
        &&& r == a - d * b
        &&& is_floor_div(a, b, if (r > 0 && b < 0) || (r < 0 && b > 0) { d - 1 } else { d })
        &&& is_ceil_div(a, b, if (r > 0 && b > 0) || (r < 0 && b < 0) { d + 1 } else { d }) })
{
    lemma_trunc(a, b);
    let d = trunc_div(a, b);
    assert((d - 1) * b == d * b - b) by(nonlinear_arith);
    assert((d + 1) * b == d * b + b) by(nonlinear_arith);
    assert((d - 1 + 1) * b == d * b);
    assert((d + 1 - 1) * b == d * b);
}

// uniqueness: the sandwich determines q, so is_floor_div / is_ceil_div are functional specifications
pub proof fn lemma_floor_unique(a: int, b: int, q1: int, q2: int)
    requires b != 0, is_floor_div(a, b, q1), is_floor_div(a, b, q2)
    ensures q1 == q2
{
    if q1 < q2 {
        assert((q1 + 1) * b <= q2 * b || b < 0) by(nonlinear_arith) requires q1 + 1 <= q2;
        assert((q1 + 1) * b >= q2 * b || b > 0) by(nonlinear_arith) requires q1 + 1 <= q2;
    } else if q2 < q1 {
        assert((q2 + 1) * b <= q1 * b || b < 0) by(nonlinear_arith) requires q2 + 1 <= q1;
        assert((q2 + 1) * b >= q1 * b || b > 0) by(nonlinear_arith) requires q2 + 1 <= q1;
    }
}
}
pub use trunc::*;
