//! F65 (C10): ConflictAnalysisContext::get_propagation_reason expects a proof step id for every predicate that the nogood
//! propagator set with an empty reason ("a unit nogood was propagated").  A unit clause added with add_clause is such a
//! nogood but has no step id: when the recursive minimiser reaches its root-level predicate (the semantic minimiser can
//! put [b >= 2] into the nogood because 2 is not the INITIAL bound) the `expect` panics - in a plain second satisfy(),
//! without any proof logging.  Exit 1 = reproduced.
use pumpkin_solver::constraints;
use pumpkin_solver::predicate;
use pumpkin_solver::results::ProblemSolution;
use pumpkin_solver::results::SatisfactionResult;
use pumpkin_solver::termination::Indefinite;
use pumpkin_solver::Solver;

fn main() {
    let r = std::panic::catch_unwind(|| {
        let mut solver = Solver::default();
        let a = solver.new_bounded_integer(1, 2);
        let b = solver.new_bounded_integer(1, 4);
        let c = solver.new_bounded_integer(1, 2);
        solver.add_clause([predicate!(c != 1), predicate!(c >= 4), predicate!(b != 2)]).unwrap();
        solver.add_constraint(constraints::all_different(vec![a, b, c])).post().unwrap();
        solver.add_constraint(constraints::all_different(vec![a, b, c])).post().unwrap();
        solver.add_clause([predicate!(b >= 2)]).unwrap();
        let mut brancher = solver.default_brancher();
        let mut out = vec![];
        for _ in 0..4 {
            match solver.satisfy(&mut brancher, &mut Indefinite) {
                SatisfactionResult::Satisfiable(s) => out.push(format!("({}, {}, {})", s.get_integer_value(a), s.get_integer_value(b), s.get_integer_value(c))),
                _ => out.push("-".into()),
            }
        }
        out
    });
    match r {
        Ok(out) => println!("ok: four consecutive satisfy calls: {out:?}"),
        Err(_) => { println!("REPRODUCED: a second satisfy() after add_clause([b >= 2]) panics (`Expected to be able to retrieve step id for unit nogood`)"); std::process::exit(1); }
    }
}
