#![feature(allocator_api)]
use vstd::prelude::*;
//@@SPEC macros.rs@@
verus! {
#[derive(Clone, Copy, PartialEq, Eq, Structural)]
pub struct DomainId { pub id: u32 }
#[derive(Clone, Copy, PartialEq, Eq, Structural)]
pub enum Predicate {
    LowerBound { domain_id: DomainId, lower_bound: i32 },
    UpperBound { domain_id: DomainId, upper_bound: i32 },
    NotEqual { domain_id: DomainId, not_equal_constant: i32 },
    Equal { domain_id: DomainId, equality_constant: i32 },
}
// the predicate as a condition on the value of its variable
pub open spec fn sat(p: Predicate, v: int) -> bool {
    match p {
        Predicate::LowerBound { lower_bound, .. } => v >= lower_bound,
        Predicate::UpperBound { upper_bound, .. } => v <= upper_bound,
        Predicate::NotEqual { not_equal_constant, .. } => v != not_equal_constant,
        Predicate::Equal { equality_constant, .. } => v == equality_constant,
    }
}
pub open spec fn dom_of(p: Predicate) -> DomainId {
    match p { Predicate::LowerBound { domain_id, .. } => domain_id, Predicate::UpperBound { domain_id, .. } => domain_id, Predicate::NotEqual { domain_id, .. } => domain_id, Predicate::Equal { domain_id, .. } => domain_id }
}
pub struct EmptyDomain;
#[derive(Clone, Copy)]
pub struct PropagatorId(pub u32);
#[derive(Clone, Copy)]
pub struct ReasonRef(pub u32);
// the store: the set of values every variable can still take
pub struct Assignments { pub vals: Ghost<Map<int, Set<int>>> }
pub open spec fn cut(s: Set<int>, p: Predicate) -> Set<int> { s.filter(|v: int| sat(p, v)) }
impl Assignments {
    pub open spec fn dom(&self, d: DomainId) -> Set<int> { self.vals@[d.id as int] }
    // the store after posting p: the domain of p's variable is cut by p, the others stay
    pub open spec fn posted(&self, after: &Assignments, p: Predicate) -> bool {
        after.vals@ == self.vals@.insert(dom_of(p).id as int, cut(self.dom(dom_of(p)), p))
    }
    #[verifier::external_body]
    pub fn is_value_in_domain(&self, domain_id: DomainId, value: i32) -> (r: bool) ensures r == self.dom(domain_id).contains(value as int) { unimplemented!() }
    #[verifier::external_body]
    pub fn is_domain_assigned(&self, domain_id: &DomainId) -> (r: bool) ensures r == (exists|v: int| self.dom(*domain_id) == set![v]) { unimplemented!() }
    // unit assignments: the domain is intersected with [x == v]; EmptyDomain exactly when v is not in the domain
    #[verifier::external_body]
    pub fn make_assignment(&mut self, domain_id: DomainId, assigned_value: i32, reason: Option<ReasonRef>) -> (r: Result<(), EmptyDomain>)
        ensures r is Ok <==> old(self).dom(domain_id).contains(assigned_value as int),
                r is Ok ==> old(self).posted(final(self), Predicate::Equal { domain_id, equality_constant: assigned_value }),
    { unimplemented!() }
}
pub struct ReasonStore { pub x: u8 }
impl ReasonStore {
    #[verifier::external_body]
    pub fn push(&mut self, propagator: PropagatorId, reason: StoredReason) -> (r: ReasonRef) { unimplemented!() }
}
#[derive(Clone, Copy)]
pub struct Literal { pub id: u32 }
pub uninterp spec fn true_pred(l: Literal) -> Predicate;
impl Literal {
    #[verifier::external_body]
    pub fn get_true_predicate(&self) -> (p: Predicate) ensures p == true_pred(*self) { unimplemented!() }
}
pub struct PropositionalConjunction { pub predicates_in_conjunction: Vec<Predicate> }
impl PropositionalConjunction {
    #[verifier::external_body]
    pub fn pv_push(&mut self, p: Predicate) ensures final(self).predicates_in_conjunction@ == old(self).predicates_in_conjunction@.push(p) { unimplemented!() }
}
// engine/cp/reason.rs, field for field
pub enum Reason { Eager(PropositionalConjunction), DynamicLazy(u64) }
pub enum StoredReason { Eager(PropositionalConjunction), DynamicLazy(u64), ReifiedLazy(Literal, u64) }
// what a propagator hands in, and what the reason store later hands to conflict analysis (unit reason_store: compute),
// given the propagators' lazy explanations
pub open spec fn reason_meaning(r: Reason, lazy: spec_fn(u64) -> Seq<Predicate>) -> Seq<Predicate> {
    match r { Reason::Eager(c) => c.predicates_in_conjunction@, Reason::DynamicLazy(code) => lazy(code) }
}
pub open spec fn stored_meaning(r: StoredReason, lazy: spec_fn(u64) -> Seq<Predicate>) -> Seq<Predicate> {
    match r {
        StoredReason::Eager(c) => c.predicates_in_conjunction@,
        StoredReason::DynamicLazy(code) => lazy(code),
        StoredReason::ReifiedLazy(l, code) => lazy(code).push(true_pred(l)),
    }
}
// @C01 @C02 what posting a predicate means: after Ok every value left for the variable satisfies the predicate and nothing else was lost;
// an error is only reported when no value of the domain satisfies it
pub open spec fn post_ok(before: &Assignments, after: &Assignments, p: Predicate, r: Result<(), EmptyDomain>) -> bool {
    &&& r is Ok ==> before.posted(after, p)
    &&& r is Err ==> cut(before.dom(dom_of(p)), p) =~= Set::<int>::empty()
}
pub struct PropagationContextMut<'a> { pub assignments: &'a mut Assignments, pub reason_store: &'a mut ReasonStore, pub propagator_id: PropagatorId, pub reification_literal: Option<Literal> }

impl<'a> PropagationContextMut<'a> {
    // units views / assignments: the three other kinds of predicate, posted through the variable
    #[verifier::external_body]
    pub fn set_lower_bound<R: Into<Reason>>(&mut self, var: &DomainId, bound: i32, reason: R) -> (r: Result<(), EmptyDomain>)
        ensures post_ok(old(self).assignments, final(self).assignments, Predicate::LowerBound { domain_id: *var, lower_bound: bound }, r), final(self).reification_literal == old(self).reification_literal
    { unimplemented!() }
    #[verifier::external_body]
    pub fn set_upper_bound<R: Into<Reason>>(&mut self, var: &DomainId, bound: i32, reason: R) -> (r: Result<(), EmptyDomain>)
        ensures post_ok(old(self).assignments, final(self).assignments, Predicate::UpperBound { domain_id: *var, upper_bound: bound }, r), final(self).reification_literal == old(self).reification_literal
    { unimplemented!() }
    #[verifier::external_body]
    pub fn remove<R: Into<Reason>>(&mut self, var: &DomainId, value: i32, reason: R) -> (r: Result<(), EmptyDomain>)
        ensures post_ok(old(self).assignments, final(self).assignments, Predicate::NotEqual { domain_id: *var, not_equal_constant: value }, r), final(self).reification_literal == old(self).reification_literal
    { unimplemented!() }
//@@EXTRACT ctx@@
//@@EXTRACT ctx2@@
}
} // verus!
fn main() {}
