#![feature(allocator_api)]
use vstd::prelude::*;
//@@SPEC macros.rs@@
verus! {
pub struct Solution { pub id: u64 }
pub struct SolutionReference<'a> { pub s: &'a Solution }
impl Solution {
    #[verifier::external_body]
    pub fn as_reference(&self) -> (r: SolutionReference<'_>) { unimplemented!() }
}
//@@EXTRACT s_optres@@
pub struct StatisticLogger { pub x: u8 }
impl StatisticLogger { #[verifier::external_body] pub fn default() -> Self { unimplemented!() } }
pub struct DynamicBrancher { pub x: u8 }
impl DynamicBrancher { #[verifier::external_body] pub fn log_statistics(&self, l: StatisticLogger) { unimplemented!() } }
pub struct Solver { pub x: u8 }
impl Solver { #[verifier::external_body] pub fn log_statistics(&self) { unimplemented!() } }
pub struct Output { pub x: u8 }
pub struct FlatZincInstance { pub outputs: Vec<Output> }
#[derive(Clone, Copy)]
pub struct FlatZincOptions { pub free_search: bool, pub all_solutions: bool }
pub enum FlatZincError { Other }
#[verifier::external_body]
pub fn print_solution_from_solver(solution: SolutionReference, outputs: &[Output]) { unimplemented!() }

// the status lines of the FlatZinc output protocol, in the order printed (ghost)
#[derive(PartialEq, Eq, Structural, Clone, Copy)]
pub enum Marker { Complete, Unsat, Unknown }
pub struct Out { pub lines: Ghost<Seq<Marker>> }
impl Out {
    #[verifier::external_body]
    pub fn emit(&mut self, m: Marker) ensures final(self).lines@ == old(self).lines@.push(m) { unimplemented!() }
}

// the closing statements of flatzinc::solve: `result` is what Solver::optimise returned
pub fn solve_tail(result: OptimisationResult, options: FlatZincOptions, brancher: DynamicBrancher, solver: Solver, instance: FlatZincInstance, pv_out: &mut Out) -> (r: Result<(), FlatZincError>)
    requires old(pv_out).lines@.len() == 0,
    ensures
        r is Ok,
        // @C13 @C11 the completeness line is printed for a proven optimum, and only then (an interrupted run with an incumbent prints no status line)
        result is Optimal ==> final(pv_out).lines@ =~= seq![Marker::Complete],
        result is Satisfiable ==> final(pv_out).lines@.len() == 0,
        // @C13 the unsatisfiable marker exactly when no solution exists; unknown exactly when nothing was found in time
        result is Unsatisfiable ==> final(pv_out).lines@ =~= seq![Marker::Unsat],
        result is Unknown ==> final(pv_out).lines@ =~= seq![Marker::Unknown],
{
//@@EXTRACT solve_tail@@
}
} // verus!
fn main() {}
