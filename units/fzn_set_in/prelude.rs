#![feature(allocator_api)]
use vstd::prelude::*;
//@@SPEC macros.rs@@
//@@EXTRACT macro_predicate@@
macro_rules! check_parameters {
    ($exprs:ident, $num_parameters:expr, $name:expr) => {
        if $exprs.len() != $num_parameters { return Err(FlatZincError::IncorrectNumberOfArguments); }
    };
}
verus! {
//@@SPEC vocab.rs@@
//@@SPEC contracts/predicate_not.rs@@
impl std::ops::Not for Predicate {
    type Output = Predicate;
    #[verifier::external_body]
    fn not(self) -> (r: Predicate) { unimplemented!() }    // contract: spec/contracts/predicate_not.rs, proved in unit `predicate`
}
//@@EXTRACT pc_trait@@
//@@EXTRACT pc_dom@@
pub open spec fn dval(x: DomainId, a: Asg) -> int { a(x.id as int) }
#[derive(Clone, Copy)]
pub struct Literal { pub id: u32 }
pub uninterp spec fn lit_true(l: Literal, a: Asg) -> bool;
impl Literal {
    #[verifier::external_body]
    pub fn get_true_predicate(&self) -> (p: Predicate)
        ensures forall|a: Asg| #[trigger] pred_holds(p, a) <==> lit_true(*self, a), pred_negatable(p)
    { unimplemented!() }
}
pub enum FlatZincError { IncorrectNumberOfArguments, Other }
pub mod flatzinc { pub struct Expr { pub x: u8 } }
pub enum Set {
    Interval { lower_bound: i32, upper_bound: i32 },
    Sparse { values: Box<[i32]> },
}
pub open spec fn set_has(s: Set, v: int) -> bool {
    match s {
        Set::Interval { lower_bound, upper_bound } => lower_bound <= v <= upper_bound,
        Set::Sparse { values } => exists|i: int| #![trigger values@[i]] 0 <= i < values@.len() && values@[i] == v,
    }
}
pub trait ClauseLike { spec fn preds(&self) -> Seq<Predicate>; }
impl<const N: usize> ClauseLike for [Predicate; N] { open spec fn preds(&self) -> Seq<Predicate> { self@ } }
#[derive(Clone, Copy)]
pub enum ConstraintOperationError { Infeasible }
pub struct Solver { pub model: Ghost<Model> }
impl Solver {
    pub open spec fn unsat(&self) -> bool { forall|a: Asg| !(#[trigger] (self.model@)(a)) }
    #[verifier::external_body]
    pub fn add_clause<I: ClauseLike>(&mut self, clause: I) -> (r: Result<(), ConstraintOperationError>)
        ensures forall|a: Asg| #![trigger (final(self).model@)(a)] (final(self).model@)(a) <==> ((old(self).model@)(a) && seq_some_holds(clause.preds(), a)),
                r is Err ==> final(self).unsat(),
    { unimplemented!() }
    // read modulo the auxiliary variable of the new literal
    #[verifier::external_body]
    pub fn new_literal_for_predicate(&mut self, predicate: Predicate) -> (r: Literal)
        ensures forall|a: Asg| #![trigger (final(self).model@)(a)] (final(self).model@)(a) <==> ((old(self).model@)(a) && (lit_true(r, a) <==> pred_holds(predicate, a))),
    { unimplemented!() }
}
pub struct ClauseConstraint { pub lits: Vec<Literal> }
pub mod constraints { use super::*;
    verus! {
    pub fn clause(literals: Vec<Literal>) -> (r: ClauseConstraint) ensures r.lits@ == literals@ { ClauseConstraint { lits: literals } }
    #[verifier::external_body]
    pub fn conjunction<const N: usize>(literals: [Literal; N]) -> (r: ConjunctionConstraint) ensures r.lits@ == literals@ { unimplemented!() }
    }
}
pub struct ConjunctionConstraint { pub lits: Vec<Literal> }
impl ConjunctionConstraint {
    #[verifier::external_body]
    pub fn reify(self, solver: &mut Solver, reification_literal: Literal, tag: Option<std::num::NonZero<u32>>) -> (r: Result<(), ConstraintOperationError>)
        ensures forall|a: Asg| #![trigger (final(solver).model@)(a)] (final(solver).model@)(a) <==> (old(solver).model@)(a)
                    && (lit_true(reification_literal, a) <==> forall|i: int| #![trigger self.lits@[i]] 0 <= i < self.lits@.len() ==> lit_true(self.lits@[i], a)),
                r is Err ==> final(solver).unsat(),
    { unimplemented!() }
}
impl ClauseConstraint {
    #[verifier::external_body]
    pub fn reify(self, solver: &mut Solver, reification_literal: Literal, tag: Option<std::num::NonZero<u32>>) -> (r: Result<(), ConstraintOperationError>)
        ensures forall|a: Asg| #![trigger (final(solver).model@)(a)] (final(solver).model@)(a) ==> (old(solver).model@)(a)
                    && (lit_true(reification_literal, a) <==> exists|i: int| #![trigger self.lits@[i]] 0 <= i < self.lits@.len() && lit_true(self.lits@[i], a)),
                r is Err ==> final(solver).unsat(),
    { unimplemented!() }
}
pub struct CompilationContext<'a> { pub solver: &'a mut Solver }
impl<'a> CompilationContext<'a> {
    pub uninterp spec fn int_var(e: &flatzinc::Expr) -> DomainId;
    pub uninterp spec fn set_const(e: &flatzinc::Expr) -> Set;
    pub uninterp spec fn bool_var(e: &flatzinc::Expr) -> Literal;
    #[verifier::external_body]
    pub fn resolve_integer_variable(&mut self, e: &flatzinc::Expr) -> (r: Result<DomainId, FlatZincError>)
        ensures *final(self).solver == *old(self).solver, *final(final(self).solver) == *final(old(self).solver), r matches Ok(v) ==> v == Self::int_var(e), r matches Err(x) ==> x is Other
    { unimplemented!() }
    #[verifier::external_body]
    pub fn resolve_set_constant(&mut self, e: &flatzinc::Expr) -> (r: Result<Set, FlatZincError>)
        ensures *final(self).solver == *old(self).solver, *final(final(self).solver) == *final(old(self).solver), r matches Ok(v) ==> v == Self::set_const(e), r matches Err(x) ==> x is Other
    { unimplemented!() }
    #[verifier::external_body]
    pub fn resolve_bool_variable(&mut self, e: &flatzinc::Expr) -> (r: Result<Literal, FlatZincError>)
        ensures *final(self).solver == *old(self).solver, *final(final(self).solver) == *final(old(self).solver), r matches Ok(v) ==> v == Self::bool_var(e), r matches Err(x) ==> x is Other
    { unimplemented!() }
}
//@@EXTRACT sir@@
//@@EXTRACT band@@
} // verus!
fn main() {}
