use vstd::prelude::*;
macro_rules! predicate {
    ($($var:ident).+$([$index:expr])? >= $bound:expr) => {{ $($var).+$([$index])?.lower_bound_predicate($bound) }};
    ($($var:ident).+$([$index:expr])? <= $bound:expr) => {{ $($var).+$([$index])?.upper_bound_predicate($bound) }};
}
verus! {
pub type Asg = Map<int,int>;
pub assume_specification [i64::is_positive] (x: i64) -> (r: bool) ensures r == (x > 0);
#[derive(Clone, Copy)] pub struct DomainId { pub id: u32 }
#[derive(Clone, Copy)]
pub enum Predicate { LowerBound { domain_id: DomainId, lower_bound: i32 }, UpperBound { domain_id: DomainId, upper_bound: i32 } }
pub struct PropositionalConjunction { pub v: Vec<Predicate> }
impl PropositionalConjunction { pub fn from(v: Vec<Predicate>) -> (r: Self) ensures r.v@ == v@ { PropositionalConjunction { v } } }
pub struct EmptyDomain;
pub enum Inconsistency { Conflict(PropositionalConjunction), EmptyDomain }
pub type PropagationStatusCP = Result<(), Inconsistency>;
impl vstd::std_specs::convert::FromSpecImpl<EmptyDomain> for Inconsistency { open spec fn obeys_from_spec() -> bool { true } open spec fn from_spec(e: EmptyDomain) -> Self { Inconsistency::EmptyDomain } }
impl From<EmptyDomain> for Inconsistency { fn from(e: EmptyDomain) -> (r: Self) { Inconsistency::EmptyDomain } }
impl vstd::std_specs::convert::FromSpecImpl<PropositionalConjunction> for Inconsistency { open spec fn obeys_from_spec() -> bool { true } open spec fn from_spec(e: PropositionalConjunction) -> Self { Inconsistency::Conflict(e) } }
impl From<PropositionalConjunction> for Inconsistency { fn from(e: PropositionalConjunction) -> (r: Self) { Inconsistency::Conflict(e) } }
pub trait IntegerVariable: Sized {
    fn lower_bound_predicate(&self, bound: i32) -> Predicate;
    fn upper_bound_predicate(&self, bound: i32) -> Predicate;
}
#[derive(Clone, Copy)] pub struct TrailedInt { pub id: u32 }
pub struct Ctx { pub g: Ghost<int> }
pub struct PropagationContextMut<'a> { pub c: &'a mut Ctx }
impl<'a> PropagationContextMut<'a> {
    #[verifier::external_body] pub fn value(&self, t: TrailedInt) -> i64 { unimplemented!() }
    #[verifier::external_body] pub fn lower_bound<V: IntegerVariable>(&self, v: &V) -> i32 { unimplemented!() }
    #[verifier::external_body] pub fn upper_bound<V: IntegerVariable>(&self, v: &V) -> i32 { unimplemented!() }
    #[verifier::external_body] pub fn set_upper_bound<V: IntegerVariable>(&mut self, v: &V, b: i32, r: PropositionalConjunction) -> Result<(), EmptyDomain> { unimplemented!() }
}
pub struct LinearLessOrEqualPropagator<Var> {
    x: Box<[Var]>,
    c: i32,
    lower_bound_left_hand_side: TrailedInt,
    current_bounds: Box<[TrailedInt]>,
}
impl<Var: IntegerVariable> LinearLessOrEqualPropagator<Var> {
    // hand-applied D1 + D3 on linear_less_or_equal.rs::propagate (second half)
    fn propagate_tail(&mut self, mut context: PropagationContextMut) -> PropagationStatusCP {
        let lower_bound_left_hand_side =
            match TryInto::<i32>::try_into(context.value(self.lower_bound_left_hand_side)) {
                Ok(bound) => bound,
                Err(_) if context.value(self.lower_bound_left_hand_side).is_positive() => {
                    return Ok(());
                }
                Err(_) => {
                    return Ok(());
                }
            };

        for i in 0..self.x.len() {
            let x_i = &self.x[i];
            let bound = self.c - (lower_bound_left_hand_side - context.lower_bound(x_i));

            if context.upper_bound(x_i) > bound {
                let reason: PropositionalConjunction = {
                    let mut __v = Vec::new();
                    for j in 0..self.x.len() {
                        let x_j = &self.x[j];
                        if j != i {
                            __v.push(predicate![x_j >= context.lower_bound(x_j)]);
                        }
                    }
                    PropositionalConjunction::from(__v)
                };

                context.set_upper_bound(x_i, bound, reason)?;
            }
        }

        Ok(())
    }
}
}
fn main(){}
