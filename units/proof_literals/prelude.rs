use vstd::prelude::*;
//@@SPEC macros.rs@@
verus! {
//@@SPEC vocab.rs@@
//@@SPEC contracts/predicate_not.rs@@
impl std::ops::Not for Predicate {
    type Output = Predicate;
    #[verifier::external_body]
    fn not(self) -> (r: Predicate) { unimplemented!() }    // contract: spec/contracts/predicate_not.rs, proved in unit `predicate`
}
#[verifier::external]
impl std::fmt::Debug for Predicate { fn fmt(&self, f: &mut std::fmt::Formatter<'_>) -> std::fmt::Result { Ok(()) } }
pub open spec fn pdom(p: Predicate) -> DomainId {
    match p {
        Predicate::LowerBound { domain_id, .. } => domain_id,
        Predicate::UpperBound { domain_id, .. } => domain_id,
        Predicate::NotEqual { domain_id, .. } => domain_id,
        Predicate::Equal { domain_id, .. } => domain_id,
    }
}
//@@EXTRACT pred_impl@@

// finite map stub for HashMap<DomainId, Predicate> (A-HASH)
pub struct HashMap<K, V> { pub m: Ghost<Map<K, V>> }
impl HashMap<DomainId, Predicate> {
    #[verifier::external_body]
    pub fn get(&self, k: &DomainId) -> (r: Option<&Predicate>)
        ensures r is Some == self.m@.dom().contains(*k), r is Some ==> *r->Some_0 == self.m@[*k]
    { unimplemented!() }
}
pub struct ProofLiterals {
    pub reification_domains: HashMap<DomainId, Predicate>,
}
// the assignment gives the literal's 0-1 variable the truth value of the predicate it reifies
pub open spec fn reifies(a: Asg, d: DomainId, p: Predicate) -> bool {
    (a(d.id as int) == 0 || a(d.id as int) == 1) && (a(d.id as int) == 1 <==> pred_holds(p, a))
}
impl ProofLiterals {
    pub open spec fn wf(&self) -> bool {
        forall|d: DomainId| #![trigger self.reification_domains.m@[d]] self.reification_domains.m@.dom().contains(d) ==> pred_negatable(self.reification_domains.m@[d])
    }
//@@EXTRACT pl@@
}
} // verus!
fn main() {}
