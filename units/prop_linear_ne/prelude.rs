#![feature(allocator_api)]
use vstd::prelude::*;
use std::rc::Rc;
//@@SPEC macros.rs@@
//@@EXTRACT macro_predicate@@
verus! {
//@@SPEC vocab.rs@@
//@@SPEC std_saturating.rs@@
//@@SPEC contracts/integer_variable_consumer.rs@@
//@@SPEC prop_ctx.rs@@
//@@SPEC prop_ctx_stateful.rs@@
//@@SPEC prop_ctx_readonly_fixed.rs@@
broadcast use {conv_axioms::axiom_from_empty_domain, conv_axioms::axiom_from_conjunction, seq_lemmas::lemma_seq_holds_push};

//@@EXTRACT s_prop@@

// ---- the mathematical constraint ----
pub open spec fn sum_eval<Var: IntegerVariable>(xs: Seq<Var>, a: Asg) -> int decreases xs.len() {
    if xs.len() == 0 { 0 } else { sum_eval(xs.drop_last(), a) + xs.last().eval(a) }
}
pub open spec fn ne_holds<Var: IntegerVariable>(p: &LinearNotEqualPropagator<Var>, a: Asg) -> bool { sum_eval(p.terms@, a) != p.rhs }

// ---- the incremental state, as a function of the store ----
// what ReadDomains::is_fixed answers
pub open spec fn is_fixed_s<V: IntegerVariable>(live: Live, v: &V) -> bool { store_lb(live, v) == store_ub(live, v) }
pub open spec fn sum_fixed<Var: IntegerVariable>(live: Live, xs: Seq<Var>) -> int decreases xs.len() {
    if xs.len() == 0 { 0 } else { sum_fixed(live, xs.drop_last()) + if is_fixed_s(live, &xs.last()) { store_lb(live, &xs.last()) } else { 0 } }
}
pub open spec fn num_fixed<Var: IntegerVariable>(live: Live, xs: Seq<Var>) -> int decreases xs.len() {
    if xs.len() == 0 { 0 } else { num_fixed(live, xs.drop_last()) + if is_fixed_s(live, &xs.last()) { 1int } else { 0 } }
}
pub open spec fn all_fixed_but<Var: IntegerVariable>(live: Live, xs: Seq<Var>, skip: int) -> bool {
    forall|j: int| #![trigger xs[j]] 0 <= j < xs.len() && j != skip ==> is_fixed_s(live, &xs[j])
}
// an assignment which gives every term except `skip` the lower bound it has in `live`
pub open spec fn at_lbs<Var: IntegerVariable>(live: Live, xs: Seq<Var>, a: Asg, skip: int) -> bool {
    forall|j: int| #![trigger xs[j]] 0 <= j < xs.len() && j != skip ==> xs[j].eval(a) == store_lb(live, &xs[j])
}
pub open spec fn lhs_ok<Var: IntegerVariable>(p: &LinearNotEqualPropagator<Var>, live: Live) -> bool { p.fixed_lhs == sum_fixed(live, p.terms@) }
pub open spec fn count_ok<Var: IntegerVariable>(p: &LinearNotEqualPropagator<Var>, live: Live) -> bool { p.number_of_fixed_terms == num_fixed(live, p.terms@) }
pub open spec fn frame<Var: IntegerVariable>(p: &LinearNotEqualPropagator<Var>, q: &LinearNotEqualPropagator<Var>) -> bool { p.terms == q.terms && p.rhs == q.rhs }

// A-READS: store_lb / store_ub bound every live assignment (the read contract of the context); bounds are i32 values
#[verifier::external_body]
pub proof fn lemma_lb_is_lower<V: IntegerVariable>(live: Live, v: &V, a: Asg)
    requires live(a)
    ensures v.eval(a) >= store_lb(live, v) {}
#[verifier::external_body]
pub proof fn lemma_ub_is_upper<V: IntegerVariable>(live: Live, v: &V, a: Asg)
    requires live(a)
    ensures v.eval(a) <= store_ub(live, v) {}
#[verifier::external_body]
pub proof fn axiom_lb_in_i32<V: IntegerVariable>(live: Live, v: &V)
    ensures i32::MIN <= store_lb(live, v) <= i32::MAX {}

pub proof fn lemma_num_bounds<Var: IntegerVariable>(live: Live, xs: Seq<Var>)
    ensures 0 <= num_fixed(live, xs) <= xs.len(),
            -0x8000_0000 * xs.len() <= sum_fixed(live, xs) <= 0x8000_0000 * xs.len(),
    decreases xs.len()
{
    if xs.len() > 0 { lemma_num_bounds(live, xs.drop_last()); axiom_lb_in_i32(live, &xs.last()); }
}
pub proof fn lemma_all_fixed<Var: IntegerVariable>(live: Live, xs: Seq<Var>)
    ensures (num_fixed(live, xs) == xs.len()) == all_fixed_but(live, xs, -1)
    decreases xs.len()
{
    if xs.len() > 0 {
        let pre = xs.drop_last();
        lemma_all_fixed(live, pre);
        lemma_num_bounds(live, pre);
        if num_fixed(live, xs) == xs.len() {
            assert forall|j: int| #![trigger xs[j]] 0 <= j < xs.len() implies is_fixed_s(live, &xs[j]) by { if j < pre.len() { assert(pre[j] == xs[j]); } }
        }
        if all_fixed_but(live, xs, -1) {
            assert forall|j: int| #![trigger pre[j]] 0 <= j < pre.len() implies is_fixed_s(live, &pre[j]) by { assert(pre[j] == xs[j]); }
            assert(is_fixed_s(live, &xs[xs.len() - 1]));
        }
    }
}
// exactly one term is unfixed and `u` is unfixed: every other term is fixed
pub proof fn lemma_one_unfixed<Var: IntegerVariable>(live: Live, xs: Seq<Var>, u: int)
    requires num_fixed(live, xs) == xs.len() - 1, 0 <= u < xs.len(), !is_fixed_s(live, &xs[u])
    ensures all_fixed_but(live, xs, u)
    decreases xs.len()
{
    let pre = xs.drop_last();
    lemma_num_bounds(live, pre);
    lemma_all_fixed(live, pre);
    if u == xs.len() - 1 {
        assert forall|j: int| #![trigger xs[j]] 0 <= j < xs.len() && j != u implies is_fixed_s(live, &xs[j]) by { assert(pre[j] == xs[j]); }
    } else {
        assert(pre[u] == xs[u]);
        if !is_fixed_s(live, &xs.last()) {
            // then all of `pre` is fixed, but pre[u] is not
            assert(all_fixed_but(live, pre, -1));
            assert(is_fixed_s(live, &pre[u]));
        }
        lemma_one_unfixed(live, pre, u);
        assert forall|j: int| #![trigger xs[j]] 0 <= j < xs.len() && j != u implies is_fixed_s(live, &xs[j]) by { if j < pre.len() { assert(pre[j] == xs[j]); } }
    }
}
// the sum under an assignment that sits on the bounds of the fixed terms
pub proof fn lemma_sum_split<Var: IntegerVariable>(live: Live, xs: Seq<Var>, a: Asg, u: int)
    requires all_fixed_but(live, xs, u), at_lbs(live, xs, a, u), 0 <= u < xs.len() ==> !is_fixed_s(live, &xs[u])
    ensures 0 <= u < xs.len() ==> sum_eval(xs, a) == sum_fixed(live, xs) + xs[u].eval(a),
            !(0 <= u < xs.len()) ==> sum_eval(xs, a) == sum_fixed(live, xs),
    decreases xs.len()
{
    if xs.len() > 0 {
        let pre = xs.drop_last();
        assert forall|j: int| #![trigger pre[j]] 0 <= j < pre.len() && j != u implies is_fixed_s(live, &pre[j]) && pre[j].eval(a) == store_lb(live, &pre[j]) by { assert(pre[j] == xs[j]); }
        if 0 <= u < pre.len() { assert(pre[u] == xs[u]); }
        lemma_sum_split(live, pre, a, u);
        if u != xs.len() - 1 { assert(is_fixed_s(live, &xs[xs.len() - 1]) && xs[xs.len() - 1].eval(a) == store_lb(live, &xs[xs.len() - 1])); }
    }
}
pub proof fn lemma_prefix_step<Var: IntegerVariable>(live: Live, xs: Seq<Var>, k: int)
    requires 0 <= k < xs.len()
    ensures sum_fixed(live, xs.take(k + 1)) == sum_fixed(live, xs.take(k)) + if is_fixed_s(live, &xs[k]) { store_lb(live, &xs[k]) } else { 0 },
            num_fixed(live, xs.take(k + 1)) == num_fixed(live, xs.take(k)) + if is_fixed_s(live, &xs[k]) { 1int } else { 0 },
{
    assert(xs.take(k + 1).drop_last() =~= xs.take(k));
    assert(xs.take(k + 1).last() == xs[k]);
}
// a fixed term has its lower bound as value in every live assignment
pub proof fn lemma_fixed_value<V: IntegerVariable>(live: Live, v: &V, a: Asg)
    requires live(a), is_fixed_s(live, v)
    ensures v.eval(a) == store_lb(live, v)
{ lemma_lb_is_lower(live, v, a); lemma_ub_is_upper(live, v, a); }

impl<Var: IntegerVariable> LinearNotEqualPropagator<Var> {
//@@EXTRACT ne0@@
//@@EXTRACT ne@@
}
} // verus!
fn main() {}
