//! F24 (C14): with `--conflict-resolver no-learning` the DRAT proof written for an unsatisfiable CNF only contains the
//! empty clause; it is not a reverse-unit-propagation refutation (drat-trim: "conflict claimed, but not detected").
//! Reported by a seeding sub-agent on the unchanged tree; confirmed here with the repository's own drat-trim source.
//! Exit 1 = reproduced.
use std::io::Write;
use std::process::Command;

fn main() {
    let repo = std::env::var("PUMPKIN_REPO").unwrap_or_else(|_| "/repo".into());
    let target = std::env::var("CARGO_TARGET_DIR").unwrap_or_else(|_| "/tmp/pumpkin-verif-scratch/replay-target".into());
    let tmp = std::env::temp_dir();
    let cnf = tmp.join("pv_f24.cnf");
    std::fs::File::create(&cnf).unwrap().write_all(b"p cnf 2 4\n1 2 0\n-1 2 0\n1 -2 0\n-1 -2 0\n").unwrap();
    // the checker of the repository's own test-suite
    let drat_trim = tmp.join("pv_f24_drat_trim");
    let st = Command::new("cc")
        .args(["-O1", "-o"]).arg(&drat_trim)
        .arg(format!("{repo}/pumpkin-solver/tests/cnf/checkers/drat-trim.c"))
        .status().expect("cannot run cc");
    assert!(st.success(), "drat-trim does not compile");
    let mut failed = false;
    for resolver in ["uip", "no-learning"] {
        let proof = tmp.join(format!("pv_f24_{resolver}.drat"));
        let out = Command::new("cargo")
            .args(["run", "--offline", "-q", "--manifest-path", &format!("{repo}/Cargo.toml"), "-p", "pumpkin-solver", "--bin", "pumpkin-solver", "--"])
            .args(["--conflict-resolver", resolver, "--proof-path"]).arg(&proof).arg(&cnf)
            .env("CARGO_TARGET_DIR", format!("{target}-bin")).env("RUST_BACKTRACE", "0")
            .output().expect("cannot run cargo");
        let so = String::from_utf8_lossy(&out.stdout).to_string();
        let status = so.lines().find(|l| l.starts_with("s ")).unwrap_or("").to_string();
        let chk = Command::new(&drat_trim).arg(&cnf).arg(&proof).output().expect("cannot run drat-trim");
        let verdict = String::from_utf8_lossy(&chk.stdout).lines().filter(|l| l.starts_with("s ")).last().unwrap_or("").to_string();
        if status == "s UNSATISFIABLE" && verdict == "s VERIFIED" {
            println!("ok [{resolver}]: {status}, proof {verdict}");
        } else {
            println!("REPRODUCED [{resolver}]: (x1 or x2)(-x1 or x2)(x1 or -x2)(-x1 or -x2): solver says `{status}`, drat-trim says `{verdict}` about the proof {:?}", std::fs::read_to_string(&proof).unwrap_or_default());
            failed = true;
        }
    }
    if failed { std::process::exit(1); }
}
