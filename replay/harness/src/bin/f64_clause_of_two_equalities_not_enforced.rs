//! F64 (C01, C02): PropagationContextMut::post_predicate([x == v]) returned Ok(()) without doing anything when v is not in
//! the domain of x (it should be a conflict, as for the three other predicate kinds).  The nogood propagator posts the
//! negation of the last open predicate of a nogood through it: for a clause whose literals are equalities over one
//! variable, [x == 3] or [x == 2], the nogood is {[x != 3], [x != 2]}; once x is fixed to another value the propagator
//! posts [x == 2], gets Ok, and the "solution" violates the clause.  Exit 1 = reproduced.
use pumpkin_solver::predicate;
use pumpkin_solver::results::ProblemSolution;
use pumpkin_solver::results::SatisfactionResult;
use pumpkin_solver::termination::Indefinite;
use pumpkin_solver::Solver;

fn main() {
    let mut solver = Solver::default();
    let x = solver.new_bounded_integer(0, 4);
    let posted = solver.add_clause([predicate!(x == 3), predicate!(x == 2)]).is_ok();
    let mut brancher = solver.default_brancher();
    let mut values = vec![];
    for _ in 0..6 {
        match solver.satisfy(&mut brancher, &mut Indefinite) {
            SatisfactionResult::Satisfiable(s) => values.push(s.get_integer_value(x)),
            _ => values.push(-1),
        }
    }
    println!("x in 0..4, add_clause([x == 3] or [x == 2]) ok = {posted}; six consecutive satisfy calls give x = {values:?}");
    if values.iter().all(|v| *v == 2 || *v == 3) {
        println!("ok: every solution satisfies the clause");
    } else {
        println!("REPRODUCED: solutions that violate the posted clause");
        std::process::exit(1);
    }
}
