//! F52 (C15): a soft clause that occurs twice is merged by Function into one objective literal of twice the weight; with
//! --upper-bound-encoding cardinality-network the encoder then meets non-uniform weights and panics (`Sorting network
//! encoding is only supported on unweighted instances`) on an instance whose file is unweighted.  The generalised
//! totaliser reports the optimum.  Exit 1 = reproduced.
use std::io::Write;
use std::process::Command;

fn run(name: &str, model: &str, args: &[&str]) -> (String, String) {
    let repo = std::env::var("PUMPKIN_REPO").unwrap_or_else(|_| "/repo".into());
    let target = std::env::var("CARGO_TARGET_DIR").unwrap_or_else(|_| "/tmp/pumpkin-verif-scratch/replay-target".into());
    let path = std::env::temp_dir().join(name);
    std::fs::File::create(&path).unwrap().write_all(model.as_bytes()).unwrap();
    let out = Command::new("cargo")
        .args(["run", "--offline", "-q", "--manifest-path", &format!("{repo}/Cargo.toml"), "-p", "pumpkin-solver", "--bin", "pumpkin-solver", "--"])
        .args(args).arg(&path)
        .env("CARGO_TARGET_DIR", format!("{target}-bin")).env("RUST_BACKTRACE", "0")
        .output().expect("cannot run cargo");
    (String::from_utf8_lossy(&out.stdout).to_string(), String::from_utf8_lossy(&out.stderr).to_string())
}


fn verdict(so: &str) -> (Option<u64>, bool) {
    let last_o = so.lines().filter_map(|l| l.strip_prefix("o ")).filter_map(|v| v.trim().parse::<u64>().ok()).last();
    (last_o, so.lines().any(|l| l.trim() == "s OPTIMUM FOUND"))
}

fn main() {
    let model = "p wcnf 6 10 10\n10 -1 -2 0\n10 -3 -4 0\n10 -5 -6 0\n1 1 0\n1 1 0\n1 2 0\n1 3 0\n1 4 0\n1 5 0\n1 6 0\n";
    let (gte, _) = run("pv_f52.wcnf", model, &["--upper-bound-encoding", "generalized-totalizer"]);
    let (cne, cne_err) = run("pv_f52.wcnf", model, &["--upper-bound-encoding", "cardinality-network"]);
    let (g, c) = (verdict(&gte), verdict(&cne));
    println!("generalized-totalizer: last o = {:?}, optimum reported = {}", g.0, g.1);
    println!("cardinality-network:   last o = {:?}, optimum reported = {}", c.0, c.1);
    if g.1 && g == c { println!("ok: both encodings report the same optimum"); }
    else {
        let panic = cne_err.lines().find(|l| l.contains("only supported on unweighted")).unwrap_or("");
        println!("REPRODUCED: all weights 1, the soft clause (1) twice: the encodings disagree; {panic}");
        std::process::exit(1);
    }
}
