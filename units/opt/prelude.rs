use vstd::prelude::*;
//@@SPEC macros.rs@@
//@@EXTRACT macro_predicate@@
verus! {
//@@SPEC vocab.rs@@
//@@SPEC contracts/integer_variable_consumer.rs@@
//@@SPEC api_prelude.rs@@
//@@SPEC lemmas/nonlinear.rs@@
broadcast use {nl_lemmas::lemma_mul_unit, nl_lemmas::lemma_mul_unit_r};

// views: the repository's `IntegerVariable::AffineView` associated type is a cyclic trait for Verus; the
// interface is split as the repository itself does (IntegerVariable + TransformableVariable) with a concrete
// scaled view.  eval(scaled(k)) = k * eval.
pub struct ScaledView<V> { pub inner: V, pub scale: i32 }
impl<V: IntegerVariable> IntegerVariable for ScaledView<V> {
    open spec fn eval(&self, a: Asg) -> int { self.scale * self.inner.eval(a) }
    #[verifier::external_body]
    fn lower_bound_predicate(&self, bound: i32) -> (p: Predicate) { unimplemented!() }
    #[verifier::external_body]
    fn upper_bound_predicate(&self, bound: i32) -> (p: Predicate) { unimplemented!() }
    #[verifier::external_body]
    fn equality_predicate(&self, bound: i32) -> (p: Predicate) { unimplemented!() }
    #[verifier::external_body]
    fn disequality_predicate(&self, bound: i32) -> (p: Predicate) { unimplemented!() }
}
pub trait TransformableVariable: IntegerVariable {
    fn scaled(&self, scale: i32) -> (r: ScaledView<Self>)
        ensures r.scale == scale, r.inner == *self;
}
impl<V: IntegerVariable> TransformableVariable for V {
    #[verifier::external_body]
    fn scaled(&self, scale: i32) -> (r: ScaledView<Self>) { unimplemented!() }
}

// negation of a predicate: contract proved in unit `predicate` (same text), assumed here
//@@SPEC contracts/predicate_not.rs@@
impl std::ops::Not for Predicate {
    type Output = Predicate;
    #[verifier::external_body]
    fn not(self) -> (r: Predicate) { unimplemented!() }
}

#[derive(Clone, Copy)]
pub enum OptimisationDirection { Maximise, Minimise }
pub enum OptimisationResult { Optimal(Solution), Satisfiable(Solution), Unsatisfiable, Unknown }
pub trait SolutionCallback<B: Brancher> { fn on_solution_callback(&self, solver: &Solver, solution: SolutionReference<'_>, brancher: &B); }

pub struct Solver { pub satisfaction_solver: ConstraintSatisfactionSolver }
impl Solver {
    // statement of C12 (assumed): the reported root bound is valid for every solution of the accumulated model
    #[verifier::external_body]
    pub fn lower_bound<V: IntegerVariable>(&self, variable: &V) -> (r: i32)
        requires self.satisfaction_solver.ready()
        ensures forall|a: Asg| #![trigger (self.satisfaction_solver.model@)(a)] (self.satisfaction_solver.model@)(a) ==> variable.eval(a) >= r
    { unimplemented!() }
    pub fn add_clause<I: ClauseLike>(&mut self, clause: I) -> (r: Result<(), ConstraintOperationError>)
        requires old(self).satisfaction_solver.ready(),
        ensures final(self).satisfaction_solver.ready(), final(self).satisfaction_solver.base == old(self).satisfaction_solver.base,
                forall|a: Asg| #![trigger (final(self).satisfaction_solver.model@)(a)] #![trigger (old(self).satisfaction_solver.model@)(a)] (final(self).satisfaction_solver.model@)(a) <==> ((old(self).satisfaction_solver.model@)(a) && clause_holds(clause.preds(), a)),
                r is Err ==> final(self).satisfaction_solver.unsat(),
    { self.satisfaction_solver.add_clause(clause) }
}
// A-VIEWRANGE: the value of a variable / view in a solution held by the engine is an i32
#[verifier::external_body]
pub proof fn axiom_value_is_i32<V: IntegerVariable>(s: &ConstraintSatisfactionSolver, v: &V)
    requires s.state.phase@ is HasSolution
    ensures i32::MIN <= v.eval(s.cur@) <= i32::MAX
{ }

// A-VIEWRANGE, for every solution of the accumulated model (values of variables / views are i32)
#[verifier::external_body]
pub proof fn axiom_solution_values_are_i32<V: IntegerVariable>(s: &ConstraintSatisfactionSolver, v: &V)
    ensures forall|a: Asg| #![trigger (s.model@)(a)] (s.model@)(a) ==> i32::MIN <= v.eval(a) <= i32::MAX
{ }

// values held by the engine in a solution are i32 (by type)
#[verifier::external_body]
pub proof fn axiom_solution_asg_is_i32(s: &ConstraintSatisfactionSolver)
    requires s.state.phase@ is HasSolution
    ensures forall|i: int| i32::MIN <= #[trigger] (s.cur@)(i) <= i32::MAX
{ }

pub struct LinearSatUnsat<Var, Callback> {
    pub direction: OptimisationDirection,
    pub objective: Var,
    pub solution_callback: Callback,
}
pub struct LinearUnsatSat<Var, Callback> {
    pub direction: OptimisationDirection,
    pub objective: Var,
    pub solution_callback: Callback,
}
// "s is at least as good as a" for the given direction
pub open spec fn no_better(maximise: bool, obj_s: int, obj_a: int) -> bool {
    if maximise { obj_a <= obj_s } else { obj_a >= obj_s }
}

//@@EXTRACT proc_trait@@
//@@EXTRACT lsu_helpers@@
//@@EXTRACT lsu@@
//@@EXTRACT lus@@
} // verus!
fn main() {}
