// ReadDomains::is_fixed on the read-only context (kept apart from prop_ctx.rs: units that do not need it keep their
// proof context unchanged).  real text: `self.lower_bound(var) == self.upper_bound(var)`
impl<'a> PropagationContext<'a> {
    pub fn is_fixed<V: IntegerVariable>(&self, var: &V) -> (r: bool)
        ensures r ==> fixed_in(self.live(), var),
                fixed_in(self.live(), var) && !live_empty(self.live()) ==> r,
                r == (self.lb(var) == self.ub(var)),
    {
        let l = self.lower_bound(var);
        let u = self.upper_bound(var);
        proof {
            if l == u {
                assert(all_eq(self.live(), var, l as int));
            }
        }
        l == u
    }
}
