use vstd::prelude::*;
verus! {

pub type Asg = Map<int, int>;
pub type Model = spec_fn(Asg) -> bool;

#[derive(Clone, Copy)]
pub struct DomainId { pub id: u32 }

#[derive(Clone, Copy)]
pub enum Predicate {
    LowerBound { domain_id: DomainId, lower_bound: i32 },
    UpperBound { domain_id: DomainId, upper_bound: i32 },
    NotEqual { domain_id: DomainId, not_equal_constant: i32 },
    Equal { domain_id: DomainId, equality_constant: i32 },
}
pub open spec fn pred_holds(p: Predicate, a: Asg) -> bool {
    match p {
        Predicate::LowerBound { domain_id, lower_bound } => a[domain_id.id as int] >= lower_bound,
        Predicate::UpperBound { domain_id, upper_bound } => a[domain_id.id as int] <= upper_bound,
        Predicate::NotEqual { domain_id, not_equal_constant } => a[domain_id.id as int] != not_equal_constant,
        Predicate::Equal { domain_id, equality_constant } => a[domain_id.id as int] == equality_constant,
    }
}

pub struct ScaledView<V> { pub inner: V, pub scale: i32 }
pub trait IntegerVariable: Sized {
    spec fn eval(&self, a: Asg) -> int;
    fn lower_bound_predicate(&self, bound: i32) -> (p: Predicate)
        ensures forall|a: Asg| #[trigger] pred_holds(p, a) <==> self.eval(a) >= bound;
    fn upper_bound_predicate(&self, bound: i32) -> (p: Predicate)
        ensures forall|a: Asg| #[trigger] pred_holds(p, a) <==> self.eval(a) <= bound;
}

impl<V: IntegerVariable> IntegerVariable for ScaledView<V> {
    open spec fn eval(&self, a: Asg) -> int { self.scale * self.inner.eval(a) }
    #[verifier::external_body]
    fn lower_bound_predicate(&self, bound: i32) -> (p: Predicate) { unimplemented!() }
    #[verifier::external_body]
    fn upper_bound_predicate(&self, bound: i32) -> (p: Predicate) { unimplemented!() }
}
pub trait TransformableVariable: IntegerVariable {
    fn scaled(&self, scale: i32) -> (r: ScaledView<Self>)
        ensures forall|a: Asg| #[trigger] r.eval(a) == scale * self.eval(a);
}
impl<V: IntegerVariable> TransformableVariable for V {
    #[verifier::external_body]
    fn scaled(&self, scale: i32) -> (r: ScaledView<Self>) { unimplemented!() }
}
pub trait ClauseLike { spec fn preds(&self) -> Seq<Predicate>; }
impl<const N: usize> ClauseLike for [Predicate; N] { open spec fn preds(&self) -> Seq<Predicate> { self@ } }
impl ClauseLike for Vec<Predicate> { open spec fn preds(&self) -> Seq<Predicate> { self@ } }
pub open spec fn clause_holds(c: Seq<Predicate>, a: Asg) -> bool { exists|i: int| 0 <= i < c.len() && pred_holds(#[trigger] c[i], a) }
pub enum CSPSolverExecutionFlag { Feasible, Infeasible, Timeout }
#[derive(Clone, Copy)]
pub enum OptimisationDirection { Maximise, Minimise }

pub struct Solution { pub asg: Ghost<Asg> }
impl Solution {
    #[verifier::external_body]
    pub fn default() -> Solution { unimplemented!() }
    #[verifier::external_body]
    pub fn as_reference(&self) -> (r: SolutionReference<'_>) ensures r.asg == self.asg { unimplemented!() }
}
pub struct SolutionReference<'a> { pub asg: Ghost<Asg>, pub p: core::marker::PhantomData<&'a ()> }
impl<'a> SolutionReference<'a> {
    #[verifier::external_body]
    pub fn into(self) -> (r: Solution) ensures r.asg == self.asg { unimplemented!() }
}

pub enum OptimisationResult { Optimal(Solution), Satisfiable(Solution), Unsatisfiable, Unknown }
pub struct ConstraintOperationError;

pub trait TerminationCondition { fn should_stop(&mut self) -> bool; }
pub trait Brancher { fn on_solution(&mut self, solution: SolutionReference<'_>); }
pub trait SolutionCallback<B: Brancher> { fn on_solution_callback(&self, solver: &Solver, solution: SolutionReference<'_>, brancher: &B); }

// ---- the engine, abstracted to its contract -------------------------------------------------
pub struct ConstraintSatisfactionSolver {
    pub model: Ghost<Model>,            // conjunction of everything posted so far
    pub cur: Ghost<Asg>,                // the assignment held after a Feasible result
    pub has_solution: Ghost<bool>,
}
pub struct Solver { pub satisfaction_solver: ConstraintSatisfactionSolver }

impl ConstraintSatisfactionSolver {
    #[verifier::external_body]
    pub fn solve<T: TerminationCondition, B: Brancher>(&mut self, termination: &mut T, brancher: &mut B) -> (r: CSPSolverExecutionFlag)
        ensures
            final(self).model == old(self).model,
            r is Feasible ==> final(self).has_solution@ && (final(self).model@)(final(self).cur@),
            r is Infeasible ==> forall|a: Asg| !(#[trigger] (old(self).model@)(a)),
    { unimplemented!() }

    #[verifier::external_body]
    pub fn restore_state_at_root<B: Brancher>(&mut self, brancher: &mut B)
        ensures final(self).model == old(self).model, !final(self).has_solution@
    { unimplemented!() }

    #[verifier::external_body]
    pub fn conclude_proof_unsat(&mut self) -> (r: Result<(), ()>) ensures *final(self) == *old(self) { unimplemented!() }
    #[verifier::external_body]
    pub fn conclude_proof_optimal(&mut self, bound: Predicate) -> (r: Result<(), ()>) ensures *final(self) == *old(self) { unimplemented!() }

    #[verifier::external_body]
    pub fn add_clause<I: ClauseLike>(&mut self, clause: I) -> (r: Result<(), ConstraintOperationError>)
        ensures
            forall|a: Asg| #[trigger] (final(self).model@)(a) <==> ((old(self).model@)(a) && clause_holds(clause.preds(), a)),
            r is Err ==> forall|a: Asg| !(#[trigger] (final(self).model@)(a)),
            final(self).has_solution == old(self).has_solution, final(self).cur == old(self).cur,
    { unimplemented!() }

    #[verifier::external_body]
    pub fn get_assigned_integer_value<V: IntegerVariable>(&self, variable: &V) -> (r: Option<i32>)
        ensures self.has_solution@ ==> r == Some(variable.eval(self.cur@) as i32) && i32::MIN <= variable.eval(self.cur@) <= i32::MAX
    { unimplemented!() }

    #[verifier::external_body]
    pub fn get_solution_reference(&self) -> (r: SolutionReference<'_>)
        ensures r.asg == self.cur
    { unimplemented!() }
}
}


macro_rules! predicate {
    ($($var:ident).+$([$index:expr])? >= $bound:expr) => {{ $($var).+$([$index])?.lower_bound_predicate($bound) }};
    ($($var:ident).+$([$index:expr])? <= $bound:expr) => {{ $($var).+$([$index])?.upper_bound_predicate($bound) }};
}
macro_rules! pumpkin_assert_simple { ($cond:expr $(, $($arg:tt)*)?) => { assert!($cond) } }
verus! {
pub trait OptimisationProcedure<B: Brancher, Callback: SolutionCallback<B>> {
    fn optimise(
        &mut self,
        brancher: &mut B,
        termination: &mut impl TerminationCondition,
        solver: &mut Solver,
    ) -> (r: OptimisationResult)
        requires !old(solver).satisfaction_solver.has_solution@,
        ensures
            r matches OptimisationResult::Unsatisfiable ==> forall|a: Asg| !(#[trigger] (old(solver).satisfaction_solver.model@)(a)),
            r matches OptimisationResult::Satisfiable(s) ==> (old(solver).satisfaction_solver.model@)(s.asg@),
            r matches OptimisationResult::Optimal(s) ==> (old(solver).satisfaction_solver.model@)(s.asg@)
                && forall|a: Asg| #[trigger] (old(solver).satisfaction_solver.model@)(a) ==> old(self).better_or_equal(s.asg@, a),
    ;
    spec fn better_or_equal(&self, best: Asg, other: Asg) -> bool;

    fn on_solution_callback(&self, solver: &Solver, solution: SolutionReference, brancher: &B);

    /// Processes a solution when it is found, it consists of the following procedure:
    /// - Assigning `best_objective_value` the value assigned to `objective_variable` (multiplied by
    ///   `objective_multiplier`).
    /// - Storing the new best solution in `best_solution`.
    /// - Calling [`Brancher::on_solution`] on the provided `brancher`.
    /// - Logging the statistics using [`Solver::log_statistics_with_objective`].
    /// - Calling the solution callback.
    fn update_best_solution_and_process(
        &self,
        objective_multiplier: i32,
        objective_variable: &impl IntegerVariable,
        best_objective_value: &mut i64,
        best_solution: &mut Solution,
        brancher: &mut B,
        solver: &Solver,
    ) {
        *best_objective_value = (objective_multiplier
            * solver
                .satisfaction_solver
                .get_assigned_integer_value(objective_variable)
                .expect("expected variable to be assigned")) as i64;
        *best_solution = solver.satisfaction_solver.get_solution_reference().into();

        self.internal_process_solution(best_solution, brancher, solver)
    }

    fn internal_process_solution(&self, solution: &Solution, brancher: &mut B, solver: &Solver) {
        brancher.on_solution(solution.as_reference());

        self.on_solution_callback(solver, solution.as_reference(), brancher)
    }
}
pub struct LinearSatUnsat<Var, Callback> {
    direction: OptimisationDirection,
    objective: Var,
    solution_callback: Callback,
}
impl<Var: IntegerVariable, Callback> LinearSatUnsat<Var, Callback> {
    /// Given the current objective value `best_objective_value`, it adds a constraint specifying
    /// that the objective value should be at most `best_objective_value - 1`. Note that it is
    /// assumed that we are always minimising the variable.
    fn strengthen(
        &mut self,
        objective_variable: &impl IntegerVariable,
        best_objective_value: i64,
        solver: &mut Solver,
    ) -> Result<(), ConstraintOperationError> {
        solver.satisfaction_solver.add_clause([predicate!(
            objective_variable <= (best_objective_value - 1) as i32
        )])
    }

    fn debug_bound_change(
        &self,
        objective_variable: &impl IntegerVariable,
        best_objective_value: i64,
        solver: &Solver,
    ) {
        pumpkin_assert_simple!(
            (solver
                .satisfaction_solver
                .get_assigned_integer_value(objective_variable)
                .expect("expected variable to be assigned") as i64)
                < best_objective_value,
            "{}",
            format!(
                "The current bound {} should be smaller than the previous bound {}",
                solver
                    .satisfaction_solver
                    .get_assigned_integer_value(objective_variable)
                    .expect("expected variable to be assigned"),
                best_objective_value
            )
        );
    }
}
impl<Var, Callback, B> OptimisationProcedure<B, Callback> for LinearSatUnsat<Var, Callback>
where
    Var: IntegerVariable,
    B: Brancher,
    Callback: SolutionCallback<B>,
{
    closed spec fn better_or_equal(&self, best: Asg, other: Asg) -> bool {
        match self.direction {
            OptimisationDirection::Maximise => self.objective.eval(best) >= self.objective.eval(other),
            OptimisationDirection::Minimise => self.objective.eval(best) <= self.objective.eval(other),
        }
    }
    #[verifier::exec_allows_no_decreases_clause]
    fn optimise(
        &mut self,
        brancher: &mut B,
        termination: &mut impl TerminationCondition,
        solver: &mut Solver,
    ) -> OptimisationResult {
        let is_maximising = matches!(self.direction, OptimisationDirection::Maximise);
        let objective = match self.direction {
            OptimisationDirection::Maximise => self.objective.scaled(-1),
            OptimisationDirection::Minimise => self.objective.scaled(1),
        };
        // If we are maximising then when we simply scale the variable by -1, however, this will
        // lead to the printed objective value in the statistics to be multiplied by -1; this
        // objective_multiplier ensures that the objective is correctly logged.
        let objective_multiplier = if is_maximising { -1 } else { 1 };

        let initial_solve = solver.satisfaction_solver.solve(termination, brancher);
        match initial_solve {
            CSPSolverExecutionFlag::Feasible => {}
            CSPSolverExecutionFlag::Infeasible => {
                // Reset the state whenever we return a result
                solver.satisfaction_solver.restore_state_at_root(brancher);
                let _ = solver.satisfaction_solver.conclude_proof_unsat();
                return OptimisationResult::Unsatisfiable;
            }
            CSPSolverExecutionFlag::Timeout => {
                // Reset the state whenever we return a result
                solver.satisfaction_solver.restore_state_at_root(brancher);
                return OptimisationResult::Unknown;
            }
        }
        let mut best_objective_value = Default::default();
        let mut best_solution = Solution::default();

        self.update_best_solution_and_process(
            objective_multiplier,
            &objective,
            &mut best_objective_value,
            &mut best_solution,
            brancher,
            solver,
        );

        loop
            invariant
                (old(solver).satisfaction_solver.model@)(best_solution.asg@),
                forall|a: Asg| #[trigger] (solver.satisfaction_solver.model@)(a) ==> (old(solver).satisfaction_solver.model@)(a),
                // every solution of the original model that is not in the current model is no better than the incumbent
                forall|a: Asg| #[trigger] (old(solver).satisfaction_solver.model@)(a) && !(solver.satisfaction_solver.model@)(a) ==> self.better_or_equal(best_solution.asg@, a),
                best_objective_value == objective_multiplier * objective.eval(best_solution.asg@),
                is_maximising == (self.direction is Maximise),
                objective_multiplier == (if is_maximising { -1i32 } else { 1i32 }),
                forall|a: Asg| #[trigger] objective.eval(a) == objective_multiplier * self.objective.eval(a),
        {
            solver.satisfaction_solver.restore_state_at_root(brancher);

            let objective_bound_predicate = if is_maximising {
                predicate![objective >= best_objective_value as i32 * objective_multiplier]
            } else {
                predicate![objective <= best_objective_value as i32 * objective_multiplier]
            };

            if self
                .strengthen(
                    &objective,
                    best_objective_value * objective_multiplier as i64,
                    solver,
                )
                .is_err()
            {
                // Reset the state whenever we return a result
                solver.satisfaction_solver.restore_state_at_root(brancher);
                let _ = solver
                    .satisfaction_solver
                    .conclude_proof_optimal(objective_bound_predicate);
                return OptimisationResult::Optimal(best_solution);
            }

            let solve_result = solver.satisfaction_solver.solve(termination, brancher);
            match solve_result {
                CSPSolverExecutionFlag::Feasible => {
                    self.debug_bound_change(
                        &objective,
                        best_objective_value * objective_multiplier as i64,
                        solver,
                    );
                    self.update_best_solution_and_process(
                        objective_multiplier,
                        &objective,
                        &mut best_objective_value,
                        &mut best_solution,
                        brancher,
                        solver,
                    );
                }
                CSPSolverExecutionFlag::Infeasible => {
                    {
                        // Reset the state whenever we return a result
                        solver.satisfaction_solver.restore_state_at_root(brancher);
                        let _ = solver
                            .satisfaction_solver
                            .conclude_proof_optimal(objective_bound_predicate);
                        return OptimisationResult::Optimal(best_solution);
                    }
                }
                CSPSolverExecutionFlag::Timeout => {
                    // Reset the state whenever we return a result
                    solver.satisfaction_solver.restore_state_at_root(brancher);
                    return OptimisationResult::Satisfiable(best_solution);
                }
            }
        }
    }

    fn on_solution_callback(&self, solver: &Solver, solution: SolutionReference, brancher: &B) {
        self.solution_callback
            .on_solution_callback(solver, solution, brancher)
    }
}
}
fn main(){}
