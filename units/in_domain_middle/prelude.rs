#![feature(allocator_api)]
use vstd::prelude::*;
//@@SPEC macros.rs@@
//@@EXTRACT macro_predicate@@
verus! {
#[derive(Clone, Copy, PartialEq, Eq, Structural)]
pub struct DomainId { pub id: u32 }
#[derive(Clone, Copy, PartialEq, Eq, Structural)]
pub enum Predicate {
    LowerBound { domain_id: DomainId, lower_bound: i32 },
    UpperBound { domain_id: DomainId, upper_bound: i32 },
    NotEqual { domain_id: DomainId, not_equal_constant: i32 },
    Equal { domain_id: DomainId, equality_constant: i32 },
}
impl DomainId {
    #[verifier::external_body]
    pub fn lower_bound_predicate(&self, bound: i32) -> (p: Predicate) ensures p == (Predicate::LowerBound { domain_id: *self, lower_bound: bound }) { unimplemented!() }
    #[verifier::external_body]
    pub fn upper_bound_predicate(&self, bound: i32) -> (p: Predicate) ensures p == (Predicate::UpperBound { domain_id: *self, upper_bound: bound }) { unimplemented!() }
    #[verifier::external_body]
    pub fn equality_predicate(&self, bound: i32) -> (p: Predicate) ensures p == (Predicate::Equal { domain_id: *self, equality_constant: bound }) { unimplemented!() }
    #[verifier::external_body]
    pub fn disequality_predicate(&self, bound: i32) -> (p: Predicate) ensures p == (Predicate::NotEqual { domain_id: *self, not_equal_constant: bound }) { unimplemented!() }
}
// the domain of a variable: a set of values whose smallest and largest members are its bounds
pub struct SelectionContext { pub dom: Ghost<Map<int, Set<int>>>, pub lb: Ghost<Map<int, int>>, pub ub: Ghost<Map<int, int>> }
impl SelectionContext {
    pub open spec fn wf(&self, v: DomainId) -> bool {
        let d = self.dom@[v.id as int]; let l = self.lb@[v.id as int]; let u = self.ub@[v.id as int];
        &&& d.contains(l) && d.contains(u) && l <= u
        &&& forall|x: int| #![trigger d.contains(x)] d.contains(x) ==> l <= x <= u
        &&& -0x4000_0000 <= l && u <= 0x4000_0000
    }
    #[verifier::external_body]
    pub fn lower_bound(&self, v: DomainId) -> (r: i32) ensures r == self.lb@[v.id as int] { unimplemented!() }
    #[verifier::external_body]
    pub fn upper_bound(&self, v: DomainId) -> (r: i32) ensures r == self.ub@[v.id as int] { unimplemented!() }
    #[verifier::external_body]
    pub fn contains(&self, v: DomainId, value: i32) -> (r: bool) ensures r == self.dom@[v.id as int].contains(value as int) { unimplemented!() }
    #[verifier::external_body]
    pub fn get_size_of_domain(&self, v: DomainId) -> (r: i32) ensures r == self.ub@[v.id as int] - self.lb@[v.id as int] { unimplemented!() }
}
// D64
#[verifier::external_body]
pub fn pv_half_floor(x: i32) -> (r: i32) requires x >= 0 ensures r == x / 2 { ((x as f64) / 2.0).floor() as i32 }
// the implementation is generic over the variable; it is read for plain domain ids
pub type Var = DomainId;
pub struct InDomainMiddle;
pub trait ValueSelector {
    // @C18 @C10 the value that is proposed is in the domain: the decision cannot fail
    fn select_value(&mut self, context: &mut SelectionContext, decision_variable: DomainId) -> (r: Predicate)
        requires old(context).wf(decision_variable), old(context).lb@[decision_variable.id as int] < old(context).ub@[decision_variable.id as int],
        ensures r matches Predicate::Equal { domain_id, equality_constant } && domain_id == decision_variable
                    && old(context).dom@[decision_variable.id as int].contains(equality_constant as int),
                *final(context) == *old(context);
}
impl ValueSelector for InDomainMiddle {
//@@EXTRACT idm@@
}
} // verus!
fn main() {}
