//! F6 (C13): VariableEquivalences::merge kept using the index of the second class after `swap_remove` had
//! moved that class; a well-formed FlatZinc model with two alias declarations panics.  Runs the real binary.
use std::io::Write;
use std::process::Command;

fn main() {
    let repo = std::env::var("PUMPKIN_REPO").unwrap_or_else(|_| "/repo".into());
    let model = "var 1..5: x :: output_var;\nvar 1..5: y :: output_var = x;\nvar 1..5: z :: output_var;\nvar 1..5: w :: output_var = z;\nsolve satisfy;\n";
    let path = std::env::temp_dir().join("pv_f6.fzn");
    std::fs::File::create(&path).unwrap().write_all(model.as_bytes()).unwrap();
    let target = std::env::var("CARGO_TARGET_DIR").unwrap_or_else(|_| "/tmp/pumpkin-verif-scratch/replay-target".into());
    let out = Command::new("cargo")
        .args(["run", "--offline", "-q", "--manifest-path", &format!("{repo}/Cargo.toml"), "-p", "pumpkin-solver", "--bin", "pumpkin-solver", "--"])
        .arg(&path)
        .env("CARGO_TARGET_DIR", format!("{target}-bin"))
        .env("RUST_BACKTRACE", "0")
        .output()
        .expect("cannot run cargo");
    let so = String::from_utf8_lossy(&out.stdout).to_string();
    let se = String::from_utf8_lossy(&out.stderr).to_string();
    let get = |name: &str| so.lines().find(|l| l.starts_with(&format!("{name} = "))).map(|l| l.to_string());
    match (get("x"), get("y"), get("z"), get("w")) {
        (Some(x), Some(y), Some(z), Some(w)) => {
            let v = |s: &String| s.split('=').nth(1).unwrap().trim().trim_end_matches(';').to_string();
            if v(&x) == v(&y) && v(&z) == v(&w) {
                println!("ok: aliases honoured ({x} {y} {z} {w})");
            } else {
                println!("REPRODUCED: alias declarations not honoured: {x} {y} {z} {w}");
                std::process::exit(1);
            }
        }
        _ => {
            let msg = se.lines().find(|l| l.contains("panicked") || l.contains("index out of bounds")).unwrap_or("no solution printed");
            println!("REPRODUCED: `var x; var y = x; var z; var w = z; solve satisfy` does not produce a solution: {msg}");
            std::process::exit(1);
        }
    }
}
