#![feature(allocator_api)]
use vstd::prelude::*;
//@@SPEC macros.rs@@
verus! {
#[derive(Clone, Copy, PartialEq, Eq, Structural)]
pub struct DomainId { pub id: u32 }
#[derive(Clone, Copy, PartialEq, Eq, Structural)]
pub enum Predicate {
    LowerBound { domain_id: DomainId, lower_bound: i32 },
    UpperBound { domain_id: DomainId, upper_bound: i32 },
    NotEqual { domain_id: DomainId, not_equal_constant: i32 },
    Equal { domain_id: DomainId, equality_constant: i32 },
}
pub open spec fn sat(p: Predicate, d: int) -> bool {
    match p {
        Predicate::LowerBound { lower_bound, .. } => d >= lower_bound,
        Predicate::UpperBound { upper_bound, .. } => d <= upper_bound,
        Predicate::NotEqual { not_equal_constant, .. } => d != not_equal_constant,
        Predicate::Equal { equality_constant, .. } => d == equality_constant,
    }
}
pub open spec fn var_of(p: Predicate) -> DomainId {
    match p {
        Predicate::LowerBound { domain_id, .. } => domain_id,
        Predicate::UpperBound { domain_id, .. } => domain_id,
        Predicate::NotEqual { domain_id, .. } => domain_id,
        Predicate::Equal { domain_id, .. } => domain_id,
    }
}
// std: i32::abs_diff (the distance as u32)
pub assume_specification [i32::abs_diff] (a: i32, b: i32) -> (r: u32)
    ensures r == (if a >= b { a - b } else { b - a });
#[derive(Clone, Copy, PartialEq, Eq, Structural)]
pub struct ReasonRef { pub v: u32 }
#[derive(Clone, Copy)]
pub struct EmptyDomain;
#[derive(Clone, Copy)]
pub struct ConstraintProgrammingTrailEntry {
    pub predicate: Predicate,
    pub old_lower_bound: i32,
    pub old_upper_bound: i32,
    pub reason: Option<ReasonRef>,
}
pub struct EventSink { pub x: u8 }
// ---- IntegerDomain: the abstract value set and the contracts proved in unit `domain` ----
pub struct IntegerDomain { pub vals: Ghost<Set<int>>, pub lbv: Ghost<int>, pub ubv: Ghost<int> }
impl IntegerDomain {
    pub open spec fn has(&self, v: int) -> bool { self.vals@.contains(v) }
    pub open spec fn lb(&self) -> int { self.lbv@ }
    pub open spec fn ub(&self) -> int { self.ubv@ }
    pub open spec fn empty(&self) -> bool { self.lb() > self.ub() }
    // what unit domain calls wf(): bounds enclose the values, are attained unless the domain is empty, and are i32 values
    pub open spec fn wf(&self) -> bool {
        &&& i32::MIN <= self.lb() <= i32::MAX && i32::MIN <= self.ub() <= i32::MAX
        &&& forall|v: int| #![trigger self.has(v)] self.has(v) ==> self.lb() <= v <= self.ub()
        &&& (!self.empty() ==> self.has(self.lb()) && self.has(self.ub()))
        &&& (self.empty() ==> forall|v: int| #![trigger self.has(v)] !self.has(v))
    }
    #[verifier::external_body]
    pub fn lower_bound(&self) -> (r: i32) requires self.wf() ensures r == self.lb() { unimplemented!() }
    #[verifier::external_body]
    pub fn upper_bound(&self) -> (r: i32) requires self.wf() ensures r == self.ub() { unimplemented!() }
    #[verifier::external_body]
    pub fn contains(&self, value: i32) -> (r: bool) requires self.wf() ensures r == self.has(value as int) { unimplemented!() }
    #[verifier::external_body]
    pub fn verify_consistency(&self) -> (r: Result<(), EmptyDomain>) requires self.wf() ensures r is Err == self.empty() { unimplemented!() }
    #[verifier::external_body]
    pub fn set_lower_bound(&mut self, new_lower_bound: i32, decision_level: usize, trail_position: usize, events: &mut EventSink)
        requires old(self).wf()
        ensures final(self).wf(), forall|v: int| #![trigger final(self).has(v)] #![trigger old(self).has(v)] final(self).has(v) <==> (old(self).has(v) && v >= new_lower_bound),
                final(self).lb() >= old(self).lb(), final(self).ub() == old(self).ub(),
    { unimplemented!() }
    #[verifier::external_body]
    pub fn set_upper_bound(&mut self, new_upper_bound: i32, decision_level: usize, trail_position: usize, events: &mut EventSink)
        requires old(self).wf()
        ensures final(self).wf(), forall|v: int| #![trigger final(self).has(v)] #![trigger old(self).has(v)] final(self).has(v) <==> (old(self).has(v) && v <= new_upper_bound),
                final(self).ub() <= old(self).ub(), final(self).lb() == old(self).lb(),
    { unimplemented!() }
    #[verifier::external_body]
    pub fn remove_value(&mut self, removed_value: i32, decision_level: usize, trail_position: usize, events: &mut EventSink)
        requires old(self).wf(),
                 removed_value == old(self).lb() ==> removed_value < i32::MAX,     // A-RANGE
                 removed_value == old(self).ub() ==> removed_value > i32::MIN,
        ensures final(self).wf(), forall|v: int| #![trigger final(self).has(v)] #![trigger old(self).has(v)] final(self).has(v) <==> (old(self).has(v) && v != removed_value),
                final(self).lb() >= old(self).lb(), final(self).ub() <= old(self).ub(),
    { unimplemented!() }
}
pub struct KeyedVec { pub elements: Vec<IntegerDomain> }
impl vstd::std_specs::core::IndexSpecImpl<DomainId> for KeyedVec {
    open spec fn index_req(&self, index: &DomainId) -> bool { index.id < self.elements@.len() }
}
impl std::ops::Index<DomainId> for KeyedVec {
    type Output = IntegerDomain;
    fn index(&self, index: DomainId) -> (r: &IntegerDomain) ensures *r == self.elements@[index.id as int] { &self.elements[index.id as usize] }
}
impl std::ops::IndexMut<DomainId> for KeyedVec {
    #[verifier::external_body]
    fn index_mut(&mut self, index: DomainId) -> (r: &mut IntegerDomain)
        ensures *r == old(self).elements@[index.id as int], final(self).elements@ == old(self).elements@.update(index.id as int, *final(r))
    { unimplemented!() }
}
pub struct Trail { pub entries: Vec<ConstraintProgrammingTrailEntry>, pub level: usize }
impl Trail {
    #[verifier::external_body]
    pub fn len(&self) -> (r: usize) ensures r == self.entries@.len() { unimplemented!() }
    #[verifier::external_body]
    pub fn push(&mut self, e: ConstraintProgrammingTrailEntry) ensures final(self).entries@ == old(self).entries@.push(e), final(self).level == old(self).level { unimplemented!() }
    #[verifier::external_body]
    pub fn get_decision_level(&self) -> (r: usize) ensures r == self.level { unimplemented!() }
}
pub struct Assignments {
    pub trail: Trail,
    pub domains: KeyedVec,
    pub events: EventSink,
    pub backtrack_events: EventSink,
    pub pruned_values: u64,
}
impl Assignments {
    pub open spec fn wf(&self) -> bool {
        forall|i: int| #![trigger self.domains.elements@[i]] 0 <= i < self.domains.elements@.len() ==> self.domains.elements@[i].wf()
    }
    // the statistic pruned_values stays far from the end of u64 (each operation adds at most 2^33)
    pub open spec fn stat_ok(&self) -> bool { self.pruned_values < 0x4000_0000_0000_0000 }
    pub open spec fn dom(&self, x: DomainId) -> IntegerDomain { self.domains.elements@[x.id as int] }
    // the effect of posting p (a predicate over x): the domain of x is intersected with p, nothing else changes
    pub open spec fn posted(&self, old_s: &Assignments, x: DomainId, p: Predicate) -> bool {
        &&& self.domains.elements@.len() == old_s.domains.elements@.len()
        &&& forall|i: int| #![trigger self.domains.elements@[i]] 0 <= i < self.domains.elements@.len() && i != x.id ==> self.domains.elements@[i] == old_s.domains.elements@[i]
        &&& forall|v: int| #![trigger self.domains.elements@[x.id as int].has(v)] #![trigger old_s.domains.elements@[x.id as int].has(v)] self.domains.elements@[x.id as int].has(v) <==> (old_s.domains.elements@[x.id as int].has(v) && sat(p, v))
        &&& self.trail.level == old_s.trail.level
    }
    #[verifier::external_body]
    pub fn get_decision_level(&self) -> (r: usize) ensures r == self.trail.level { unimplemented!() }
//@@EXTRACT asg@@
}
} // verus!
fn main() {}
