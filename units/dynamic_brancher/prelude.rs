#![feature(allocator_api)]
use vstd::prelude::*;
//@@SPEC macros.rs@@
verus! {
#[derive(Clone, Copy, PartialEq, Eq, Structural)]
pub struct DomainId { pub id: u32 }
#[derive(Clone, Copy, PartialEq, Eq, Structural)]
pub struct Predicate { pub code: u64 }
pub struct Assignments { pub state: Ghost<int> }
#[derive(Clone, Copy)]
pub struct SolutionReference<'a> { pub assignments: &'a Assignments }
pub struct SelectionContext<'a> { pub assignments: &'a Assignments, pub random: Ghost<int> }
pub uninterp spec fn undecided(state: int, p: Predicate) -> bool;
#[derive(Clone, Copy, PartialEq, Eq, Structural)]
//@@EXTRACT s_event@@

pub trait Brancher {
    // the variables a None answer vouches for are fixed in the given solver state: for a selector all its variables,
    // for a sequential composition the variables of the branchers from its current index on
    spec fn covers(&self, state: int) -> bool;
    // the representation invariant of the implementor
    spec fn inv(&self) -> bool;
    // a None answer vouches for ALL variables of the brancher again (nothing is skipped)
    spec fn rewound(&self) -> bool;

    fn next_decision(&mut self, context: &mut SelectionContext) -> (r: Option<Predicate>)
        requires old(self).inv(),
        ensures final(self).inv(),
            final(context).assignments == old(context).assignments,
            // @C18 a proposal is undecided; nothing is proposed only when the variables vouched for are fixed
            r matches Some(p) ==> undecided(old(context).assignments.state@, p),
            r is None ==> old(self).covers(old(context).assignments.state@) && final(self).covers(old(context).assignments.state@);
    fn on_conflict(&mut self)
        requires old(self).inv(), ensures final(self).inv(), final(self).rewound();   // @C18 events that unfix variables rewind the brancher
    fn on_backtrack(&mut self)
        requires old(self).inv(), ensures final(self).inv(), final(self).rewound();   // @C18 events that unfix variables rewind the brancher
    fn on_solution(&mut self, solution: SolutionReference)
        requires old(self).inv(), ensures final(self).inv(), final(self).rewound();   // @C18 events that unfix variables rewind the brancher
    fn on_unassign_integer(&mut self, variable: DomainId, value: i32)
        requires old(self).inv(), ensures final(self).inv();
    // the events this brancher wants to be told about
    spec fn subs(&self) -> Seq<BrancherEvent>;
    fn subscribe_to_events(&self) -> (r: Vec<BrancherEvent>)
        ensures r@ == self.subs();
}
// enum_map::EnumMap by the documented map semantics
pub struct EnumMap<K, V> { pub m: Ghost<Map<K, V>>, pub x: Option<(K, V)> }
impl<K, V> EnumMap<K, V> {
    pub open spec fn at(&self, k: K) -> V { self.m@[k] }
}
impl<K, V> vstd::std_specs::core::IndexSpecImpl<K> for EnumMap<K, V> {
    open spec fn index_req(&self, index: &K) -> bool { true }
}
impl<K, V> std::ops::Index<K> for EnumMap<K, V> {
    type Output = V;
    #[verifier::external_body]
    fn index(&self, k: K) -> (r: &V) ensures *r == self.m@[k] { unimplemented!() }
}

impl<K, V> std::ops::IndexMut<K> for EnumMap<K, V> {
    #[verifier::external_body]
    fn index_mut(&mut self, k: K) -> (r: &mut V)
        ensures *r == old(self).m@[k], final(self).m@ == old(self).m@.insert(k, *final(r)),
    { unimplemented!() }
}
impl<K> EnumMap<K, Vec<usize>> {
    #[verifier::external_body]
    pub fn default() -> (r: Self) ensures forall|k: K| #![trigger r.m@[k]] r.m@[k]@.len() == 0 { unimplemented!() }
}
// <[T]>::contains by its documented semantics
pub assume_specification<T: PartialEq> [<[T]>::contains] (s: &[T], x: &T) -> (r: bool)
    ensures r == s@.contains(*x);
// std HashSet by the documented set semantics
pub struct HashSet<T> { pub s: Ghost<Set<T>> }
impl<T> HashSet<T> {
    #[verifier::external_body]
    pub fn new() -> (r: Self) ensures r.s@ == Set::<T>::empty() { unimplemented!() }
    #[verifier::external_body]
    pub fn insert(&mut self, x: T) -> (r: bool) ensures final(self).s@ == old(self).s@.insert(x) { unimplemented!() }
}
#[verifier::external_body]
pub fn pv_into_vec<T>(set: HashSet<T>) -> (r: Vec<T>) ensures forall|x: T| #![trigger r@.contains(x)] r@.contains(x) <==> set.s@.contains(x) { unimplemented!() }

// bookkeeping of the subscriptions while they are collected
pub type EvMap = Map<BrancherEvent, Vec<usize>>;
pub open spec fn covered(m: EvMap, has: spec_fn(BrancherEvent) -> bool, subs: Seq<BrancherEvent>, upto: int, i: usize) -> bool {
    forall|j: int| #![trigger subs[j]] 0 <= j < upto ==> m[subs[j]]@.contains(i) && has(subs[j])
}
pub open spec fn idx_bound(m: EvMap, n: int) -> bool {
    forall|e: BrancherEvent, q: int| #![trigger m[e]@[q]] 0 <= q < m[e]@.len() ==> m[e]@[q] < n
}
pub open spec fn grows(m2: EvMap, m1: EvMap) -> bool {
    forall|e: BrancherEvent, x: usize| #![trigger m1[e]@.contains(x)] m1[e]@.contains(x) ==> m2[e]@.contains(x)
}
pub proof fn lemma_push_contains_usize(v: Seq<usize>, x: usize)
    ensures forall|y: usize| #![trigger v.push(x).contains(y)] v.push(x).contains(y) <==> (v.contains(y) || y == x)
{
    assert forall|y: usize| #![trigger v.push(x).contains(y)] v.push(x).contains(y) <==> (v.contains(y) || y == x) by {
        if v.contains(y) { let i = choose|i: int| 0 <= i < v.len() && v[i] == y; assert(v.push(x)[i] == y); }
        if y == x { assert(v.push(x)[v.len() as int] == x); }
        if v.push(x).contains(y) { let i = choose|i: int| 0 <= i < v.push(x).len() && v.push(x)[i] == y; if i < v.len() { assert(v[i] == y); } }
    }
}
pub proof fn lemma_push_contains_ev(v: Seq<BrancherEvent>, x: BrancherEvent)
    ensures forall|y: BrancherEvent| #![trigger v.push(x).contains(y)] v.push(x).contains(y) <==> (v.contains(y) || y == x)
{
    assert forall|y: BrancherEvent| #![trigger v.push(x).contains(y)] v.push(x).contains(y) <==> (v.contains(y) || y == x) by {
        if v.contains(y) { let i = choose|i: int| 0 <= i < v.len() && v[i] == y; assert(v.push(x)[i] == y); }
        if y == x { assert(v.push(x)[v.len() as int] == x); }
        if v.push(x).contains(y) { let i = choose|i: int| 0 <= i < v.push(x).len() && v.push(x)[i] == y; if i < v.len() { assert(v[i] == y); } }
    }
}
//@@EXTRACT s_dyn@@

impl DynamicBrancher {
    // the index vectors only name existing branchers
    pub open spec fn wf(&self) -> bool {
        &&& forall|i: int| #![trigger self.branchers@[i]] 0 <= i < self.branchers@.len() ==> self.branchers@[i].inv()
        &&& idx_bound(self.relevant_event_to_index.m@, self.branchers@.len() as int)
    }
    // @C18 @C07 the composite asks for the events that rewind it, and for every event one of its branchers asks for;
    // an event a brancher asks for is passed on to it
    pub open spec fn subscribed(&self) -> bool {
        &&& self.relevant_events@.contains(BrancherEvent::Solution) && self.relevant_events@.contains(BrancherEvent::Conflict) && self.relevant_events@.contains(BrancherEvent::Backtrack)
        &&& forall|i: int, j: int| #![trigger self.branchers@[i].subs()[j]] 0 <= i < self.branchers@.len() && 0 <= j < self.branchers@[i].subs().len() ==>
                self.relevant_event_to_index.m@[self.branchers@[i].subs()[j]]@.contains(i as usize) && self.relevant_events@.contains(self.branchers@[i].subs()[j])
    }
//@@EXTRACT dynnew@@
    // @C18 every brancher from index `from` on vouches for its variables
    pub open spec fn all_cover(&self, from: int, state: int) -> bool {
        forall|i: int| #![trigger self.branchers@[i]] from <= i < self.branchers@.len() ==> self.branchers@[i].covers(state)
    }
    // the handlers leave the composition as it is: same number of branchers, same subscriptions
    pub open spec fn same_shape(&self, before: &Self) -> bool {
        &&& self.branchers@.len() == before.branchers@.len()
        &&& self.relevant_event_to_index == before.relevant_event_to_index && self.relevant_events == before.relevant_events
    }
}
impl Brancher for DynamicBrancher {
    open spec fn covers(&self, state: int) -> bool { self.all_cover(self.brancher_index as int, state) }
    open spec fn inv(&self) -> bool { self.wf() }
    open spec fn rewound(&self) -> bool { self.brancher_index == 0 }
    open spec fn subs(&self) -> Seq<BrancherEvent> { self.relevant_events@ }
//@@IFMISSING dynb::on_conflict@@ fn on_conflict(&mut self) {}
//@@IFMISSING dynb::on_backtrack@@ fn on_backtrack(&mut self) {}
//@@IFMISSING dynb::on_solution@@ fn on_solution(&mut self, solution: SolutionReference) {}
//@@IFMISSING dynb::on_unassign_integer@@ fn on_unassign_integer(&mut self, variable: DomainId, value: i32) {}
//@@EXTRACT dynb0@@
//@@EXTRACT dynb@@
}
} // verus!
fn main() {}
