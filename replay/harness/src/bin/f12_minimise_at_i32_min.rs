//! F12 (C04/C16): LinearSatUnsat::strengthen computes `(best - 1) as i32`; when the incumbent's (scaled)
//! objective value is i32::MIN the cast wraps to i32::MAX.  Exit 1 = reproduced.
use pumpkin_solver::optimisation::linear_sat_unsat::LinearSatUnsat;
use pumpkin_solver::optimisation::OptimisationDirection;
use pumpkin_solver::results::OptimisationResult;
use pumpkin_solver::results::ProblemSolution;
use pumpkin_solver::results::SolutionReference;
use pumpkin_solver::termination::Indefinite;
use pumpkin_solver::DefaultBrancher;
use pumpkin_solver::Solver;

fn main() {
    let r = std::panic::catch_unwind(|| {
        let mut solver = Solver::default();
        let x = solver.new_bounded_integer(i32::MIN, i32::MIN + 3);
        let mut brancher = solver.default_brancher();
        let callback: fn(&Solver, SolutionReference, &DefaultBrancher) = |_, _, _| {};
        let result = solver.optimise(
            &mut brancher,
            &mut Indefinite,
            LinearSatUnsat::new(OptimisationDirection::Minimise, x, callback),
        );
        match result {
            OptimisationResult::Optimal(s) => Some(s.get_integer_value(x)),
            _ => None,
        }
    });
    match r {
        Err(_) => {
            println!("REPRODUCED: minimise x, x in [i32::MIN, i32::MIN+3] with LinearSatUnsat panics (bound `best - 1` wrapped in `as i32`)");
            std::process::exit(1);
        }
        Ok(Some(v)) if v == i32::MIN => println!("ok: optimum i32::MIN"),
        Ok(v) => {
            println!("REPRODUCED: minimise x, x in [i32::MIN, i32::MIN+3] returned {v:?}, expected Optimal(i32::MIN)");
            std::process::exit(1);
        }
    }
}
