//! F29 (C16): LinearLessOrEqualPropagator::propagate computes `c - (lb_lhs - lb(x_i))` in i32 although lb_lhs was
//! accumulated in i64 and only its total is checked to fit.  Exit 1 = reproduced.
use pumpkin_solver::constraints;
use pumpkin_solver::results::ProblemSolution;
use pumpkin_solver::results::SatisfactionResult;
use pumpkin_solver::termination::Indefinite;
use pumpkin_solver::variables::TransformableVariable;
use pumpkin_solver::Solver;

fn main() {
    let r = std::panic::catch_unwind(|| {
        let mut solver = Solver::default();
        // x0 in [2e9, 2e9+5], x1 in [-2e9, -2e9+5], x2 = 0:  x0 + x1 + x2 <= 1e9   (x0 = 2e9, x1 = -2e9 is a solution)
        let x0 = solver.new_bounded_integer(2_000_000_000, 2_000_000_005);
        let x1 = solver.new_bounded_integer(-2_000_000_000, -1_999_999_995);
        let x2 = solver.new_bounded_integer(0, 0);
        let posted = solver.add_constraint(constraints::less_than_or_equals(vec![x0.scaled(1), x1.scaled(1), x2.scaled(1)], 1_000_000_000)).post();
        if posted.is_err() { return Err("reported infeasible at the root".to_string()); }
        let mut brancher = solver.default_brancher();
        match solver.satisfy(&mut brancher, &mut Indefinite) {
            SatisfactionResult::Satisfiable(s) => {
                let (a, b, c) = (s.get_integer_value(x0) as i64, s.get_integer_value(x1) as i64, s.get_integer_value(x2) as i64);
                if a + b + c <= 1_000_000_000 { Ok(format!("solution {a} {b} {c}")) } else { Err(format!("solution {a} + {b} + {c} = {} violates <= 1000000000", a + b + c)) }
            }
            SatisfactionResult::Unsatisfiable => Err("reported unsatisfiable (x0 = 2e9, x1 = -2e9 is a solution)".to_string()),
            SatisfactionResult::Unknown => Err("unknown".to_string()),
        }
    });
    match r {
        Ok(Ok(s)) => println!("ok: {s}"),
        Ok(Err(e)) => { println!("REPRODUCED: x0 in [2e9, 2e9+5], x1 in [-2e9, -2e9+5], x2 = 0, x0 + x1 + x2 <= 1e9: {e}"); std::process::exit(1); }
        Err(_) => { println!("REPRODUCED: x0 in [2e9, 2e9+5], x1 in [-2e9, -2e9+5], x2 = 0, x0 + x1 + x2 <= 1e9: panic (arithmetic overflow in the linear propagator)"); std::process::exit(1); }
    }
}
