#![feature(allocator_api)]
use vstd::prelude::*;
//@@SPEC macros.rs@@
verus! {
pub trait IntegerVariable: Sized + Clone {}
#[derive(Clone, Copy, PartialEq, Eq, Structural)]
pub struct LocalId { pub v: u32 }
impl LocalId {
    #[verifier::external_body]
    pub fn from(v: u32) -> (r: LocalId) ensures r.v == v { unimplemented!() }
}
pub struct ArgTask<Var> { pub start_time: Var, pub processing_time: i32, pub resource_usage: i32 }
pub struct Task<Var> { pub start_variable: Var, pub processing_time: i32, pub resource_usage: i32, pub id: LocalId }
#[verifier::external_body]
pub fn pv_to_vec<Var: IntegerVariable>(s: &[ArgTask<Var>]) -> (r: Vec<ArgTask<Var>>) ensures r@.len() == s@.len() { unimplemented!() }
#[verifier::external_body]
pub fn pv_sort_by<Var: IntegerVariable>(v: &mut Vec<ArgTask<Var>>) ensures final(v)@.len() == old(v)@.len() { unimplemented!() }
pub open spec fn tasks_ok<Var>(t: Seq<Task<Var>>) -> bool {
    forall|k: int| #![trigger t[k]] 0 <= k < t.len() ==> t[k].processing_time > 0 && t[k].resource_usage > 0 && t[k].id.v == k
}
//@@EXTRACT ct@@
} // verus!
fn main() {}
