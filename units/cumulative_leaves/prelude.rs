use vstd::prelude::*;
use std::rc::Rc;
use std::cmp::Ordering;
use std::cmp::max;
use std::ops::Range;
//@@SPEC macros.rs@@
//@@EXTRACT macro_predicate@@
verus! {
//@@SPEC vocab.rs@@
//@@SPEC contracts/integer_variable_consumer.rs@@
//@@SPEC prop_ctx.rs@@

pub mod std_hooks { use vstd::prelude::*;
pub uninterp spec fn spec_range_is_empty<Idx>(r: std::ops::Range<Idx>) -> bool;
pub uninterp spec fn spec_max<T>(x: T, y: T) -> T;
}
pub use std_hooks::*;
// std functions without a vstd specification: generic hook + an axiom for the i32 instance (trusted: std semantics)
pub assume_specification<Idx> [std::ops::Range::<Idx>::is_empty] (r: &std::ops::Range<Idx>) -> (b: bool)
    where Idx: std::cmp::PartialOrd + std::cmp::PartialOrd,
    ensures b == spec_range_is_empty(*r);
pub assume_specification<T> [std::cmp::max] (x: T, y: T) -> (m: T)
    where T: std::cmp::Ord + std::marker::Destruct,
    ensures m == spec_max(x, y);
pub mod std_axioms { use vstd::prelude::*; use super::std_hooks::*;
#[verifier::external_body]
pub broadcast proof fn axiom_range_is_empty_i32(r: std::ops::Range<i32>)
    ensures #[trigger] spec_range_is_empty(r) == !(r.start < r.end) {}
#[verifier::external_body]
pub broadcast proof fn axiom_max_i32(x: i32, y: i32)
    ensures #[trigger] spec_max(x, y) == (if x >= y { x } else { y }) {}
}
broadcast use {std_axioms::axiom_range_is_empty_i32, std_axioms::axiom_max_i32};

pub struct LocalId { pub v: u32 }
pub struct Task<Var> {
    pub start_variable: Var,
    pub processing_time: i32,
    pub resource_usage: i32,
    pub id: LocalId,
}
pub struct ResourceProfile<Var> {
    pub start: i32,
    pub end: i32,
    pub profile_tasks: Vec<Rc<Task<Var>>>,
    pub height: i32,
}
pub struct UpdatedTaskInfo<Var> {
    pub task: Rc<Task<Var>>,
    pub old_lower_bound: i32,
    pub old_upper_bound: i32,
    pub new_lower_bound: i32,
    pub new_upper_bound: i32,
}
pub struct MandatoryPartAdjustments {
    pub added_parts: Vec<Range<i32>>,
    pub removed_parts: Vec<Range<i32>>,
}

// ---- meaning (documented semantics of cumulative, not the code) ----
// the task runs at time t under assignment a
pub open spec fn runs_at<Var: IntegerVariable>(task: &Task<Var>, a: Asg, t: int) -> bool {
    task.start_variable.eval(a) <= t < task.start_variable.eval(a) + task.processing_time
}
// t belongs to the mandatory part: the task runs at t in EVERY assignment still possible
pub open spec fn mandatory_at<Var: IntegerVariable>(live: Live, task: &Task<Var>, t: int) -> bool {
    forall|a: Asg| #![trigger live(a)] live(a) ==> runs_at(task, a, t)
}
// integer intervals
pub open spec fn in_half_open(t: int, lo: int, hi: int) -> bool { lo <= t < hi }
pub open spec fn range_has(rs: Seq<Range<i32>>, i: int, t: int) -> bool {
    0 <= i < rs.len() && in_half_open(t, rs[i].start as int, rs[i].end as int)
}
// t lies in one of the ranges (the first two are spelled out: the adjustments never contain more than two parts)
pub open spec fn in_ranges(rs: Seq<Range<i32>>, t: int) -> bool {
    range_has(rs, 0, t) || range_has(rs, 1, t) || exists|i: int| 2 <= i && #[trigger] range_has(rs, i, t)
}
pub open spec fn both_intervals(t: int, lower_bound: int, upper_bound: int, start: int, end: int) -> bool {
    lower_bound <= t < upper_bound && start <= t <= end
}

//@@EXTRACT has_mandatory_part@@
//@@EXTRACT has_mandatory_part_in_interval@@
//@@EXTRACT task_has_overlap_with_interval@@
//@@EXTRACT has_overlap_with_interval@@
//@@EXTRACT mpa@@
//@@EXTRACT uti@@
//@@EXTRACT naive_lb@@
//@@EXTRACT naive_ub@@
//@@EXTRACT big_lb@@
//@@EXTRACT big_ub@@
} // verus!
fn main() {}
