use vstd::prelude::*;
verus! {
#[derive(Clone, Copy)] pub struct P { pub v: i32 }

#[verifier::reject_recursive_types(T)]
#[verifier::external_type_specification]
#[verifier::external_body]
pub struct ExOnce<T>(std::iter::Once<T>);

pub uninterp spec fn once_val<T>(o: std::iter::Once<T>) -> T;
pub assume_specification<T> [std::iter::once] (v: T) -> (r: std::iter::Once<T>)
    ensures once_val(r) == v;

// the destination buffer as the functions see it: a ghost sequence view
pub trait BufView { spec fn bview(&self) -> Seq<P>; }

#[verifier::external_trait_specification]
pub trait ExExtend<A> {
    type ExternalTraitSpecificationFor: Extend<A>;
    fn extend<T: IntoIterator<Item = A>>(&mut self, iter: T);
}

fn f<B: Extend<P> + AsRef<[P]>>(reason_buffer: &mut B, p: P)
{
    reason_buffer.extend(std::iter::once(p));
}
}
fn main(){}
