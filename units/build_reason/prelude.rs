#![feature(allocator_api)]
use vstd::prelude::*;
//@@SPEC macros.rs@@
verus! {
#[derive(Clone, Copy, PartialEq, Eq, Structural)]
pub struct Predicate { pub code: u64 }
#[derive(Clone, Copy)]
pub struct Literal { pub id: u32 }
pub uninterp spec fn true_pred(l: Literal) -> Predicate;
impl Literal {
    #[verifier::external_body]
    pub fn get_true_predicate(&self) -> (p: Predicate) ensures p == true_pred(*self) { unimplemented!() }
}
pub struct PropositionalConjunction { pub predicates_in_conjunction: Vec<Predicate> }
impl PropositionalConjunction {
    #[verifier::external_body]
    pub fn pv_push(&mut self, p: Predicate) ensures final(self).predicates_in_conjunction@ == old(self).predicates_in_conjunction@.push(p) { unimplemented!() }
}
// engine/cp/reason.rs, field for field
pub enum Reason { Eager(PropositionalConjunction), DynamicLazy(u64) }
pub enum StoredReason { Eager(PropositionalConjunction), DynamicLazy(u64), ReifiedLazy(Literal, u64) }
// what a propagator hands in, and what the reason store later hands to conflict analysis (unit reason_store: compute),
// given the propagators' lazy explanations
pub open spec fn reason_meaning(r: Reason, lazy: spec_fn(u64) -> Seq<Predicate>) -> Seq<Predicate> {
    match r { Reason::Eager(c) => c.predicates_in_conjunction@, Reason::DynamicLazy(code) => lazy(code) }
}
pub open spec fn stored_meaning(r: StoredReason, lazy: spec_fn(u64) -> Seq<Predicate>) -> Seq<Predicate> {
    match r {
        StoredReason::Eager(c) => c.predicates_in_conjunction@,
        StoredReason::DynamicLazy(code) => lazy(code),
        StoredReason::ReifiedLazy(l, code) => lazy(code).push(true_pred(l)),
    }
}
pub struct PropagationContextMut<'a> { pub reification_literal: Option<Literal>, pub ph: core::marker::PhantomData<&'a u8> }
impl<'a> PropagationContextMut<'a> {
//@@EXTRACT ctx@@
}
} // verus!
fn main() {}
