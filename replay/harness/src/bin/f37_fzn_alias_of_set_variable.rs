//! F37 (C13): a variable declared as an alias of a set-domain variable (`var 1..5: s = t;` with `var {1,3,5}: t`) gets its
//! own solver variable: with -a the solver prints assignments in which s differs from t.
//! Exit 1 = reproduced.
use std::io::Write;
use std::process::Command;

fn run(name: &str, model: &str, args: &[&str]) -> (String, String) {
    let repo = std::env::var("PUMPKIN_REPO").unwrap_or_else(|_| "/repo".into());
    let target = std::env::var("CARGO_TARGET_DIR").unwrap_or_else(|_| "/tmp/pumpkin-verif-scratch/replay-target".into());
    let path = std::env::temp_dir().join(name);
    std::fs::File::create(&path).unwrap().write_all(model.as_bytes()).unwrap();
    let out = Command::new("cargo")
        .args(["run", "--offline", "-q", "--manifest-path", &format!("{repo}/Cargo.toml"), "-p", "pumpkin-solver", "--bin", "pumpkin-solver", "--"])
        .args(args).arg(&path)
        .env("CARGO_TARGET_DIR", format!("{target}-bin")).env("RUST_BACKTRACE", "0")
        .output().expect("cannot run cargo");
    (String::from_utf8_lossy(&out.stdout).to_string(), String::from_utf8_lossy(&out.stderr).to_string())
}

fn main() {
    let model = "var {1,3,5}: t :: output_var;\nvar 1..5: s :: output_var = t;\nsolve satisfy;\n";
    let (so, se) = run("pv_f37.fzn", model, &["-a"]);
    // collect the printed (t, s) pairs
    let mut bad = vec![]; let mut n = 0; let (mut t, mut s) = (None, None);
    for l in so.lines() {
        if let Some(v) = l.strip_prefix("t = ") { t = v.trim_end_matches(';').parse::<i32>().ok(); }
        if let Some(v) = l.strip_prefix("s = ") { s = v.trim_end_matches(';').parse::<i32>().ok(); }
        if l.starts_with("----------") { n += 1; if t != s { bad.push(format!("t = {:?}, s = {:?}", t, s)); } }
    }
    if n == 3 && bad.is_empty() && so.contains("==========") { println!("ok: 3 solutions, s = t in each"); }
    else { println!("REPRODUCED: var {{1,3,5}}: t; var 1..5: s = t; solve satisfy (-a): {n} solutions printed, s differs from t in {} of them (e.g. {}){}", bad.len(), bad.first().cloned().unwrap_or_default(), if se.contains("panicked") { "; panic" } else { "" }); std::process::exit(1); }
}
