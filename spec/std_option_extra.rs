// Option::is_some_and has no vstd specification (std semantics, trusted)
pub assume_specification<T, F: FnOnce(T) -> bool> [Option::<T>::is_some_and] (o: Option<T>, f: F) -> (r: bool)
    requires o is Some ==> f.requires((o->Some_0,)),
    ensures o is None ==> !r, o is Some ==> f.ensures((o->Some_0,), r);
// Result::unwrap_or has no vstd specification (std semantics, trusted)
pub assume_specification<T, E> [Result::<T, E>::unwrap_or] (r: Result<T, E>, default: T) -> (o: T)
    ensures r matches Ok(v) ==> o == v, r is Err ==> o == default;
