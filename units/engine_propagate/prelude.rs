#![feature(allocator_api)]
use vstd::prelude::*;
//@@SPEC macros.rs@@
verus! {
pub type Tag = Option<std::num::NonZero<u32>>;
#[derive(Clone, Copy, PartialEq, Eq, Structural)]
pub struct PropagatorId(pub u32);
pub struct PropositionalConjunction { pub x: u8 }
pub enum Inconsistency { EmptyDomain, Conflict(PropositionalConjunction) }
pub type PropagationStatusCP = Result<(), Inconsistency>;
pub enum StoredConflictInfo { Propagator { conflict_nogood: PropositionalConjunction, propagator_id: PropagatorId }, EmptyDomain { conflict_nogood: PropositionalConjunction }, Other }

// the trail, as the sequence of the tags of the propagators that put each entry there (ghost attribution)
pub struct Assignments { pub by: Ghost<Seq<Tag>>, pub level: usize }
impl Assignments {
    #[verifier::external_body]
    pub fn num_trail_entries(&self) -> (r: usize) ensures r == self.by@.len() { unimplemented!() }
    #[verifier::external_body]
    pub fn get_decision_level(&self) -> (r: usize) ensures r == self.level { unimplemented!() }
}
pub struct TrailedAssignments { pub x: u8 }
pub struct ReasonStore { pub x: u8 }
pub struct SemanticMinimiser { pub x: u8 }
pub struct PropagationContextMut<'a> {
    pub stateful_assignments: &'a mut TrailedAssignments,
    pub assignments: &'a mut Assignments,
    pub reason_store: &'a mut ReasonStore,
    pub propagator_id: PropagatorId,
    pub semantic_minimiser: &'a mut SemanticMinimiser,
}
impl<'a> PropagationContextMut<'a> {
    #[verifier::external_body]
    pub fn new(stateful_assignments: &'a mut TrailedAssignments, assignments: &'a mut Assignments, reason_store: &'a mut ReasonStore, semantic_minimiser: &'a mut SemanticMinimiser, propagator_id: PropagatorId) -> (r: Self)
        ensures *r.assignments == *old(assignments), *final(assignments) == *final(r.assignments), r.propagator_id == propagator_id,
    { unimplemented!() }
}
pub open spec fn appended_by(old_by: Seq<Tag>, new_by: Seq<Tag>, tag: Tag) -> bool {
    old_by.len() <= new_by.len() && new_by.subrange(0, old_by.len() as int) == old_by
        && forall|i: int| #![trigger new_by[i]] old_by.len() <= i < new_by.len() ==> new_by[i] == tag
}
pub trait Propagator {
    spec fn tag(&self) -> Tag;
    // a propagator only appends to the trail; what it appends is attributed to it; the decision level is not its business
    fn propagate(&mut self, context: PropagationContextMut) -> (r: PropagationStatusCP)
        ensures final(self).tag() == old(self).tag(),
                appended_by(old(context.assignments).by@, final(context.assignments).by@, old(self).tag()),
                final(context.assignments).level == old(context.assignments).level;
}
pub struct PropagatorStore { pub propagators: Vec<Box<dyn Propagator>> }
impl PropagatorStore {
    #[verifier::external_body]
    pub fn get_tag(&self, id: PropagatorId) -> (r: Tag) requires id.0 < self.propagators@.len() ensures r == self.propagators@[id.0 as int].tag() { unimplemented!() }
    pub open spec fn tags(&self) -> Seq<Tag> { Seq::new(self.propagators@.len(), |i: int| self.propagators@[i].tag()) }
}
impl vstd::std_specs::core::IndexSpecImpl<PropagatorId> for PropagatorStore {
    open spec fn index_req(&self, index: &PropagatorId) -> bool { index.0 < self.propagators@.len() }
}
impl std::ops::Index<PropagatorId> for PropagatorStore {
    type Output = dyn Propagator;
    #[verifier::external_body]
    fn index(&self, index: PropagatorId) -> (r: &Self::Output) { unimplemented!() }
}
impl std::ops::IndexMut<PropagatorId> for PropagatorStore {
    // the propagator with that id; whatever it becomes, the store keeps its length and the other propagators
    #[verifier::external_body]
    fn index_mut(&mut self, index: PropagatorId) -> (r: &mut Self::Output)
        ensures r.tag() == old(self).propagators@[index.0 as int].tag(),
                final(self).propagators@.len() == old(self).propagators@.len(),
                forall|i: int| #![trigger final(self).propagators@[i]] 0 <= i < old(self).propagators@.len() && i != index.0 ==> final(self).propagators@[i].tag() == old(self).propagators@[i].tag(),
                final(self).propagators@[index.0 as int].tag() == final(r).tag(),
    { unimplemented!() }
}
// A-ENGINE: the queue holds ids below `valid_upto`
pub struct PropagatorQueue { pub valid_upto: Ghost<nat> }
pub struct CSPSolverState { pub conflict: Ghost<Option<StoredConflictInfo>> }
impl CSPSolverState {
    #[verifier::external_body]
    pub fn declare_conflict(&mut self, info: StoredConflictInfo) ensures final(self).conflict@ == Some(info) { unimplemented!() }
    #[verifier::external_body]
    pub fn is_conflicting(&self) -> (r: bool) { unimplemented!() }
}
pub struct EngineStatistics { pub num_conflicts: u64, pub num_propagations: u64 }
pub struct SolverStatistics { pub engine_statistics: EngineStatistics }
pub struct ConstraintSatisfactionSolver {
    pub assignments: Assignments,
    pub stateful_assignments: TrailedAssignments,
    pub reason_store: ReasonStore,
    pub semantic_minimiser: SemanticMinimiser,
    pub propagators: PropagatorStore,
    pub propagator_queue: PropagatorQueue,
    pub state: CSPSolverState,
    pub solver_statistics: SolverStatistics,
    // ghost: the trail prefix whose root propagations are in the proof, and with which tag each entry was logged
    pub logged: Ghost<Seq<Tag>>,
}
impl PropagatorQueue {
    // A-ENGINE: the queue holds ids of existing propagators
    #[verifier::external_body]
    pub fn pop(&mut self) -> (r: Option<PropagatorId>) ensures final(self).valid_upto == old(self).valid_upto, r matches Some(id) ==> id.0 < old(self).valid_upto@ { unimplemented!() }
}
impl ConstraintSatisfactionSolver {
    pub open spec fn ids_ok(&self, r: Option<PropagatorId>) -> bool { r matches Some(id) ==> id.0 < self.propagators.propagators@.len() }
    // everything on the trail has been logged, each entry with the tag of the propagator that put it there
    pub open spec fn root_logged(&self) -> bool { self.assignments.level == 0 ==> self.logged@ == self.assignments.by@ }
    #[verifier::external_body]
    pub fn notify_propagators_about_domain_events(&mut self)
        ensures final(self).assignments == old(self).assignments, final(self).propagators == old(self).propagators, final(self).logged == old(self).logged,
                final(self).state == old(self).state, final(self).solver_statistics == old(self).solver_statistics,
                final(self).propagator_queue.valid_upto == old(self).propagator_queue.valid_upto,
    { unimplemented!() }
    #[verifier::external_body]
    pub fn prepare_for_conflict_resolution(&mut self)
        ensures final(self).assignments == old(self).assignments, final(self).propagators == old(self).propagators, final(self).logged == old(self).logged,
                final(self).solver_statistics == old(self).solver_statistics, final(self).propagator_queue.valid_upto == old(self).propagator_queue.valid_upto,
    { unimplemented!() }
    // unit root_proof_log: every entry of the window gets an inference with `tag` and its unit nogood.
    // @C06 The precondition is the property: the entries of the window were put on the trail by a propagator with that tag,
    // and the window starts no later than where logging stopped (nothing at the root is left out).
    #[verifier::external_body]
    pub fn log_root_propagation_to_proof(&mut self, start_trail_index: usize, tag: Tag)
        requires old(self).assignments.level == 0,
                 start_trail_index <= old(self).logged@.len() <= old(self).assignments.by@.len(),
                 forall|i: int| #![trigger old(self).assignments.by@[i]] start_trail_index <= i < old(self).assignments.by@.len() ==> old(self).assignments.by@[i] == tag,
        ensures final(self).assignments == old(self).assignments, final(self).propagators == old(self).propagators, final(self).state == old(self).state,
                final(self).solver_statistics == old(self).solver_statistics, final(self).propagator_queue == old(self).propagator_queue,
                final(self).logged@ == old(self).logged@.subrange(0, start_trail_index as int) + old(self).assignments.by@.subrange(start_trail_index as int, old(self).assignments.by@.len() as int),
    { unimplemented!() }
//@@EXTRACT csp@@
}
} // verus!
fn main() {}
