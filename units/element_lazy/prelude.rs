#![feature(allocator_api)]
use vstd::prelude::*;
//@@SPEC macros.rs@@
//@@EXTRACT macro_predicate@@
verus! {
pub type Asg = spec_fn(int) -> int;
#[derive(Clone, Copy, PartialEq, Eq, Structural)]
pub struct DomainId { pub id: u32 }
#[derive(Clone, Copy, PartialEq, Eq, Structural)]
pub enum Predicate {
    LowerBound { domain_id: DomainId, lower_bound: i32 },
    UpperBound { domain_id: DomainId, upper_bound: i32 },
    NotEqual { domain_id: DomainId, not_equal_constant: i32 },
    Equal { domain_id: DomainId, equality_constant: i32 },
}
pub open spec fn pred_holds(p: Predicate, a: Asg) -> bool {
    match p {
        Predicate::LowerBound { domain_id, lower_bound } => a(domain_id.id as int) >= lower_bound,
        Predicate::UpperBound { domain_id, upper_bound } => a(domain_id.id as int) <= upper_bound,
        Predicate::NotEqual { domain_id, not_equal_constant } => a(domain_id.id as int) != not_equal_constant,
        Predicate::Equal { domain_id, equality_constant } => a(domain_id.id as int) == equality_constant,
    }
}
pub open spec fn seq_holds(s: Seq<Predicate>, a: Asg) -> bool { forall|i: int| 0 <= i < s.len() ==> pred_holds(#[trigger] s[i], a) }
// whether a predicate was true when the store had `tp` trail entries behind it (a function of the store)
pub uninterp spec fn held_at(state: int, tp: int, p: Predicate) -> bool;
pub uninterp spec fn tp_of(state: int, p: Predicate) -> int;
pub struct Assignments { pub state: Ghost<int> }
impl Assignments {
    // A-TRAIL: a predicate that holds has a trail position, the position at which it became true
    #[verifier::external_body]
    pub fn get_trail_position(&self, predicate: &Predicate) -> (r: Option<usize>) ensures r is Some, r->Some_0 == tp_of(self.state@, *predicate) { unimplemented!() }
}
pub trait IntegerVariable: Sized {
    spec fn eval(&self, a: Asg) -> int;
    spec fn in_domain_at(&self, state: int, tp: int, v: int) -> bool;
    // the predicates over the variable (functions of the variable and the constant)
    spec fn lb_pred(&self, bound: i32) -> Predicate;
    spec fn ub_pred(&self, bound: i32) -> Predicate;
    spec fn ne_pred(&self, bound: i32) -> Predicate;
    fn lower_bound_predicate(&self, bound: i32) -> (p: Predicate) ensures p == self.lb_pred(bound), forall|a: Asg| #[trigger] pred_holds(p, a) <==> self.eval(a) >= bound;
    fn upper_bound_predicate(&self, bound: i32) -> (p: Predicate) ensures p == self.ub_pred(bound), forall|a: Asg| #[trigger] pred_holds(p, a) <==> self.eval(a) <= bound;
    fn equality_predicate(&self, bound: i32) -> (p: Predicate) ensures forall|a: Asg| #[trigger] pred_holds(p, a) <==> self.eval(a) == bound;
    // [x != v] held at a position exactly when v was outside the domain then
    fn disequality_predicate(&self, bound: i32) -> (p: Predicate)
        ensures p == self.ne_pred(bound), forall|a: Asg| #[trigger] pred_holds(p, a) <==> self.eval(a) != bound,
                forall|st: int, tp: int| #![trigger held_at(st, tp, p)] held_at(st, tp, p) <==> !self.in_domain_at(st, tp, bound as int);
    fn contains_at_trail_position(&self, assignment: &Assignments, value: i32, trail_position: usize) -> (r: bool)
        ensures r == self.in_domain_at(assignment.state@, trail_position as int, value as int);
}
pub struct ExplanationContext<'a> { pub assignments: &'a Assignments }
impl<'a> ExplanationContext<'a> {
    #[verifier::external_body]
    pub fn assignments(&self) -> (r: &Assignments) ensures r == self.assignments { unimplemented!() }
    // the CURRENT bounds / domain (ReadDomains): nothing links them to the moment of the propagation
    #[verifier::external_body]
    pub fn lower_bound<V: IntegerVariable>(&self, var: &V) -> (r: i32) { unimplemented!() }
    #[verifier::external_body]
    pub fn upper_bound<V: IntegerVariable>(&self, var: &V) -> (r: i32) { unimplemented!() }
    #[verifier::external_body]
    pub fn contains<V: IntegerVariable>(&self, var: &V, value: i32) -> (r: bool) { unimplemented!() }
}
#[derive(Clone, Copy, PartialEq, Eq, Structural)]
pub enum Bound { Lower, Upper }
pub uninterp spec fn payload_bound(code: u64) -> Bound;
pub uninterp spec fn payload_value(code: u64) -> i32;
#[derive(Clone, Copy)]
pub struct RightHandSideReason { pub code: u64 }
impl RightHandSideReason {
    #[verifier::external_body]
    pub fn from_bits(code: u64) -> (r: Self) ensures r.code == code { unimplemented!() }
    #[verifier::external_body]
    pub fn bound(&self) -> (r: Bound) ensures r == payload_bound(self.code) { unimplemented!() }
    #[verifier::external_body]
    pub fn value(&self) -> (r: i32) ensures r == payload_value(self.code) { unimplemented!() }
}
pub struct ElementPropagator<VX, VI, VE> { pub array: Box<[VX]>, pub index: VI, pub rhs: VE, pub rhs_reason_buffer: Vec<Predicate> }
// the bound predicate of a payload over a variable
pub open spec fn bound_ok<V: IntegerVariable>(x: &V, code: u64, a: Asg) -> bool {
    if payload_bound(code) is Lower { x.eval(a) >= payload_value(code) } else { x.eval(a) <= payload_value(code) }
}
pub trait Propagator {
    spec fn lazy_pre(&self, code: u64, state: int) -> bool;
    spec fn lazy_post(&self, code: u64, state: int, reason: Seq<Predicate>) -> bool;
    fn lazy_explanation(&mut self, code: u64, context: ExplanationContext) -> (r: &[Predicate])
        requires old(self).lazy_pre(code, context.assignments.state@)
        ensures old(self).lazy_post(code, context.assignments.state@, r@);
}
impl<VX: IntegerVariable, VI: IntegerVariable, VE: IntegerVariable> ElementPropagator<VX, VI, VE> {
    pub open spec fn elem_holds(&self, a: Asg) -> bool {
        0 <= self.index.eval(a) < self.array@.len() && self.array@[self.index.eval(a)].eval(a) == self.rhs.eval(a)
    }
    // the explained predicate, the position at which it became true, and the predicate of the payload over element i
    pub open spec fn explained(&self, code: u64) -> Predicate {
        if payload_bound(code) is Lower { self.rhs.lb_pred(payload_value(code)) } else { self.rhs.ub_pred(payload_value(code)) }
    }
    pub open spec fn tp(&self, code: u64, state: int) -> int { tp_of(state, self.explained(code)) }
    pub open spec fn elem_pred(&self, i: int, code: u64) -> Predicate {
        if payload_bound(code) is Lower { self.array@[i].lb_pred(payload_value(code)) } else { self.array@[i].ub_pred(payload_value(code)) }
    }
}
//@@EXTRACT el@@
} // verus!
fn main() {}
