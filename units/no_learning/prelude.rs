use vstd::prelude::*;
//@@SPEC macros.rs@@
verus! {
//@@SPEC vocab.rs@@
//@@SPEC contracts/predicate_not.rs@@
impl std::ops::Not for Predicate {
    type Output = Predicate;
    #[verifier::external_body]
    fn not(self) -> (r: Predicate) { unimplemented!() }
}
#[derive(Clone, Copy, PartialEq, Eq, Structural)]
pub struct ReasonRef(pub u32);
#[derive(Clone, Copy)]
pub struct ConstraintProgrammingTrailEntry {
    pub predicate: Predicate,
    pub old_lower_bound: i32,
    pub old_upper_bound: i32,
    pub reason: Option<ReasonRef>,
}
pub struct Trail<T> { pub levels: Ghost<Seq<Seq<T>>> }    // levels@[l] = the entries of decision level l
impl<T> Trail<T> {
    #[verifier::external_body]
    pub fn get_decision_level(&self) -> (r: usize) ensures r == self.levels@.len() - 1, self.levels@.len() >= 1 { unimplemented!() }
    #[verifier::external_body]
    pub fn values_on_decision_level(&self, decision_level: usize) -> (r: &[T])
        requires decision_level < self.levels@.len()
        ensures r@ == self.levels@[decision_level as int]
    { unimplemented!() }
}

// `live` = the assignments compatible with the current domains; `before` = those compatible with the domains just
// before the decision of the current level was posted; `decision` = that decision
pub struct EngineAssignments {
    pub trail: Trail<ConstraintProgrammingTrailEntry>,
    pub live: Ghost<Live>,
    pub before: Ghost<Live>,
    pub decision: Ghost<Predicate>,
}
pub open spec fn is_bound_pair(e0: ConstraintProgrammingTrailEntry, e1: ConstraintProgrammingTrailEntry, d: DomainId, v: i32) -> bool {
    e0.predicate == (Predicate::LowerBound { domain_id: d, lower_bound: v }) && e0.reason is None
    && e1.predicate == (Predicate::UpperBound { domain_id: d, upper_bound: v }) && e1.reason is None
}
impl EngineAssignments {
    pub open spec fn level(&self) -> int { self.trail.levels@.len() - 1 }
    pub open spec fn cur(&self) -> Seq<ConstraintProgrammingTrailEntry> { self.trail.levels@[self.level()] }
    // the posting protocol (TRUSTED, read from post_predicate / make_assignment)
    pub open spec fn posted(&self) -> bool {
        self.trail.levels@.len() >= 1 && (self.level() > 0 ==> {
            let es = self.cur();
            &&& es.len() >= 1 && es[0].reason is None
            &&& forall|i: int| #![trigger es[i]] 2 <= i < es.len() ==> es[i].reason is Some
            &&& match self.decision@ {
                Predicate::Equal { domain_id, equality_constant } =>
                    // both bounds moved ...
                    (es.len() >= 2 && is_bound_pair(es[0], es[1], domain_id, equality_constant))
                    // ... or one of them was already at the value: the single entry is equivalent to the decision
                    || ((es.len() >= 2 ==> es[1].reason is Some)
                        && (forall|a: Asg| #![trigger (self.before@)(a)] (self.before@)(a) ==> (pred_holds(es[0].predicate, a) <==> pred_holds(self.decision@, a)))),
                _ => es[0].predicate == self.decision@ && (es.len() >= 2 ==> es[1].reason is Some),
            }
        })
    }
    #[verifier::external_body]
    pub fn get_decision_level(&self) -> (r: usize) ensures r == self.level(), self.trail.levels@.len() >= 1 { unimplemented!() }
//@@EXTRACT asg@@
}

pub struct LearnedNogood { pub x: u8 }
pub struct ConflictAnalysisContext<'a> { pub assignments: &'a mut EngineAssignments }
impl<'a> ConflictAnalysisContext<'a> {
    pub fn find_last_decision(&mut self) -> (r: Option<Predicate>)
        requires old(self).assignments.posted()
        ensures *final(self).assignments == *old(self).assignments,
                old(self).assignments.level() == 0 ==> r is None,
                old(self).assignments.level() > 0 ==> r is Some && pred_negatable(r->Some_0) == pred_negatable(r->Some_0)
                    && (forall|a: Asg| #![trigger (old(self).assignments.before@)(a)] (old(self).assignments.before@)(a) ==> (pred_holds(r->Some_0, a) <==> pred_holds(old(self).assignments.decision@, a))),
    { self.assignments.find_last_decision() }
    // TRUSTED: restores the assignments as they were before the decision of the level above `backtrack_level`
    #[verifier::external_body]
    pub fn backtrack(&mut self, backtrack_level: usize)
        requires backtrack_level == old(self).assignments.level() - 1, old(self).assignments.level() > 0
        ensures final(self).assignments.live == old(self).assignments.before, final(self).assignments.level() == backtrack_level
    { unimplemented!() }
    // TRUSTED: posts exactly the predicate
    #[verifier::external_body]
    pub fn enqueue_propagated_predicate(&mut self, predicate: Predicate)
        ensures forall|a: Asg| #![trigger (final(self).assignments.live@)(a)] (final(self).assignments.live@)(a) <==> ((old(self).assignments.live@)(a) && pred_holds(predicate, a)),
                final(self).assignments.level() == old(self).assignments.level(),
    { unimplemented!() }
}
pub struct NoLearningResolver;
impl NoLearningResolver {
//@@EXTRACT nl@@
}
} // verus!
fn main() {}
