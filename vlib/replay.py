"""Replay of failed obligations on the real code (DESIGN.md 2.3)."""


def try_replay(pid, failure):
    return ""


def rerun(path):
    return 0
