//! F54 (C18): RandomSelector::on_unassign_integer inserts whatever variable it is told about.  A selector created over
//! [x] starts proposing decisions over y once y has been unassigned by a backtrack (y is not one of its variables).
//! Exit 1 = reproduced.
use std::cell::RefCell;
use std::rc::Rc;
use pumpkin_solver::branching::branchers::independent_variable_value_brancher::IndependentVariableValueBrancher;
use pumpkin_solver::branching::value_selection::InDomainMin;
use pumpkin_solver::branching::variable_selection::RandomSelector;
use pumpkin_solver::branching::Brancher;
use pumpkin_solver::branching::BrancherEvent;
use pumpkin_solver::branching::SelectionContext;
use pumpkin_solver::constraints;
use pumpkin_solver::constraints::Constraint;
use pumpkin_solver::predicates::Predicate;
use pumpkin_solver::results::SatisfactionResult;
use pumpkin_solver::termination::Indefinite;
use pumpkin_solver::variables::DomainId;
use pumpkin_solver::Solver;

struct Recording<B> { inner: B, decided: Rc<RefCell<Vec<DomainId>>> }
impl<B: Brancher> Brancher for Recording<B> {
    fn next_decision(&mut self, context: &mut SelectionContext) -> Option<Predicate> {
        let decision = self.inner.next_decision(context);
        if let Some(predicate) = decision { self.decided.borrow_mut().push(predicate.get_domain()); }
        decision
    }
    fn on_backtrack(&mut self) { self.inner.on_backtrack() }
    fn on_unassign_integer(&mut self, variable: DomainId, value: i32) { self.inner.on_unassign_integer(variable, value) }
    fn subscribe_to_events(&self) -> Vec<BrancherEvent> { self.inner.subscribe_to_events() }
}

fn main() {
    let mut solver = Solver::default();
    let x = solver.new_bounded_integer(0, 3);
    let y = solver.new_bounded_integer(0, 3);
    // y is fixed by propagation whenever x is fixed (and unfixed again upon backtracking)
    solver.add_constraint(constraints::binary_equals(x, y)).post().expect("no conflict");
    let decided = Rc::new(RefCell::new(vec![]));
    let mut brancher = Recording { inner: IndependentVariableValueBrancher::new(RandomSelector::new(vec![x]), InDomainMin), decided: Rc::clone(&decided) };
    for _ in 0..20 {
        let result = solver.satisfy(&mut brancher, &mut Indefinite);
        assert!(matches!(result, SatisfactionResult::Satisfiable(_)));
    }
    let foreign = decided.borrow().iter().filter(|&&v| v != x).count();
    println!("RandomSelector::new([x]), 20 x satisfy: {} decisions, {} of them over a variable other than x", decided.borrow().len(), foreign);
    if foreign == 0 { println!("ok"); } else { println!("REPRODUCED: the selector proposes decisions over a variable it was not given"); std::process::exit(1); }
}
