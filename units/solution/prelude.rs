use vstd::prelude::*;
verus! {
#[derive(Clone, Copy, PartialEq, Eq, Structural)]
pub struct DomainId { pub id: u32 }
#[derive(Clone, Copy)]
pub struct Predicate { pub domain_id: DomainId, pub code: u64 }
pub struct Assignments { pub known: Ghost<nat> }
impl Assignments {
    #[verifier::external_body]
    pub fn num_domains(&self) -> (r: u32) ensures r == self.known@ { unimplemented!() }
    // evaluating a predicate indexes the domains with its variable
    #[verifier::external_body]
    pub fn is_predicate_satisfied(&self, predicate: Predicate) -> (r: bool)
        requires (predicate.domain_id.id as nat) < self.known@
    { unimplemented!() }
}
pub struct Solution { pub assignments: Assignments }
impl Solution {
    // the snapshot knows the variable
    pub open spec fn knows(&self, d: DomainId) -> bool { (d.id as nat) < self.assignments.known@ }
//@@EXTRACT sol@@
}
} // verus!
fn main() {}
