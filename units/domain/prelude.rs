use vstd::prelude::*;
//@@SPEC macros.rs@@
verus! {
#[derive(Clone, Copy)]
pub struct DomainId { pub id: u32 }
#[derive(Clone, Copy)]
pub enum IntDomainEvent { Assign, LowerBound, UpperBound, Removal }
pub struct EventSink { pub x: u8 }
impl EventSink {
    #[verifier::external_body]
    pub fn event_occurred(&mut self, event: IntDomainEvent, domain: DomainId) { unimplemented!() }
}
pub struct EmptyDomain;
pub struct PairDecisionLevelTrailPosition { pub decision_level: usize, pub trail_position: usize }
pub struct BoundUpdateInfo { pub bound: i32, pub decision_level: usize, pub trail_position: usize }
pub struct HoleUpdateInfo { pub removed_value: i32, pub decision_level: usize, pub triggered_lower_bound_update: bool, pub triggered_upper_bound_update: bool }
pub struct HashMap<K, V> { pub m: Ghost<Map<K, V>> }
impl HashMap<i32, PairDecisionLevelTrailPosition> {
    #[verifier::external_body]
    pub fn contains_key(&self, k: &i32) -> (r: bool) ensures r == self.m@.dom().contains(*k) { unimplemented!() }
    #[verifier::external_body]
    pub fn insert(&mut self, k: i32, v: PairDecisionLevelTrailPosition) -> (r: Option<PairDecisionLevelTrailPosition>)
        ensures final(self).m@.dom() == old(self).m@.dom().insert(k), r is None == !old(self).m@.dom().contains(k)
    { unimplemented!() }
}
pub struct IntegerDomain {
    pub id: DomainId,
    pub lower_bound_updates: Vec<BoundUpdateInfo>,
    pub upper_bound_updates: Vec<BoundUpdateInfo>,
    pub hole_updates: Vec<HoleUpdateInfo>,
    pub holes: HashMap<i32, PairDecisionLevelTrailPosition>,
    pub initial_bounds_below_trail: usize,
}
impl IntegerDomain {
    pub open spec fn lb(&self) -> int { self.lower_bound_updates@.last().bound as int }
    pub open spec fn ub(&self) -> int { self.upper_bound_updates@.last().bound as int }
    pub open spec fn hole(&self, v: int) -> bool { i32::MIN <= v <= i32::MAX && self.holes.m@.dom().contains(v as i32) }
    // the abstract value set
    pub open spec fn has(&self, v: int) -> bool { self.lb() <= v <= self.ub() && !self.hole(v) }
    pub open spec fn empty(&self) -> bool { self.lb() > self.ub() }
    // representation invariant: the update stacks are never empty, and a bound is never a hole unless the domain is empty
    pub open spec fn wf(&self) -> bool {
        self.lower_bound_updates@.len() >= 1 && self.upper_bound_updates@.len() >= 1
        && (!self.empty() ==> !self.hole(self.lb()) && !self.hole(self.ub()))
    }
//@@EXTRACT dom@@
}
} // verus!
fn main() {}
