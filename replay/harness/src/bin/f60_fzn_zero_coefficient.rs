//! F60 (C13): a zero coefficient in a FlatZinc linear constraint (int_lin_{eq,le,ne}[_reif], bool_lin_{eq,le}) became a
//! view scaled by 0; the view's inversion divides by its scale: the solver panicked (`attempt to divide by zero` /
//! `remainder with a divisor of zero`) and printed nothing for a well-formed model.  Exit 1 = reproduced.
use std::io::Write;
use std::process::Command;

fn run(name: &str, model: &str, args: &[&str]) -> (String, String) {
    let repo = std::env::var("PUMPKIN_REPO").unwrap_or_else(|_| "/repo".into());
    let target = std::env::var("CARGO_TARGET_DIR").unwrap_or_else(|_| "/tmp/pumpkin-verif-scratch/replay-target".into());
    let path = std::env::temp_dir().join(name);
    std::fs::File::create(&path).unwrap().write_all(model.as_bytes()).unwrap();
    let out = Command::new("cargo")
        .args(["run", "--offline", "-q", "--manifest-path", &format!("{repo}/Cargo.toml"), "-p", "pumpkin-solver", "--bin", "pumpkin-solver", "--"])
        .args(args).arg(&path)
        .env("CARGO_TARGET_DIR", format!("{target}-bin")).env("RUST_BACKTRACE", "0")
        .output().expect("cannot run cargo");
    (String::from_utf8_lossy(&out.stdout).to_string(), String::from_utf8_lossy(&out.stderr).to_string())
}


fn main() {
    let models: [(&str, &str, usize); 4] = [
        ("int_lin_ne([0, 1], [x, y], 2)", "var 0..3: x :: output_var;\nvar 0..3: y :: output_var;\nconstraint int_lin_ne([0, 1], [x, y], 2);\nsolve satisfy;\n", 12),
        ("int_lin_le([0, 1], [x, y], 2)", "var 0..3: x :: output_var;\nvar 0..3: y :: output_var;\nconstraint int_lin_le([0, 1], [x, y], 2);\nsolve satisfy;\n", 12),
        ("int_lin_eq([0, 1], [x, y], 2)", "var 0..3: x :: output_var;\nvar 0..3: y :: output_var;\nconstraint int_lin_eq([0, 1], [x, y], 2);\nsolve satisfy;\n", 4),
        ("bool_lin_eq([0, 1], [p, q], s)", "var bool: p :: output_var;\nvar bool: q :: output_var;\nvar 0..3: s :: output_var;\nconstraint bool_lin_eq([0, 1], [p, q], s);\nsolve satisfy;\n", 4),
    ];
    let mut bad = 0;
    for (i, (what, model, expected)) in models.iter().enumerate() {
        let (so, se) = run(&format!("pv_f60_{i}.fzn"), model, &["-a"]);
        let n = so.lines().filter(|l| l.starts_with("----------")).count();
        let complete = so.lines().any(|l| l.starts_with("=========="));
        let panic = se.lines().find(|l| l.contains("panicked") || l.contains("attempt to")).unwrap_or("");
        println!("{what} with -a: {n} solutions (expected {expected}), complete: {complete} {panic}");
        if n != *expected || !complete { bad += 1; }
    }
    if bad > 0 { println!("REPRODUCED: {bad} models with a zero coefficient are not solved"); std::process::exit(1); }
    println!("ok: a zero coefficient is a term that contributes nothing");
}
