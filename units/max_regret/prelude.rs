#![feature(allocator_api)]
use vstd::prelude::*;
//@@SPEC macros.rs@@

verus! {
//@@SPEC std_option_extra.rs@@
#[derive(Clone, Copy, PartialEq, Eq, Structural)]
pub struct DomainId { pub id: u32 }
#[derive(Clone, Copy, PartialEq, Eq, Structural)]
pub enum Predicate {
    LowerBound { domain_id: DomainId, lower_bound: i32 },
    UpperBound { domain_id: DomainId, upper_bound: i32 },
    NotEqual { domain_id: DomainId, not_equal_constant: i32 },
    Equal { domain_id: DomainId, equality_constant: i32 },
}
impl DomainId {
    #[verifier::external_body]
    pub fn lower_bound_predicate(&self, bound: i32) -> (p: Predicate) ensures p == (Predicate::LowerBound { domain_id: *self, lower_bound: bound }) { unimplemented!() }
    #[verifier::external_body]
    pub fn upper_bound_predicate(&self, bound: i32) -> (p: Predicate) ensures p == (Predicate::UpperBound { domain_id: *self, upper_bound: bound }) { unimplemented!() }
    #[verifier::external_body]
    pub fn equality_predicate(&self, bound: i32) -> (p: Predicate) ensures p == (Predicate::Equal { domain_id: *self, equality_constant: bound }) { unimplemented!() }
    #[verifier::external_body]
    pub fn disequality_predicate(&self, bound: i32) -> (p: Predicate) ensures p == (Predicate::NotEqual { domain_id: *self, not_equal_constant: bound }) { unimplemented!() }
}
// the domain of a variable: a set of values whose smallest and largest members are its bounds
pub struct SelectionContext { pub dom: Ghost<Map<int, Set<int>>>, pub lb: Ghost<Map<int, int>>, pub ub: Ghost<Map<int, int>> }
impl SelectionContext {
    pub open spec fn wf(&self, v: DomainId) -> bool {
        let d = self.dom@[v.id as int]; let l = self.lb@[v.id as int]; let u = self.ub@[v.id as int];
        &&& d.contains(l) && d.contains(u) && l <= u
        &&& forall|x: int| #![trigger d.contains(x)] d.contains(x) ==> l <= x <= u
        &&& -0x2000_0000 <= l && u <= 0x2000_0000
    }
    #[verifier::external_body]
    pub fn lower_bound(&self, v: DomainId) -> (r: i32) ensures r == self.lb@[v.id as int] { unimplemented!() }
    #[verifier::external_body]
    pub fn upper_bound(&self, v: DomainId) -> (r: i32) ensures r == self.ub@[v.id as int] { unimplemented!() }
    #[verifier::external_body]
    pub fn contains(&self, v: DomainId, value: i32) -> (r: bool) ensures r == self.dom@[v.id as int].contains(value as int) { unimplemented!() }
    #[verifier::external_body]
    pub fn get_size_of_domain(&self, v: DomainId) -> (r: i32) ensures r == self.ub@[v.id as int] - self.lb@[v.id as int] { unimplemented!() }
}
impl SelectionContext {
    #[verifier::external_body]
    pub fn is_integer_fixed(&self, v: DomainId) -> (r: bool) ensures r == (self.lb@[v.id as int] == self.ub@[v.id as int]) { unimplemented!() }
}
// a tie breaker: remembers what it was shown and hands back one of those (or nothing when it was shown nothing)
pub struct TieBreakerStub { pub seen: Ghost<Seq<DomainId>> }
impl TieBreakerStub {
    #[verifier::external_body]
    pub fn consider(&mut self, variable: DomainId, value: i32) ensures final(self).seen@ == old(self).seen@.push(variable) { unimplemented!() }
    #[verifier::external_body]
    pub fn select(&mut self) -> (r: Option<DomainId>)
        ensures final(self).seen@.len() == 0, old(self).seen@.len() == 0 ==> r is None,
                old(self).seen@.len() > 0 ==> r is Some && old(self).seen@.contains(r->Some_0),
    { unimplemented!() }
}
pub struct MaxRegret { pub variables: Vec<DomainId>, pub tie_breaker: TieBreakerStub }
pub trait VariableSelector {
    spec fn vars(&self) -> Seq<DomainId>;
    spec fn clean(&self) -> bool;
    // @C18 a variable is proposed only if it is one of the selector's variables and not fixed; nothing is proposed only if all of them are fixed
    fn select_variable(&mut self, context: &mut SelectionContext) -> (r: Option<DomainId>)
        requires old(self).clean(), forall|i: int| #![trigger old(self).vars()[i]] 0 <= i < old(self).vars().len() ==> old(context).wf(old(self).vars()[i]),
        ensures *final(context) == *old(context), final(self).clean(), final(self).vars() == old(self).vars(),
                r matches Some(v) ==> old(self).vars().contains(v) && old(context).lb@[v.id as int] < old(context).ub@[v.id as int],
                r is None ==> forall|i: int| #![trigger old(self).vars()[i]] 0 <= i < old(self).vars().len() ==> old(context).lb@[old(self).vars()[i].id as int] == old(context).ub@[old(self).vars()[i].id as int];
}
impl VariableSelector for MaxRegret {
    open spec fn vars(&self) -> Seq<DomainId> { self.variables@ }
    open spec fn clean(&self) -> bool { self.tie_breaker.seen@.len() == 0 }
//@@EXTRACT mr@@
}
} // verus!
fn main() {}
