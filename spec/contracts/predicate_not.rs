// Contract of `impl Not for Predicate` (one text: proved in unit `predicate`, assumed by the consumers).
// `[x >= i32::MIN]` and `[x <= i32::MAX]` have no representable negation (pred_negatable); see below for what `!p` is then.
pub open spec fn pred_negatable(p: Predicate) -> bool {
    match p {
        Predicate::LowerBound { domain_id, lower_bound } => lower_bound > i32::MIN,
        Predicate::UpperBound { domain_id, upper_bound } => upper_bound < i32::MAX,
        _ => true,
    }
}
pub open spec fn pred_negation(p: Predicate) -> Predicate {
    match p {
        Predicate::LowerBound { domain_id, lower_bound } => Predicate::UpperBound { domain_id, upper_bound: (lower_bound - 1) as i32 },
        Predicate::UpperBound { domain_id, upper_bound } => Predicate::LowerBound { domain_id, lower_bound: (upper_bound + 1) as i32 },
        Predicate::NotEqual { domain_id, not_equal_constant } => Predicate::Equal { domain_id, equality_constant: not_equal_constant },
        Predicate::Equal { domain_id, equality_constant } => Predicate::NotEqual { domain_id, not_equal_constant: equality_constant },
    }
}
// the canonical trivially false predicate: `[dummy != 1]` over the variable 0, which every model fixes to 1 (A-DUMMY)
pub open spec fn pred_trivially_false() -> Predicate { Predicate::NotEqual { domain_id: DomainId { id: 0 }, not_equal_constant: 1 } }
// since fix 968a679d (finding F35) the negation is total: the two trivially true bounds are negated to the trivially false predicate
impl vstd::std_specs::ops::NotSpecImpl for Predicate {
    open spec fn obeys_not_spec() -> bool { true }
    open spec fn not_req(self) -> bool { true }
    open spec fn not_spec(self) -> Predicate { if pred_negatable(self) { pred_negation(self) } else { pred_trivially_false() } }
}
// semantic content for the two unrepresentable cases: the predicate holds for every i32-valued assignment and its
// negation holds for no assignment that gives the dummy variable its value 1
pub proof fn lemma_negation_of_trivial_bound(p: Predicate, a: Asg)
    requires !pred_negatable(p), i32::MIN <= a(pred_domain(p)) <= i32::MAX, a(0) == 1
    ensures pred_holds(p, a), !pred_holds(pred_trivially_false(), a)
{ }
// semantic content of the negation (spec-level lemma, proved here once)
pub proof fn lemma_negation_is_complement(p: Predicate)
    requires pred_negatable(p)
    ensures forall|a: Asg| #[trigger] pred_holds(pred_negation(p), a) <==> !pred_holds(p, a),
            pred_negatable(pred_negation(p)), pred_negation(pred_negation(p)) == p,
{ }
// a predicate that some i32-valued assignment falsifies has a representable negation
pub open spec fn pred_domain(p: Predicate) -> int {
    match p {
        Predicate::LowerBound { domain_id, .. } => domain_id.id as int,
        Predicate::UpperBound { domain_id, .. } => domain_id.id as int,
        Predicate::NotEqual { domain_id, .. } => domain_id.id as int,
        Predicate::Equal { domain_id, .. } => domain_id.id as int,
    }
}
pub proof fn lemma_negatable_if_falsified_by_i32(p: Predicate, a: Asg)
    requires !pred_holds(p, a), i32::MIN <= a(pred_domain(p)) <= i32::MAX
    ensures pred_negatable(p)
{ }
