#![feature(allocator_api)]
use vstd::prelude::*;
//@@SPEC macros.rs@@
//@@EXTRACT macro_predicate@@
//@@EXTRACT macro_conjunction@@
verus! {
//@@SPEC vocab.rs@@
//@@SPEC std_saturating.rs@@
//@@SPEC contracts/integer_variable_consumer.rs@@
//@@SPEC prop_ctx.rs@@
broadcast use {conv_axioms::axiom_from_empty_domain, seq_lemmas::lemma_seq_holds_push};

impl vstd::std_specs::convert::FromSpecImpl<Predicate> for PropositionalConjunction {
    open spec fn obeys_from_spec() -> bool { false }
    uninterp spec fn from_spec(p: Predicate) -> Self;
}
impl From<Predicate> for PropositionalConjunction {
    fn from(p: Predicate) -> (r: Self) ensures r.predicates_in_conjunction@ == seq![p]
    { let mut v = Vec::new(); v.push(p); proof { assert(v@ =~= seq![p]); } PropositionalConjunction { predicates_in_conjunction: v } }
}
impl Default for PropositionalConjunction {
    fn default() -> (r: Self) ensures r.predicates_in_conjunction@.len() == 0
    { PropositionalConjunction { predicates_in_conjunction: Vec::new() } }
}
impl PropositionalConjunction {
    pub fn add(&mut self, predicate: Predicate)
        ensures final(self).predicates_in_conjunction@ == old(self).predicates_in_conjunction@.push(predicate)
    { self.predicates_in_conjunction.push(predicate); }
}

// A-VIEWRANGE
#[verifier::external_body]
pub proof fn axiom_eval_in_i32<V: IntegerVariable>(v: &V, a: Asg)
    ensures i32::MIN <= v.eval(a) <= i32::MAX {}
// A-READS
#[verifier::external_body]
pub proof fn lemma_lb_is_lower<V: IntegerVariable>(live: Live, v: &V, a: Asg)
    requires live(a) ensures v.eval(a) >= store_lb(live, v), v.eval(a) <= store_ub(live, v) {}

pub struct MaximumPropagator<ElementVar, Rhs> {
    pub array: Box<[ElementVar]>,
    pub rhs: Rhs,
}
// the mathematical constraint: rhs is at least every element and equal to one of them
pub open spec fn max_holds<E: IntegerVariable, R: IntegerVariable>(p: &MaximumPropagator<E, R>, a: Asg) -> bool {
    (forall|i: int| #![trigger p.array@[i]] 0 <= i < p.array@.len() ==> p.array@[i].eval(a) <= p.rhs.eval(a))
    && (exists|i: int| #![trigger p.array@[i]] 0 <= i < p.array@.len() && p.array@[i].eval(a) == p.rhs.eval(a))
}

impl<ElementVar: IntegerVariable, Rhs: IntegerVariable> MaximumPropagator<ElementVar, Rhs> {
//@@EXTRACT mx@@
}
} // verus!
fn main() {}
