#![feature(allocator_api)]
use vstd::prelude::*;
//@@SPEC macros.rs@@
verus! {
pub type Asg = spec_fn(int) -> int;
pub trait Evald { spec fn eval(&self, a: Asg) -> int; }
pub trait IntegerVariable: Evald + Sized {
    type AffineView: Evald;
    // TransformableVariable::scaled
    fn scaled(&self, scale: i32) -> (r: Self::AffineView)
        ensures forall|a: Asg| #![trigger r.eval(a)] r.eval(a) == scale * self.eval(a);
}
pub trait NegatableConstraint { type NegatedConstraint; fn negation(&self) -> Self::NegatedConstraint; }
pub assume_specification [i32::saturating_add] (x: i32, y: i32) -> (r: i32)
    ensures r == (if x + y > i32::MAX { i32::MAX as int } else if x + y < i32::MIN { i32::MIN as int } else { x + y });
#[verifier::external_body]
pub fn pv_into_boxed<T>(v: Vec<T>) -> (r: Box<[T]>) ensures r@ == v@ { v.into() }

//@@EXTRACT s_ineq@@
pub open spec fn sum_eval<T: Evald>(xs: Seq<T>, a: Asg) -> int decreases xs.len() {
    if xs.len() == 0 { 0 } else { sum_eval(xs.drop_last(), a) + xs.last().eval(a) }
}
// the meaning of the constraint, over the integers
pub open spec fn ineq_holds<T: Evald>(c: &Inequality<T>, a: Asg) -> bool { sum_eval(c.terms@, a) <= c.rhs }
pub proof fn lemma_sum_negated<T: Evald, U: Evald>(xs: Seq<T>, ys: Seq<U>, a: Asg)
    requires ys.len() == xs.len(), forall|i: int| #![trigger ys[i]] 0 <= i < xs.len() ==> ys[i].eval(a) == -xs[i].eval(a)
    ensures sum_eval(ys, a) == -sum_eval(xs, a)
    decreases xs.len()
{
    if xs.len() > 0 {
        assert forall|i: int| #![trigger ys.drop_last()[i]] 0 <= i < xs.drop_last().len() implies ys.drop_last()[i].eval(a) == -xs.drop_last()[i].eval(a) by { assert(ys.drop_last()[i] == ys[i]); assert(xs.drop_last()[i] == xs[i]); }
        lemma_sum_negated(xs.drop_last(), ys.drop_last(), a);
        assert(ys[ys.len() - 1].eval(a) == -xs[xs.len() - 1].eval(a));
    }
}
pub open spec fn built<V: IntegerVariable>(v: Vec<V::AffineView>, xs: Seq<V>, upto: int) -> bool {
    v@.len() == upto && forall|i: int, a: Asg| #![trigger v@[i].eval(a)] 0 <= i < upto ==> v@[i].eval(a) == -xs[i].eval(a)
}
impl<Var: IntegerVariable> NegatableConstraint for Inequality<Var> {
    type NegatedConstraint = Inequality<Var::AffineView>;
//@@EXTRACT neg@@
}
} // verus!
fn main() {}
