macro_rules! pumpkin_assert_moderate { ($cond:expr $(, $($arg:tt)*)?) => { assert!($cond) } }
use vstd::prelude::*;
use std::collections::HashMap;
verus! {
#[derive(Clone, Copy)]
pub struct DomainId { pub id: u32 }
pub struct EmptyDomain;
#[derive(Clone, Copy)]
pub enum IntDomainEvent { Assign, LowerBound, UpperBound, Removal }
pub struct EventSink { pub g: Ghost<int> }
impl EventSink {
    #[verifier::external_body]
    pub fn event_occurred(&mut self, event: IntDomainEvent, domain: DomainId) { unimplemented!() }
}
pub struct FnvBuildHasher;
#[derive(Clone, Copy, Debug)]
struct PairDecisionLevelTrailPosition {
    decision_level: usize,
    trail_position: usize,
}

#[derive(Clone, Debug)]
struct BoundUpdateInfo {
    bound: i32,
    decision_level: usize,
    trail_position: usize,
}

#[derive(Clone, Debug)]
struct HoleUpdateInfo {
    removed_value: i32,

    decision_level: usize,

    triggered_lower_bound_update: bool,
    triggered_upper_bound_update: bool,
}
struct IntegerDomain {
    id: DomainId,
    lower_bound_updates: Vec<BoundUpdateInfo>,
    upper_bound_updates: Vec<BoundUpdateInfo>,
    hole_updates: Vec<HoleUpdateInfo>,
    holes: HashMap<i32, PairDecisionLevelTrailPosition>,
    initial_bounds_below_trail: usize,
}
impl IntegerDomain {
    fn debug_is_valid_upper_bound_domain_update(&self, decision_level: usize, trail_position: usize) -> bool { true }
    fn debug_is_valid_lower_bound_domain_update(&self, decision_level: usize, trail_position: usize) -> bool { true }
    fn lower_bound(&self) -> i32 {
        // the last entry contains the current lower bound
        self.lower_bound_updates
            .last()
            .expect("Cannot be empty.")
            .bound
    }
    fn upper_bound(&self) -> i32 {
        // the last entry contains the current upper bound
        self.upper_bound_updates
            .last()
            .expect("Cannot be empty.")
            .bound
    }
    fn contains(&self, value: i32) -> bool {
        self.lower_bound() <= value
            && value <= self.upper_bound()
            && !self.holes.contains_key(&value)
    }
    fn set_upper_bound(
        &mut self,
        new_upper_bound: i32,
        decision_level: usize,
        trail_position: usize,
        events: &mut EventSink,
    ) {
        pumpkin_assert_moderate!(
            self.debug_is_valid_upper_bound_domain_update(decision_level, trail_position)
        );

        if new_upper_bound >= self.upper_bound() {
            return;
        }

        events.event_occurred(IntDomainEvent::UpperBound, self.id);

        self.upper_bound_updates.push(BoundUpdateInfo {
            bound: new_upper_bound,
            decision_level,
            trail_position,
        });
        self.update_upper_bound_with_respect_to_holes();

        if self.lower_bound() == self.upper_bound() {
            events.event_occurred(IntDomainEvent::Assign, self.id);
        }
    }
    #[verifier::exec_allows_no_decreases_clause]
    fn update_upper_bound_with_respect_to_holes(&mut self) {
        while self.holes.contains_key(&self.upper_bound())
            && self.lower_bound() <= self.upper_bound()
        {
            self.upper_bound_updates.last_mut().unwrap().bound -= 1;
        }
    }
    fn set_lower_bound(
        &mut self,
        new_lower_bound: i32,
        decision_level: usize,
        trail_position: usize,
        events: &mut EventSink,
    ) {
        pumpkin_assert_moderate!(
            self.debug_is_valid_lower_bound_domain_update(decision_level, trail_position)
        );

        if new_lower_bound <= self.lower_bound() {
            return;
        }

        events.event_occurred(IntDomainEvent::LowerBound, self.id);

        self.lower_bound_updates.push(BoundUpdateInfo {
            bound: new_lower_bound,
            decision_level,
            trail_position,
        });
        self.update_lower_bound_with_respect_to_holes();

        if self.lower_bound() == self.upper_bound() {
            events.event_occurred(IntDomainEvent::Assign, self.id);
        }
    }
    #[verifier::exec_allows_no_decreases_clause]
    fn update_lower_bound_with_respect_to_holes(&mut self) {
        while self.holes.contains_key(&self.lower_bound())
            && self.lower_bound() <= self.upper_bound()
        {
            self.lower_bound_updates.last_mut().unwrap().bound += 1;
        }
    }
    fn verify_consistency(&self) -> Result<(), EmptyDomain> {
        if self.lower_bound() > self.upper_bound() {
            Err(EmptyDomain)
        } else {
            Ok(())
        }
    }
    fn remove_value(
        &mut self,
        removed_value: i32,
        decision_level: usize,
        trail_position: usize,
        events: &mut EventSink,
    ) {
        if removed_value < self.lower_bound()
            || removed_value > self.upper_bound()
            || self.holes.contains_key(&removed_value)
        {
            return;
        }

        events.event_occurred(IntDomainEvent::Removal, self.id);

        self.hole_updates.push(HoleUpdateInfo {
            removed_value,
            decision_level,
            triggered_lower_bound_update: false,
            triggered_upper_bound_update: false,
        });
        // Note that it is important to remove the hole now,
        // because the later if statements may use the holes.
        let old_none_entry = self.holes.insert(
            removed_value,
            PairDecisionLevelTrailPosition {
                decision_level,
                trail_position,
            },
        );
        pumpkin_assert_moderate!(old_none_entry.is_none());

        // Check if removing a value triggers a lower bound update.
        if self.lower_bound() == removed_value {
            self.set_lower_bound(removed_value + 1, decision_level, trail_position, events);
            self.hole_updates
                .last_mut()
                .expect("we just pushed a value, so must be present")
                .triggered_lower_bound_update = true;
        }
        // Check if removing the value triggers an upper bound update.
        if self.upper_bound() == removed_value {
            self.set_upper_bound(removed_value - 1, decision_level, trail_position, events);
            self.hole_updates
                .last_mut()
                .expect("we just pushed a value, so must be present")
                .triggered_upper_bound_update = true;
        }

        if self.lower_bound() == self.upper_bound() {
            events.event_occurred(IntDomainEvent::Assign, self.id);
        }
    }
}
}
fn main(){}
