//! F25 (C19): steps written by drcp_format::writer::ProofWriter are not all accepted by drcp_format::reader::ProofReader:
//! the reader's grammar wants a blank after the step id and ` 0 ` around the separator, the writer emits neither when
//! the literal list (or the hint list) is empty.  Every UNSAT proof of the solver ends with the empty nogood `n <id>`.
//! Writes all shapes and reads them back.  Exit 1 = reproduced.
use std::num::NonZeroI32;
use std::num::NonZeroU32;

use drcp_format::reader::ProofReader;
use drcp_format::steps::Step;
use drcp_format::steps::StepId;
use drcp_format::writer::LiteralCodeProvider;
use drcp_format::writer::ProofWriter;
use drcp_format::Format;

struct Identity;
impl LiteralCodeProvider for Identity {
    type Literal = NonZeroI32;
    fn to_code(&mut self, literal: NonZeroI32) -> NonZeroI32 { literal }
}
fn l(x: i32) -> NonZeroI32 { NonZeroI32::new(x).unwrap() }

fn main() {
    let mut failed = false;
    // (description, writer actions)
    let lit_sets: Vec<Vec<NonZeroI32>> = vec![vec![], vec![l(3)], vec![l(-4), l(7)]];
    for lits in &lit_sets {
        for hints in 0..3 {
            let mut buf: Vec<u8> = vec![];
            let mut w = ProofWriter::new(Format::Text, &mut buf, Identity);
            let first = w.log_nogood_clause([l(1)], None::<Vec<StepId>>).unwrap();
            let h: Option<Vec<StepId>> = match hints { 0 => None, 1 => Some(vec![]), _ => Some(vec![first]) };
            let _ = w.log_nogood_clause(lits.clone(), h.clone()).unwrap();
            let _ = w.unsat().unwrap();
            failed |= !reads_back(&buf, 3, &format!("nogood {lits:?} hints {h:?}"));
            failed |= !same_nogood(&buf, lits, &h);
        }
        for propagated in [None, Some(l(9))] {
            for tag in [None, NonZeroU32::new(2)] {
                for label in [None, Some("lbl")] {
                    let mut buf: Vec<u8> = vec![];
                    let mut w = ProofWriter::new(Format::Text, &mut buf, Identity);
                    let _ = w.log_inference(tag, label, lits.clone(), propagated).unwrap();
                    let _ = w.unsat().unwrap();
                    failed |= !reads_back(&buf, 2, &format!("inference {lits:?} -> {propagated:?} tag {tag:?} label {label:?}"));
                    failed |= !same_inference(&buf, lits, propagated, tag, label);
                }
            }
        }
    }
    if failed { std::process::exit(1); }
    println!("ok: every written shape is read back");
}

fn reads_back(buf: &[u8], expected: usize, what: &str) -> bool {
    let text = String::from_utf8(buf.to_vec()).unwrap();
    let mut r = ProofReader::new(buf, std::convert::identity::<NonZeroI32>);
    let mut steps = 0;
    loop {
        match r.next_step() {
            Ok(Some(Step::Nogood(_))) | Ok(Some(Step::Inference(_))) | Ok(Some(Step::Delete(_))) | Ok(Some(Step::Conclusion(_))) => steps += 1,
            Ok(None) => break,
            Err(e) => {
                println!("REPRODUCED: {what}: the writer produced {text:?}; the reader fails after {steps} step(s): {e}");
                return false;
            }
        }
    }
    if steps != expected {
        println!("REPRODUCED: {what}: the writer produced {text:?}; the reader returned {steps} steps instead of {expected}");
        return false;
    }
    true
}

fn same_nogood(buf: &[u8], lits: &[NonZeroI32], hints: &Option<Vec<StepId>>) -> bool {
    let mut r = ProofReader::new(buf, std::convert::identity::<NonZeroI32>);
    let _ = r.next_step();
    match r.next_step() {
        Ok(Some(Step::Nogood(n))) => {
            if n.literals != lits || &n.hints != hints {
                println!("REPRODUCED: nogood {lits:?} hints {hints:?} read back as {:?} hints {:?}", n.literals, n.hints);
                return false;
            }
            true
        }
        _ => true, // already reported by reads_back
    }
}
fn same_inference(buf: &[u8], lits: &[NonZeroI32], propagated: Option<NonZeroI32>, tag: Option<NonZeroU32>, label: Option<&str>) -> bool {
    let mut r = ProofReader::new(buf, std::convert::identity::<NonZeroI32>);
    match r.next_step() {
        Ok(Some(Step::Inference(i))) => {
            if i.premises != lits || i.propagated != propagated || i.hint_constraint_id != tag || i.hint_label != label {
                println!("REPRODUCED: inference {lits:?} -> {propagated:?} {tag:?} {label:?} read back as {:?} -> {:?} {:?} {:?}", i.premises, i.propagated, i.hint_constraint_id, i.hint_label);
                return false;
            }
            true
        }
        _ => true,
    }
}
