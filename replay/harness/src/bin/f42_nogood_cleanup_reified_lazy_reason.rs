//! F42 (C07): NogoodPropagator::is_nogood_propagating asked ReasonStore::get_lazy_code for the reason of ANY propagator
//! before checking that the trail entry was propagated by the nogood propagator; for a lazily explained propagation of a
//! reified propagator (StoredReason::ReifiedLazy, e.g. a half-reified element constraint) get_lazy_code is
//! `unimplemented!`: the clean-up of the learned-nogood database panics.  A fixed instance (graph colouring over 8 nodes
//! plus four half-reified element constraints), enumerated with a database limit of 1 and with the default limits.
//! Exit 1 = reproduced.
use pumpkin_solver::constraints;
use pumpkin_solver::constraints::Constraint;
use pumpkin_solver::options::LearnedNogoodSortingStrategy;
use pumpkin_solver::options::LearningOptions;
use pumpkin_solver::options::SolverOptions;
use pumpkin_solver::results::solution_iterator::IteratedSolution;
use pumpkin_solver::termination::Indefinite;
use pumpkin_solver::Solver;

struct Lcg(u64);
impl Lcg { fn next(&mut self, n: u64) -> u64 { self.0 = self.0.wrapping_mul(6364136223846793005).wrapping_add(1442695040888963407); (self.0 >> 33) % n } }

fn run(seed: u64, small: bool) -> Result<usize, String> {
    let r = std::panic::catch_unwind(move || {
        let mut g = Lcg(seed);
        let mut solver = Solver::with_options(SolverOptions {
            learning_options: if small { LearningOptions { limit_num_high_lbd_nogoods: 1, lbd_threshold: 1, nogood_sorting_strategy: if seed % 2 == 0 { LearnedNogoodSortingStrategy::Lbd } else { LearnedNogoodSortingStrategy::Activity }, ..Default::default() } } else { LearningOptions::default() },
            ..Default::default()
        });
        let n = 8;
        let nodes: Vec<_> = (0..n).map(|_| solver.new_bounded_integer(0, 3)).collect();
        for i in 0..n { for j in (i + 1)..n { if g.next(100) < 55 { let _ = solver.add_constraint(constraints::binary_not_equals(nodes[i], nodes[j])).post(); } } }
        // half-reified element constraints over the nodes
        for _ in 0..4 {
            let l = solver.new_literal();
            let idx = solver.new_bounded_integer(0, 2);
            let a: Vec<_> = (0..3).map(|_| nodes[g.next(n as u64) as usize]).collect();
            let rhs = nodes[g.next(n as u64) as usize];
            let _ = solver.add_constraint(constraints::element(idx, a, rhs)).implied_by(l);
        }
        let mut brancher = solver.default_brancher();
        let mut termination = Indefinite;
        let mut it = solver.get_solution_iterator(&mut brancher, &mut termination);
        let mut k = 0;
        loop { match it.next_solution() { IteratedSolution::Solution(..) => k += 1, _ => break } if k > 20000 { break; } }
        k
    });
    r.map_err(|e| e.downcast_ref::<String>().cloned().or_else(|| e.downcast_ref::<&str>().map(|s| s.to_string())).unwrap_or_default())
}

fn main() {
    std::panic::set_hook(Box::new(|_| {}));
    let mut bad = vec![];
    for seed in [3u64, 4, 5] {
        let reference = run(seed, false);
        let small = run(seed, true);
        match (&reference, &small) {
            (Ok(a), Ok(b)) if a == b => println!("ok: instance {seed}: {a} solutions with both database limits"),
            (Ok(a), Ok(b)) => bad.push(format!("instance {seed}: {b} solutions with limit 1, {a} with the default limits")),
            (_, Err(m)) => bad.push(format!("instance {seed}: panic with limit 1: {m}")),
            (Err(m), _) => bad.push(format!("instance {seed}: panic with the default limits: {m}")),
        }
    }
    if !bad.is_empty() { println!("REPRODUCED: {}", bad.join(" | ")); std::process::exit(1); }
}
