// std::cmp::max / min have no vstd specification: generic hook + an axiom for the i32 instance (trusted: std semantics)
pub mod std_minmax_hooks { use vstd::prelude::*;
pub uninterp spec fn spec_max<T>(x: T, y: T) -> T;
pub uninterp spec fn spec_min<T>(x: T, y: T) -> T;
}
pub use std_minmax_hooks::*;
pub assume_specification<T> [std::cmp::max] (x: T, y: T) -> (m: T)
    where T: std::cmp::Ord + std::marker::Destruct,
    ensures m == spec_max(x, y);
pub assume_specification<T> [std::cmp::min] (x: T, y: T) -> (m: T)
    where T: std::cmp::Ord + std::marker::Destruct,
    ensures m == spec_min(x, y);
pub mod std_minmax_axioms { use vstd::prelude::*; use super::std_minmax_hooks::*;
#[verifier::external_body]
pub broadcast proof fn axiom_max_i32(x: i32, y: i32)
    ensures #[trigger] spec_max(x, y) == (if x >= y { x } else { y }) {}
#[verifier::external_body]
pub broadcast proof fn axiom_min_i32(x: i32, y: i32)
    ensures #[trigger] spec_min(x, y) == (if x <= y { x } else { y }) {}
}
pub mod std_minmax_axioms_usize { use vstd::prelude::*; use super::std_minmax_hooks::*;
#[verifier::external_body]
pub broadcast proof fn axiom_max_usize(x: usize, y: usize)
    ensures #[trigger] spec_max(x, y) == (if x >= y { x } else { y }) {}
}
