//! F53 (C06, C10): ConstraintSatisfactionSolver::add_nogood tested `state.is_infeasible()` after its root propagation,
//! but a conflict found by propagate() leaves the state `Conflict`: add_clause returned Ok(()) although the solver had
//! just become inconsistent, the conflict was never explained to the proof log, and the proof of the following
//! `satisfy` (Unsatisfiable) ended in `c UNSAT` without a conflict inference and without the empty nogood.
//! Exit 1 = reproduced.
use std::num::NonZero;
use pumpkin_solver::constraints;
use pumpkin_solver::constraints::Constraint;
use pumpkin_solver::options::SolverOptions;
use pumpkin_solver::predicate;
use pumpkin_solver::proof::ProofLog;
use pumpkin_solver::results::SatisfactionResult;
use pumpkin_solver::termination::Indefinite;
use pumpkin_solver::variables::TransformableVariable;
use pumpkin_solver::Solver;

fn tag(t: u32) -> NonZero<u32> { NonZero::new(t).unwrap() }

fn main() {
    let path = std::env::temp_dir().join("pv_f53.drcp");
    let (first, verdict);
    {
        let mut solver = Solver::with_options(SolverOptions {
            proof_log: ProofLog::cp(&path, drcp_format::Format::Text, true, false).expect("proof"),
            ..Default::default()
        });
        let x = solver.new_named_bounded_integer(0, 10, "x");
        let y = solver.new_named_bounded_integer(0, 10, "y");
        // x + y <= 5 and x <= y: the clause [x >= 3] gives y >= 3 through the second constraint, the first one fails
        solver.add_constraint(constraints::less_than_or_equals([x, y], 5)).with_tag(tag(1)).post().expect("ok");
        solver.add_constraint(constraints::less_than_or_equals([x.scaled(1), y.scaled(-1)], 0)).with_tag(tag(2)).post().expect("ok");
        first = solver.add_clause([predicate![x >= 3]]).is_err();
        let mut brancher = solver.default_brancher();
        verdict = match solver.satisfy(&mut brancher, &mut Indefinite) {
            SatisfactionResult::Unsatisfiable => "unsatisfiable",
            SatisfactionResult::Satisfiable(_) => "satisfiable",
            SatisfactionResult::Unknown => "unknown",
        };
    }
    let proof = std::fs::read_to_string(&path).unwrap_or_default();
    // the empty nogood is a line `n <id>` without literals
    let has_empty_nogood = proof.lines().any(|l| { let t: Vec<&str> = l.split_whitespace().collect(); t.len() == 2 && t[0] == "n" });
    println!("x + y <= 5, x <= y, add_clause([x >= 3]): reported as an error: {first}; satisfy: {verdict}; proof has the empty nogood: {has_empty_nogood}");
    if first && verdict == "unsatisfiable" && has_empty_nogood { println!("ok"); }
    else { println!("REPRODUCED: the clause makes the root inconsistent but add_clause returns Ok / the proof does not derive the empty nogood:\n{proof}"); std::process::exit(1); }
}
