#![feature(allocator_api)]
use vstd::prelude::*;
//@@SPEC macros.rs@@
// The always-on assertions of the resolver describe the shape of the last predicates on the trail; whether they can
// fire is not decided here (partial correctness: a panic is not a wrong nogood).  They are runtime guards.
macro_rules! pumpkin_assert_simple { ($cond:expr $(, $($arg:tt)*)?) => { if !($cond) { pv_abort(); } } }
// used once as a tail expression: expands to the unit value
macro_rules! pumpkin_assert_moderate { ($($arg:tt)*) => { () } }
verus! {
#[verifier::external_body]
pub fn pv_abort() ensures false { panic!() }

// ---- vocabulary (same text as spec/vocab.rs, without its Assignments) ----
pub type Asg = spec_fn(int) -> int;
pub type Model = spec_fn(Asg) -> bool;
#[derive(Clone, Copy, PartialEq, Eq, Structural)]
pub struct DomainId { pub id: u32 }
#[derive(Clone, Copy, PartialEq, Eq, Structural)]
pub enum Predicate {
    LowerBound { domain_id: DomainId, lower_bound: i32 },
    UpperBound { domain_id: DomainId, upper_bound: i32 },
    NotEqual { domain_id: DomainId, not_equal_constant: i32 },
    Equal { domain_id: DomainId, equality_constant: i32 },
}
pub open spec fn pred_holds(p: Predicate, a: Asg) -> bool {
    match p {
        Predicate::LowerBound { domain_id, lower_bound } => a(domain_id.id as int) >= lower_bound,
        Predicate::UpperBound { domain_id, upper_bound } => a(domain_id.id as int) <= upper_bound,
        Predicate::NotEqual { domain_id, not_equal_constant } => a(domain_id.id as int) != not_equal_constant,
        Predicate::Equal { domain_id, equality_constant } => a(domain_id.id as int) == equality_constant,
    }
}
pub open spec fn seq_holds(s: Seq<Predicate>, a: Asg) -> bool { forall|i: int| 0 <= i < s.len() ==> pred_holds(#[trigger] s[i], a) }
impl Predicate {
    #[verifier::external_body]
    pub fn is_lower_bound_predicate(&self) -> (r: bool) ensures r == (*self is LowerBound) { unimplemented!() }
    #[verifier::external_body]
    pub fn is_not_equal_predicate(&self) -> (r: bool) ensures r == (*self is NotEqual) { unimplemented!() }
}

// ---- the store: truth, level and trail position of a predicate are functions of its identity ----
pub uninterp spec fn level_of(state: int, p: Predicate) -> Option<usize>;
pub uninterp spec fn is_decision(state: int, p: Predicate) -> bool;
pub struct TrailEntry { pub predicate: Predicate }
pub struct Assignments { pub state: Ghost<int>, pub trail: Vec<TrailEntry> }
impl Assignments {
    #[verifier::external_body]
    pub fn get_decision_level_for_predicate(&self, predicate: &Predicate) -> (r: Option<usize>) ensures r == level_of(self.state@, *predicate) { unimplemented!() }
    #[verifier::external_body]
    pub fn get_decision_level(&self) -> (r: usize) { unimplemented!() }
    #[verifier::external_body]
    pub fn is_decision_predicate(&self, predicate: &Predicate) -> (r: bool) ensures r == is_decision(self.state@, *predicate) { unimplemented!() }
    #[verifier::external_body]
    pub fn is_initial_bound(&self, predicate: Predicate) -> (r: bool) { unimplemented!() }
    // A-TRAIL: a predicate that is true has a position on the trail; the trail is far shorter than 2^30 entries
    #[verifier::external_body]
    pub fn get_trail_position(&self, predicate: &Predicate) -> (r: Option<usize>)
        ensures level_of(self.state@, *predicate) is Some ==> r is Some && r->Some_0 < self.trail@.len() && self.trail@.len() < 0x4000_0000
    { unimplemented!() }
}

// ---- containers, by their documented effect ----
#[derive(Clone, Copy, PartialEq, Eq, Structural)]
pub struct PredicateId { pub id: u32 }
impl PredicateId {
    #[verifier::external_body]
    pub fn index(&self) -> (r: usize) ensures r == self.id { unimplemented!() }
}
// KeyValueHeap<PredicateId, u32>: `size` keys 0..size exist, the keys in `present` are in the heap, every key keeps its value
pub struct KeyValueHeap { pub present: Ghost<Set<int>>, pub vals: Ghost<Map<int, int>>, pub size: Ghost<nat> }
impl KeyValueHeap {
    pub open spec fn wf(&self) -> bool { self.size@ <= 0x1_0000_0000 && forall|k: int| #![trigger self.present@.contains(k)] self.present@.contains(k) ==> 0 <= k < self.size@ }
    #[verifier::external_body]
    pub fn len(&self) -> (r: usize) ensures r == self.size@ { unimplemented!() }
    #[verifier::external_body]
    pub fn num_nonremoved_elements(&self) -> (r: usize) ensures r == self.present@.len() { unimplemented!() }
    #[verifier::external_body]
    pub fn grow(&mut self, key: PredicateId, value: u32)
        requires key.id == old(self).size@
        ensures final(self).size@ == old(self).size@ + 1, final(self).present@ == old(self).present@.insert(key.id as int), final(self).vals@ == old(self).vals@.insert(key.id as int, value as int)
    { unimplemented!() }
    #[verifier::external_body]
    pub fn delete_key(&mut self, key: PredicateId)
        ensures final(self).size == old(self).size, final(self).present@ == old(self).present@.remove(key.id as int), final(self).vals == old(self).vals
    { unimplemented!() }
    #[verifier::external_body]
    pub fn is_key_present(&self, key: PredicateId) -> (r: bool) requires key.id < self.size@ ensures r == self.present@.contains(key.id as int) { unimplemented!() }
    #[verifier::external_body]
    pub fn get_value(&self, key: PredicateId) -> (r: &u32) requires key.id < self.size@ ensures *r == self.vals@[key.id as int] { unimplemented!() }
    #[verifier::external_body]
    pub fn restore_key(&mut self, key: PredicateId)
        requires key.id < old(self).size@
        ensures final(self).size == old(self).size, final(self).present@ == old(self).present@.insert(key.id as int), final(self).vals == old(self).vals
    { unimplemented!() }
    #[verifier::external_body]
    pub fn increment(&mut self, key: PredicateId, increment: u32)
        requires key.id < old(self).size@
        ensures final(self).size == old(self).size, final(self).present == old(self).present,
                forall|k: int| #![trigger final(self).vals@[k]] k != key.id ==> final(self).vals@[k] == old(self).vals@[k],
    { unimplemented!() }
    // the maximum is not modelled: some key of the heap
    #[verifier::external_body]
    pub fn pop_max(&mut self) -> (r: Option<PredicateId>)
        ensures final(self).size == old(self).size, final(self).vals == old(self).vals,
                old(self).present@.len() > 0 ==> r is Some && old(self).present@.contains(r->Some_0.id as int) && final(self).present@ == old(self).present@.remove(r->Some_0.id as int),
                old(self).present@.len() == 0 ==> r is None && final(self).present == old(self).present,
    { unimplemented!() }
    #[verifier::external_body]
    pub fn peek_max(&self) -> (r: Option<(&PredicateId, &u32)>)
        ensures self.present@.len() > 0 ==> r is Some && self.present@.contains(r->Some_0.0.id as int),
                self.present@.len() == 0 ==> r is None,
    { unimplemented!() }
    #[verifier::external_body]
    pub fn clear(&mut self) ensures final(self).size@ == 0, final(self).present@ == Set::<int>::empty() { unimplemented!() }
}
// PredicateIdGenerator: id_to_predicate (`ids`) and predicate_to_id (`p2i`)
// ids are handed out in order (nothing is deleted during an analysis): the keys 0..next exist
pub struct PredicateIdGenerator { pub ids: Ghost<Map<int, Predicate>>, pub p2i: Ghost<Map<Predicate, int>>, pub next: Ghost<nat> }
impl PredicateIdGenerator {
    #[verifier::external_body]
    pub fn get_id(&mut self, predicate: Predicate) -> (r: PredicateId)
        ensures old(self).p2i@.dom().contains(predicate) ==> r.id == old(self).p2i@[predicate] && *final(self) == *old(self),
                !old(self).p2i@.dom().contains(predicate) ==> r.id as nat == old(self).next@ && final(self).next@ == old(self).next@ + 1
                    && final(self).ids@ == old(self).ids@.insert(r.id as int, predicate) && final(self).p2i@ == old(self).p2i@.insert(predicate, r.id as int),
    { unimplemented!() }
    #[verifier::external_body]
    pub fn get_predicate(&self, id: PredicateId) -> (r: Option<Predicate>)
        ensures r == (if self.ids@.dom().contains(id.id as int) { Some(self.ids@[id.id as int]) } else { None })
    { unimplemented!() }
    // id_to_predicate[predicate_to_id[predicate]] := replacement; predicate_to_id is left as it is
    #[verifier::external_body]
    pub fn replace_predicate(&mut self, predicate: Predicate, replacement: Predicate)
        requires old(self).p2i@.dom().contains(predicate)
        ensures final(self).p2i == old(self).p2i, final(self).next == old(self).next, final(self).ids@ == old(self).ids@.insert(old(self).p2i@[predicate], replacement)
    { unimplemented!() }
    #[verifier::external_body]
    pub fn clear(&mut self) ensures final(self).ids@ == Map::<int, Predicate>::empty(), final(self).p2i@ == Map::<Predicate, int>::empty(), final(self).next@ == 0 { unimplemented!() }
}

pub trait Brancher { fn on_appearance_in_conflict_predicate(&mut self, predicate: Predicate); }
pub struct PropagatorStore { pub x: u8 }
pub struct ProofLog { pub x: u8 }
impl ProofLog { #[verifier::external_body] pub fn is_logging_inferences(&self) -> (r: bool) { unimplemented!() } }
pub struct ReasonStore { pub x: u8 }
pub struct StepIds { pub x: u8 }
pub struct SemanticMinimiser { pub x: u8 }
pub struct RecursiveMinimiser { pub x: u8 }
pub struct MovingAverageStub { pub x: u8 }
impl MovingAverageStub { #[verifier::external_body] pub fn add_term(&mut self, t: u64) { unimplemented!() } }
pub struct LearnedClauseStatistics { pub average_conflict_size: MovingAverageStub }
pub struct Counters { pub learned_clause_statistics: LearnedClauseStatistics }
pub struct RootExplanationContext<'a> {
    pub propagators: &'a mut PropagatorStore,
    pub proof_log: &'a mut ProofLog,
    pub unit_nogood_step_ids: &'a StepIds,
    pub assignments: &'a Assignments,
    pub reason_store: &'a mut ReasonStore,
}
#[verifier::external_body]
pub fn explain_root_assignment(context: &mut RootExplanationContext<'_>, predicate: Predicate) { unimplemented!() }

#[derive(Clone, Copy)]
pub enum AnalysisMode { OneUIP, AllDecision }
pub struct LearnedNogood { pub predicates: Vec<Predicate>, pub backjump_level: usize }
pub struct CurrentNogood<'a> { pub heap: &'a KeyValueHeap, pub visited: &'a [Predicate], pub ids: &'a PredicateIdGenerator }
impl<'a> CurrentNogood<'a> {
    #[verifier::external_body]
    pub fn new(heap: &'a KeyValueHeap, visited: &'a [Predicate], ids: &'a PredicateIdGenerator) -> (r: Self) ensures r.heap == heap, r.ids == ids { unimplemented!() }
}

pub struct ConflictAnalysisContext<'a> {
    pub assignments: &'a mut Assignments,
    pub counters: &'a mut Counters,
    pub reason_store: &'a mut ReasonStore,
    pub brancher: &'a mut dyn Brancher,
    pub semantic_minimiser: &'a mut SemanticMinimiser,
    pub propagators: &'a mut PropagatorStore,
    pub proof_log: &'a mut ProofLog,
    pub unit_nogood_step_ids: &'a StepIds,
    pub should_minimise: bool,
    // ghost: everything posted so far
    pub model: Ghost<Model>,
}
// a predicate that was in the heap and has been taken out of it: not in the heap, with a value that is not 0
pub open spec fn was_popped(heap: &KeyValueHeap, gen: &PredicateIdGenerator, p: Predicate) -> bool {
    gen.p2i@.dom().contains(p) && 0 <= gen.p2i@[p] < heap.size@ && !heap.present@.contains(gen.p2i@[p]) && heap.vals@[gen.p2i@[p]] != 0
}
// root-level facts follow from the model (as in unit conflict_nogood)
pub open spec fn roots_ok(state: int, model: Model) -> bool {
    forall|p: Predicate, a: Asg| #![trigger level_of(state, p), pred_holds(p, a)] level_of(state, p) == Some(0usize) && model(a) ==> pred_holds(p, a)
}
impl ConflictAnalysisContext<'_> {
    pub open spec fn ready(&self) -> bool { roots_ok(self.assignments.state@, self.model@) }
    // proved in unit conflict_nogood: the nogood handed to conflict analysis is refuted by the model, its predicates are true above the root
    #[verifier::external_body]
    pub fn get_conflict_nogood(&mut self) -> (r: Vec<Predicate>)
        requires old(self).ready()
        ensures forall|a: Asg| #![trigger (old(self).model@)(a)] (old(self).model@)(a) ==> !seq_holds(r@, a),
                forall|i: int| #![trigger r@[i]] 0 <= i < r@.len() ==> level_of(old(self).assignments.state@, r@[i]) is Some,
                *final(self).assignments == *old(self).assignments, final(self).model == old(self).model,
                r@.len() <= usize::MAX,   // a vector
    { unimplemented!() }
    // C17 (units of the propagators, reason_store, implicit_reasons): the reason implies the predicate in every solution of the
    // model, and its predicates are true.  A-ACYCLIC: a reason only contains predicates that precede the explained predicate on
    // the trail, and predicates leave the heap in descending trail order - so no predicate of a reason has left the heap before.
    #[verifier::external_body]
    pub fn get_propagation_reason(predicate: Predicate, assignments: &Assignments, current_nogood: CurrentNogood<'_>, reason_store: &mut ReasonStore,
        propagators: &mut PropagatorStore, proof_log: &mut ProofLog, unit_nogood_step_ids: &StepIds, reason_buffer: &mut Vec<Predicate>)
        requires old(reason_buffer)@.len() == 0
        ensures forall|a: Asg, m: Model| #![trigger m(a), seq_holds(final(reason_buffer)@, a)] roots_ok(assignments.state@, m) && implied_ok(assignments.state@, m) && m(a) && seq_holds(final(reason_buffer)@, a) ==> pred_holds(predicate, a),
                forall|i: int| #![trigger final(reason_buffer)@[i]] 0 <= i < final(reason_buffer)@.len() ==> level_of(assignments.state@, final(reason_buffer)@[i]) is Some
                    && !was_popped(current_nogood.heap, current_nogood.ids, final(reason_buffer)@[i]),
    { unimplemented!() }
}
// the store belongs to the model: what the stored reasons claim holds in every solution of it (A-ENGINE; C17 per propagator)
pub uninterp spec fn implied_ok(state: int, model: Model) -> bool;

pub struct ResolutionResolver {
    pub to_process_heap: KeyValueHeap,
    pub predicate_id_generator: PredicateIdGenerator,
    pub processed_nogood_predicates: Vec<Predicate>,
    pub recursive_minimiser: RecursiveMinimiser,
    pub mode: AnalysisMode,
    pub reason_buffer: Vec<Predicate>,
}
impl ResolutionResolver {
    // heap and generator fit together
    pub open spec fn wf(&self) -> bool {
        &&& self.to_process_heap.wf()
        &&& self.to_process_heap.size@ <= self.predicate_id_generator.next@
        &&& forall|k: int| #![trigger self.predicate_id_generator.ids@.dom().contains(k)] self.predicate_id_generator.ids@.dom().contains(k) <==> 0 <= k < self.predicate_id_generator.next@
        &&& forall|k: int| #![trigger self.to_process_heap.present@.contains(k)] self.to_process_heap.present@.contains(k) ==> self.predicate_id_generator.ids@.dom().contains(k)
        &&& forall|p: Predicate| #![trigger self.predicate_id_generator.p2i@.dom().contains(p)] self.predicate_id_generator.p2i@.dom().contains(p) ==>
                0 <= self.predicate_id_generator.p2i@[p] <= u32::MAX && self.predicate_id_generator.ids@.dom().contains(self.predicate_id_generator.p2i@[p])
        &&& forall|p: Predicate, q: Predicate| #![trigger self.predicate_id_generator.p2i@[p], self.predicate_id_generator.p2i@[q]] self.predicate_id_generator.p2i@.dom().contains(p)
                && self.predicate_id_generator.p2i@.dom().contains(q) && self.predicate_id_generator.p2i@[p] == self.predicate_id_generator.p2i@[q] ==> p == q
    }
    // the working nogood: the predicates of the keys in the heap, and the processed ones
    pub open spec fn cur_holds(&self, a: Asg) -> bool {
        (forall|k: int| #![trigger self.to_process_heap.present@.contains(k)] self.to_process_heap.present@.contains(k) ==> pred_holds(self.predicate_id_generator.ids@[k], a))
        && seq_holds(self.processed_nogood_predicates@, a)
    }
    // no predicate has been replaced in the generator: a key stands for the predicate it was created for
    pub open spec fn norepl(&self) -> bool {
        &&& forall|p: Predicate| #![trigger self.predicate_id_generator.p2i@.dom().contains(p)] self.predicate_id_generator.p2i@.dom().contains(p) ==> self.predicate_id_generator.ids@[self.predicate_id_generator.p2i@[p]] == p
    }
    // the keys of the heap can be found again through their predicate
    pub open spec fn inverse(&self) -> bool {
        forall|k: int| #![trigger self.to_process_heap.present@.contains(k)] self.to_process_heap.present@.contains(k) ==>
            self.predicate_id_generator.p2i@.dom().contains(self.predicate_id_generator.ids@[k]) && self.predicate_id_generator.p2i@[self.predicate_id_generator.ids@[k]] == k
    }
    // all-decision learning keeps decisions out of the heap
    pub open spec fn nodec(&self, state: int) -> bool {
        self.mode is AllDecision ==> forall|k: int| #![trigger self.to_process_heap.present@.contains(k)] self.to_process_heap.present@.contains(k) ==> !is_decision(state, self.predicate_id_generator.ids@[k])
    }
    // @C05 all-decision learning (core extraction): what has been processed consists of decisions - at the assumption levels these are
    // the assumptions, which is why every predicate of a core is implied by the assumptions
    pub open spec fn alldec(&self, state: int) -> bool {
        self.mode is AllDecision ==> forall|j: int| #![trigger self.processed_nogood_predicates@[j]] 0 <= j < self.processed_nogood_predicates@.len() ==> is_decision(state, self.processed_nogood_predicates@[j])
    }
    // @C07 @C02 the working nogood is refuted by the model
    pub open spec fn refuted(&self, model: Model) -> bool { forall|a: Asg| #![trigger model(a)] model(a) ==> !self.cur_holds(a) }
    // every predicate of the working nogood is true in the current state
    pub open spec fn all_true(&self, state: int) -> bool {
        (forall|k: int| #![trigger self.to_process_heap.present@.contains(k)] self.to_process_heap.present@.contains(k) ==> level_of(state, self.predicate_id_generator.ids@[k]) is Some)
    }
    // the semantic minimiser, the recursive minimiser (units semantic_min, minimiser) and sorting keep the nogood refuted:
    // whatever satisfies the final nogood satisfies the working nogood
    #[verifier::external_body]
    pub fn extract_final_nogood(&mut self, context: &mut ConflictAnalysisContext) -> (r: LearnedNogood)
        requires old(self).wf(), old(context).ready(),
                 old(self).alldec(old(context).assignments.state@) && (old(self).mode is AllDecision ==> old(self).to_process_heap.present@.len() == 0),   // @C05 a core is made of decisions only
        ensures forall|a: Asg| #![trigger (old(context).model@)(a)] (old(context).model@)(a) && seq_holds(r.predicates@, a) ==> old(self).cur_holds(a),
    { unimplemented!() }
}
pub trait ConflictResolver {
    // @C07 @C02 the learned nogood is refuted by the model: adding it removes no solution
    fn resolve_conflict(&mut self, context: &mut ConflictAnalysisContext) -> (r: Option<LearnedNogood>)
        requires old(context).ready(), implied_ok(old(context).assignments.state@, old(context).model@),
        ensures r matches Some(n) ==> forall|a: Asg| #![trigger (old(context).model@)(a)] (old(context).model@)(a) ==> !seq_holds(n.predicates@, a);
}

//@@EXTRACT helpers@@
//@@EXTRACT rc@@
} // verus!
fn main() {}
