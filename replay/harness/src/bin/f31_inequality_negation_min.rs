//! F31 (C09/C16): Inequality::negation computes `-self.rhs - 1` in i32; for rhs = i32::MIN this overflows.
//! Exit 1 = reproduced.
use pumpkin_solver::constraints;
use pumpkin_solver::constraints::NegatableConstraint;
use pumpkin_solver::results::solution_iterator::IteratedSolution;
use pumpkin_solver::results::ProblemSolution;
use pumpkin_solver::termination::Indefinite;
use pumpkin_solver::variables::TransformableVariable;
use pumpkin_solver::Solver;

fn main() {
    let r = std::panic::catch_unwind(|| {
        let mut solver = Solver::default();
        let x = solver.new_bounded_integer(-2, 1);
        let l = solver.new_literal();
        // l <-> (x <= i32::MIN)
        if solver.add_constraint(constraints::less_than_or_equals(vec![x.scaled(1)], i32::MIN)).reify(l).is_err() {
            return Err("reported infeasible at the root".to_string());
        }
        let mut brancher = solver.default_brancher();
        let mut termination = Indefinite;
        let mut it = solver.get_solution_iterator(&mut brancher, &mut termination);
        let mut sols = vec![];
        loop {
            match it.next_solution() {
                IteratedSolution::Solution(s, _, _) => sols.push((s.get_integer_value(x), s.get_literal_value(l))),
                _ => break,
            }
            if sols.len() > 20 { break; }
        }
        sols.sort();
        let expected: Vec<(i32, bool)> = (0..4).map(|k| (-2 + k, false)).collect();
        if sols == expected { Ok(format!("{sols:?}")) } else { Err(format!("solutions {sols:?}, expected {expected:?}")) }
    });
    let what = "x in [-2, 1], l <-> (x <= i32::MIN)  (l must be false, 4 solutions)";
    match r {
        Ok(Ok(s)) => println!("ok: {s}"),
        Ok(Err(e)) => { println!("REPRODUCED: {what}: {e}"); std::process::exit(1); }
        Err(_) => { println!("REPRODUCED: {what}: panic (arithmetic overflow in Inequality::negation)"); std::process::exit(1); }
    }
}
