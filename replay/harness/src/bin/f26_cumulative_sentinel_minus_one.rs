//! F26 (C08): create_time_table_from_events (TimeTableOverInterval) uses -1 for "no profile is open"; a mandatory part
//! that starts at time -1 is indistinguishable from that, the next event re-initialises the profile with a negative
//! usage.  Negative start times are admitted.  Exit 1 = reproduced.
use pumpkin_solver::constraints;
use pumpkin_solver::options::CumulativeExplanationType;
use pumpkin_solver::options::CumulativeOptions;
use pumpkin_solver::options::CumulativePropagationMethod;
use pumpkin_solver::results::solution_iterator::IteratedSolution;
use pumpkin_solver::termination::Indefinite;
use pumpkin_solver::Solver;

fn count(method: CumulativePropagationMethod, shift: i32) -> Result<usize, ()> {
    std::panic::catch_unwind(move || {
        let mut solver = Solver::default();
        // a: fixed at -1 + shift, duration 2, usage 1;  b: start in [-1 + shift, 2 + shift], duration 1, usage 1; capacity 1
        let a = solver.new_bounded_integer(-1 + shift, -1 + shift);
        let b = solver.new_bounded_integer(-1 + shift, 2 + shift);
        let opts = CumulativeOptions::new(false, CumulativeExplanationType::Naive, false, method, false);
        if solver.add_constraint(constraints::cumulative_with_options(vec![a, b], vec![2, 1], vec![1, 1], 1, opts)).post().is_err() {
            return 0;
        }
        let mut brancher = solver.default_brancher();
        let mut termination = Indefinite;
        let mut it = solver.get_solution_iterator(&mut brancher, &mut termination);
        let mut n = 0;
        loop {
            match it.next_solution() {
                IteratedSolution::Solution(..) => n += 1,
                _ => break,
            }
            if n > 100 { break; }
        }
        n
    }).map_err(|_| ())
}

fn main() {
    // b may not start at -1 or 0 (a runs in [-1, 1)): 2 solutions (b = 1, b = 2); the same instance shifted by +10 as control
    let mut failed = false;
    for (name, m) in [("time-table-per-point", CumulativePropagationMethod::TimeTablePerPoint), ("time-table-over-interval", CumulativePropagationMethod::TimeTableOverInterval)] {
        let shifted = count(m, 10);
        let at_minus_one = count(m, 0);
        if shifted == Ok(2) && at_minus_one == Ok(2) {
            println!("ok [{name}]: 2 solutions with the mandatory part starting at 9 and at -1");
        } else {
            println!("REPRODUCED [{name}]: a fixed at -1 (duration 2), b in [-1, 2] (duration 1), capacity 1: {at_minus_one:?} solutions (Err = panic), the same instance shifted by 10: {shifted:?}; expected 2");
            failed = true;
        }
    }
    if failed { std::process::exit(1); }
}
