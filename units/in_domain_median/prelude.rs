#![feature(allocator_api)]
use vstd::prelude::*;
//@@SPEC macros.rs@@
//@@EXTRACT macro_predicate@@
verus! {
#[derive(Clone, Copy, PartialEq, Eq, Structural)]
pub struct DomainId { pub id: u32 }
#[derive(Clone, Copy, PartialEq, Eq, Structural)]
pub enum Predicate {
    LowerBound { domain_id: DomainId, lower_bound: i32 },
    UpperBound { domain_id: DomainId, upper_bound: i32 },
    NotEqual { domain_id: DomainId, not_equal_constant: i32 },
    Equal { domain_id: DomainId, equality_constant: i32 },
}
impl DomainId {
    #[verifier::external_body]
    pub fn lower_bound_predicate(&self, bound: i32) -> (p: Predicate) ensures p == (Predicate::LowerBound { domain_id: *self, lower_bound: bound }) { unimplemented!() }
    #[verifier::external_body]
    pub fn upper_bound_predicate(&self, bound: i32) -> (p: Predicate) ensures p == (Predicate::UpperBound { domain_id: *self, upper_bound: bound }) { unimplemented!() }
    #[verifier::external_body]
    pub fn equality_predicate(&self, bound: i32) -> (p: Predicate) ensures p == (Predicate::Equal { domain_id: *self, equality_constant: bound }) { unimplemented!() }
    #[verifier::external_body]
    pub fn disequality_predicate(&self, bound: i32) -> (p: Predicate) ensures p == (Predicate::NotEqual { domain_id: *self, not_equal_constant: bound }) { unimplemented!() }
}
// the domain of a variable: a set of values whose smallest and largest members are its bounds
pub struct SelectionContext { pub dom: Ghost<Map<int, Set<int>>>, pub lb: Ghost<Map<int, int>>, pub ub: Ghost<Map<int, int>> }
impl SelectionContext {
    pub open spec fn wf(&self, v: DomainId) -> bool {
        let d = self.dom@[v.id as int]; let l = self.lb@[v.id as int]; let u = self.ub@[v.id as int];
        &&& d.contains(l) && d.contains(u) && l <= u
        &&& forall|x: int| #![trigger d.contains(x)] d.contains(x) ==> l <= x <= u
        &&& -0x4000_0000 <= l && u <= 0x4000_0000
    }
    #[verifier::external_body]
    pub fn lower_bound(&self, v: DomainId) -> (r: i32) ensures r == self.lb@[v.id as int] { unimplemented!() }
    #[verifier::external_body]
    pub fn upper_bound(&self, v: DomainId) -> (r: i32) ensures r == self.ub@[v.id as int] { unimplemented!() }
    #[verifier::external_body]
    pub fn contains(&self, v: DomainId, value: i32) -> (r: bool) ensures r == self.dom@[v.id as int].contains(value as int) { unimplemented!() }
    #[verifier::external_body]
    pub fn get_size_of_domain(&self, v: DomainId) -> (r: i32) ensures r == self.ub@[v.id as int] - self.lb@[v.id as int] { unimplemented!() }
}
pub type Var = DomainId;
pub struct RandomStub { pub x: u8 }
impl RandomStub {
    #[verifier::external_body]
    pub fn generate_usize_in_range(&mut self, range: core::ops::Range<usize>) -> (r: usize) requires range.start < range.end ensures range.start <= r < range.end { unimplemented!() }
}
impl SelectionContext {
    #[verifier::external_body]
    pub fn random(&mut self) -> (r: &mut RandomStub) ensures *final(self) == *old(self) { unimplemented!() }
}
pub struct InDomainMedian;
pub struct OutDomainMedian;
pub struct InDomainRandom;
pub struct OutDomainRandom;
pub open spec fn picks_member(context: &SelectionContext, v: DomainId, r: Predicate, equality: bool) -> bool {
    if equality { r matches Predicate::Equal { domain_id, equality_constant } && domain_id == v && context.dom@[v.id as int].contains(equality_constant as int) }
    else { r matches Predicate::NotEqual { domain_id, not_equal_constant } && domain_id == v && context.dom@[v.id as int].contains(not_equal_constant as int) }
}
pub trait ValueSelector {
    spec fn equality(&self) -> bool;
    // @C18 @C10 the value in the decision is in the domain of the unfixed variable: [x == v] can still become true, [x != v] can still become false
    fn select_value(&mut self, context: &mut SelectionContext, decision_variable: DomainId) -> (r: Predicate)
        requires old(context).wf(decision_variable), old(context).lb@[decision_variable.id as int] < old(context).ub@[decision_variable.id as int],
        ensures picks_member(old(context), decision_variable, r, old(self).equality()), *final(context) == *old(context);
}
impl ValueSelector for InDomainMedian {
    open spec fn equality(&self) -> bool { true }
//@@EXTRACT idm@@
}
impl ValueSelector for OutDomainMedian {
    open spec fn equality(&self) -> bool { false }
//@@EXTRACT odm@@
}
impl ValueSelector for InDomainRandom {
    open spec fn equality(&self) -> bool { true }
//@@EXTRACT idr@@
}
impl ValueSelector for OutDomainRandom {
    open spec fn equality(&self) -> bool { false }
//@@EXTRACT odr@@
}
} // verus!
fn main() {}
