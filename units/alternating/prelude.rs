#![feature(allocator_api)]
use vstd::prelude::*;
//@@SPEC macros.rs@@
verus! {
#[derive(Clone, Copy, PartialEq, Eq, Structural)]
pub struct DomainId { pub id: u32 }
#[derive(Clone, Copy, PartialEq, Eq, Structural)]
pub struct Predicate { pub code: u64 }
pub struct Assignments { pub state: Ghost<int> }
#[derive(Clone, Copy)]
pub struct SolutionReference<'a> { pub assignments: &'a Assignments }
pub struct SelectionContext<'a> { pub assignments: &'a Assignments, pub random: Ghost<int> }
// "the predicate is neither true nor false under the current domains"
pub uninterp spec fn undecided(state: int, p: Predicate) -> bool;

// what a brancher can be told by the solver
pub enum Ev {
    Conflict,
    Backtrack,
    Solution(int),
    Unassign(DomainId, i32),
    Appearance(Predicate),
    Synchronise(int),
}
pub trait Brancher {
    // the events this brancher has been told about, in order (ghost)
    spec fn seen(&self) -> Seq<Ev>;
    // what it proposes in a given solver state
    spec fn proposal(&self, state: int, random: int) -> Option<Predicate>;

    fn next_decision(&mut self, context: &mut SelectionContext) -> (r: Option<Predicate>)
        ensures
            final(self).seen() == old(self).seen(),
            r == old(self).proposal(old(context).assignments.state@, old(context).random@),
            final(context).assignments == old(context).assignments,
            // @C18 a proposal is undecided
            r matches Some(p) ==> undecided(old(context).assignments.state@, p);
    fn on_conflict(&mut self)
        ensures final(self).seen() == old(self).seen().push(Ev::Conflict);
    fn on_backtrack(&mut self)
        ensures final(self).seen() == old(self).seen().push(Ev::Backtrack);
    fn on_solution(&mut self, solution: SolutionReference)
        ensures final(self).seen() == old(self).seen().push(Ev::Solution(solution.assignments.state@));
    fn on_unassign_integer(&mut self, variable: DomainId, value: i32)
        ensures final(self).seen() == old(self).seen().push(Ev::Unassign(variable, value));
    fn on_appearance_in_conflict_predicate(&mut self, predicate: Predicate)
        ensures final(self).seen() == old(self).seen().push(Ev::Appearance(predicate));
    fn on_restart(&mut self)
        ensures final(self).seen() == old(self).seen();
    fn synchronise(&mut self, assignments: &Assignments)
        ensures final(self).seen() == old(self).seen().push(Ev::Synchronise(assignments.state@));
    fn is_restart_pointless(&mut self) -> (r: bool)
        ensures final(self).seen() == old(self).seen();
}
// the solver's default brancher: an opaque implementor of the protocol
pub struct DefaultBrancher { pub log: Ghost<Seq<Ev>>, pub policy: Ghost<spec_fn(Seq<Ev>, int, int) -> Option<Predicate>> }
impl Brancher for DefaultBrancher {
    open spec fn seen(&self) -> Seq<Ev> { self.log@ }
    open spec fn proposal(&self, state: int, random: int) -> Option<Predicate> { (self.policy@)(self.log@, state, random) }
    #[verifier::external_body] fn next_decision(&mut self, context: &mut SelectionContext) -> (r: Option<Predicate>) { unimplemented!() }
    #[verifier::external_body] fn on_conflict(&mut self) { unimplemented!() }
    #[verifier::external_body] fn on_backtrack(&mut self) { unimplemented!() }
    #[verifier::external_body] fn on_solution(&mut self, solution: SolutionReference) { unimplemented!() }
    #[verifier::external_body] fn on_unassign_integer(&mut self, variable: DomainId, value: i32) { unimplemented!() }
    #[verifier::external_body] fn on_appearance_in_conflict_predicate(&mut self, predicate: Predicate) { unimplemented!() }
    #[verifier::external_body] fn on_restart(&mut self) { unimplemented!() }
    #[verifier::external_body] fn synchronise(&mut self, assignments: &Assignments) { unimplemented!() }
    #[verifier::external_body] fn is_restart_pointless(&mut self) -> (r: bool) { unimplemented!() }
}

#[derive(Clone, Copy, PartialEq, Eq, Structural)]
//@@EXTRACT s_strategy@@
//@@EXTRACT s_alt@@

impl<OtherBrancher: Brancher> AlternatingBrancher<OtherBrancher> {
    // the other brancher is out of the game for good
    pub open spec fn retired(&self) -> bool {
        self.strategy == AlternatingStrategy::SwitchToDefaultAfterFirstSolution && self.is_using_default_brancher
    }
    // @C18 the event `e` has reached the default brancher, and the other brancher unless it is retired (by then)
    pub open spec fn told(&self, before: &Self, e: Ev) -> bool {
        &&& self.default_brancher.seen() == before.default_brancher.seen().push(e)
        &&& !self.retired() ==> self.other_brancher.seen() == before.other_brancher.seen().push(e)
        &&& self.retired() ==> self.other_brancher.seen() == before.other_brancher.seen()
        &&& self.strategy == before.strategy
    }
    pub open spec fn same_logs(&self, before: &Self) -> bool {
        self.default_brancher.seen() == before.default_brancher.seen() && self.other_brancher.seen() == before.other_brancher.seen() && self.strategy == before.strategy
    }
//@@EXTRACT alt0@@
}
impl<OtherBrancher: Brancher> Brancher for AlternatingBrancher<OtherBrancher> {
    // the composite has "seen" what its default brancher has seen
    open spec fn seen(&self) -> Seq<Ev> { self.default_brancher.seen() }
    open spec fn proposal(&self, state: int, random: int) -> Option<Predicate> {
        let use_default = if self.has_considered_restart && self.strategy == AlternatingStrategy::EveryRestart { !self.is_using_default_brancher } else { self.is_using_default_brancher };
        if use_default { self.default_brancher.proposal(state, random) } else { self.other_brancher.proposal(state, random) }
    }
//@@IFMISSING alt::on_appearance_in_conflict_predicate@@ fn on_appearance_in_conflict_predicate(&mut self, predicate: Predicate) {}
//@@IFMISSING alt::on_conflict@@ fn on_conflict(&mut self) {}
//@@IFMISSING alt::on_solution@@ fn on_solution(&mut self, solution: SolutionReference) {}
//@@IFMISSING alt::on_unassign_integer@@ fn on_unassign_integer(&mut self, variable: DomainId, value: i32) {}
//@@IFMISSING alt::on_backtrack@@ fn on_backtrack(&mut self) {}
//@@IFMISSING alt::synchronise@@ fn synchronise(&mut self, assignments: &Assignments) {}
//@@IFMISSING alt::on_restart@@ fn on_restart(&mut self) {}
//@@IFMISSING alt::is_restart_pointless@@ fn is_restart_pointless(&mut self) -> (r: bool) { false }
//@@EXTRACT alt@@
}
} // verus!
fn main() {}
