//! F27 (C08/C01): the incremental over-interval time-table (the DEFAULT cumulative propagator) inserts a new, non-overlapping
//! mandatory part as a profile without comparing it with the capacity: a task that by itself needs more than the capacity
//! is accepted whenever its mandatory part is added incrementally.  Exit 1 = reproduced.
use pumpkin_solver::constraints;
use pumpkin_solver::options::CumulativeExplanationType;
use pumpkin_solver::options::CumulativeOptions;
use pumpkin_solver::options::CumulativePropagationMethod;
use pumpkin_solver::results::solution_iterator::IteratedSolution;
use pumpkin_solver::termination::Indefinite;
use pumpkin_solver::Solver;

fn count(method: CumulativePropagationMethod) -> Result<usize, ()> {
    std::panic::catch_unwind(move || {
        let mut solver = Solver::default();
        // one task: start in [0, 3], duration 1, usage 2; capacity 1  => no solution
        let a = solver.new_bounded_integer(0, 3);
        let opts = CumulativeOptions::new(false, CumulativeExplanationType::Naive, false, method, false);
        if solver.add_constraint(constraints::cumulative_with_options(vec![a], vec![1], vec![2], 1, opts)).post().is_err() {
            return 0;
        }
        let mut brancher = solver.default_brancher();
        let mut termination = Indefinite;
        let mut it = solver.get_solution_iterator(&mut brancher, &mut termination);
        let mut n = 0;
        loop {
            match it.next_solution() {
                IteratedSolution::Solution(..) => n += 1,
                _ => break,
            }
            if n > 100 { break; }
        }
        n
    }).map_err(|_| ())
}

fn main() {
    let mut failed = false;
    for (name, m) in [("time-table-over-interval", CumulativePropagationMethod::TimeTableOverInterval),
                      ("time-table-over-interval-incremental (default)", CumulativePropagationMethod::TimeTableOverIntervalIncremental),
                      ("time-table-over-interval-incremental-synchronised", CumulativePropagationMethod::TimeTableOverIntervalIncrementalSynchronised)] {
        let n = count(m);
        if n == Ok(0) {
            println!("ok [{name}]: no solution");
        } else {
            println!("REPRODUCED [{name}]: one task, start in [0, 3], duration 1, usage 2, capacity 1: {n:?} solutions enumerated, expected 0");
            failed = true;
        }
    }
    if failed { std::process::exit(1); }
}
