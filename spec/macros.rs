// E3/E4: always-on assertion macros stay obligations ("cannot panic"); debug-only ones (active only under
// cfg(test) / feature debug-checks) and logging expand to nothing.
macro_rules! pumpkin_assert_simple { ($cond:expr $(, $($arg:tt)*)?) => { assert!($cond) } }
macro_rules! pumpkin_assert_eq_simple { ($a:expr, $b:expr $(, $($arg:tt)*)?) => { assert!($a == $b) } }
macro_rules! pumpkin_assert_ne_simple { ($a:expr, $b:expr $(, $($arg:tt)*)?) => { assert!($a != $b) } }
macro_rules! pumpkin_assert_moderate { ($($arg:tt)*) => { } }
macro_rules! pumpkin_assert_ne_moderate { ($($arg:tt)*) => { } }
macro_rules! pumpkin_assert_advanced { ($($arg:tt)*) => { } }
macro_rules! pumpkin_assert_extreme { ($($arg:tt)*) => { } }
macro_rules! info { ($($arg:tt)*) => { } }
macro_rules! warn { ($($arg:tt)*) => { } }
macro_rules! debug { ($($arg:tt)*) => { } }
macro_rules! trace { ($($arg:tt)*) => { } }
macro_rules! println { ($($arg:tt)*) => { } }
