// Meaning of an over-interval time-table (shared by the units tt_insert and tt_remove): definitions only.
pub type OverIntervalTimeTableType<Var> = Vec<ResourceProfile<Var>>;
pub type TT<Var> = Seq<ResourceProfile<Var>>;

// ---- meaning: a time-table is a sequence of rectangles; its height at a time point is the sum of the heights of
// the rectangles that cover the point (for a disjoint table: the height of the one that covers it, or 0) ----
pub open spec fn covers<Var>(p: ResourceProfile<Var>, t: int) -> bool { p.start <= t <= p.end }
pub open spec fn ht<Var>(tt: TT<Var>, t: int) -> int
    decreases tt.len()
{
    if tt.len() == 0 { 0 } else { ht(tt.drop_last(), t) + (if covers(tt.last(), t) { tt.last().height as int } else { 0 }) }
}
// sorted by time, pairwise disjoint, non-empty rectangles strictly inside the i32 range (A-TIMES)
pub open spec fn wf<Var>(tt: TT<Var>) -> bool {
    &&& forall|i: int| #![trigger tt[i]] 0 <= i < tt.len() ==> i32::MIN < tt[i].start <= tt[i].end < i32::MAX
    &&& forall|i: int, j: int| #![trigger tt[i], tt[j]] 0 <= i < j < tt.len() ==> tt[i].end < tt[j].start
}
// every rectangle of `d` lies inside [lo, hi]
pub open spec fn within<Var>(d: TT<Var>, lo: int, hi: int) -> bool {
    forall|k: int| #![trigger d[k]] 0 <= k < d.len() ==> lo <= d[k].start && d[k].end <= hi
}
pub open spec fn in_part(ur: Range<i32>, t: int) -> bool { ur.start <= t < ur.end }
// `new` extends `old` by rectangles inside [lo, hi] whose height there is `base` plus the usage inside the added part
pub open spec fn extends_by<Var>(old_s: TT<Var>, new_s: TT<Var>, lo: int, hi: int, ur: Range<i32>, base: int, usage: int) -> bool {
    &&& old_s.len() <= new_s.len()
    &&& new_s.subrange(0, old_s.len() as int) == old_s
    &&& ({ let d = new_s.subrange(old_s.len() as int, new_s.len() as int);
           &&& wf(d)
           &&& within(d, lo, hi)
           &&& forall|t: int| #![trigger ht(d, t)] lo <= t <= hi ==> ht(d, t) == base + (if in_part(ur, t) { usage } else { 0 }) })
}
pub open spec fn overlaps<Var>(p: ResourceProfile<Var>, ur: Range<i32>) -> bool { p.start < ur.end && ur.start <= p.end }
// the left end of the region touched by an insertion, and how far the accumulation has got before profile `c`
pub open spec fn lo0<Var>(tt: TT<Var>, s: int, ur: Range<i32>) -> int { if ur.start <= tt[s].start { ur.start as int } else { tt[s].start as int } }
pub open spec fn frontier<Var>(tt: TT<Var>, s: int, e: int, c: int, ur: Range<i32>) -> int {
    if c == s { lo0(tt, s, ur) - 1 } else if c <= e { tt[c - 1].end as int } else if tt[e].end >= ur.end - 1 { tt[e].end as int } else { ur.end - 1 }
}
pub open spec fn conflict_of<Var>(p: ResourceProfile<Var>, ur: Range<i32>, usage: int, capacity: int, c: ResourceProfile<Var>) -> bool {
    p.height + usage > capacity && c.height == p.height + usage && c.start == spec_max(p.start, ur.start) && c.end == spec_min(p.end, (ur.end - 1) as i32)
}
pub open spec fn ins_pre<Var>(tt: TT<Var>, s: int, e: int, ur: Range<i32>, usage: int) -> bool {
    &&& wf(tt) && 0 <= s <= e < tt.len()
    &&& i32::MIN < ur.start < ur.end
    // A-OVERLAP: s..=e are exactly the profiles that overlap the added part
    &&& forall|i: int| #![trigger tt[i]] s <= i <= e ==> overlaps(tt[i], ur)
    &&& (s > 0 ==> tt[s - 1].end < ur.start)
    &&& (e + 1 < tt.len() ==> tt[e + 1].start >= ur.end)
    // A-TIMES (heights)
    &&& forall|i: int| #![trigger tt[i]] s <= i <= e ==> i32::MIN <= tt[i].height + usage <= i32::MAX
}
// what has been accumulated in `to_add` before profile `c` is looked at
pub open spec fn acc<Var>(to_add: TT<Var>, tt: TT<Var>, s: int, e: int, c: int, ur: Range<i32>, usage: int) -> bool {
    &&& wf(to_add)
    &&& within(to_add, lo0(tt, s, ur), frontier(tt, s, e, c, ur))
    &&& forall|t: int| #![trigger ht(to_add, t)] ht(to_add, t) == ht(tt.subrange(s, c), t)
            + (if lo0(tt, s, ur) <= t <= frontier(tt, s, e, c, ur) && in_part(ur, t) { usage } else { 0 })
}
