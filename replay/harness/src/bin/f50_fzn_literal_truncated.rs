//! F50 (C13, C16): integer literals in constraint arguments were converted with `as i32`: `int_le(x, 4294967297)` was
//! compiled as x <= 1 and 9 of the 11 solutions were lost.  A literal outside the i32 range is now rejected with
//! `integer too big`, as in declarations.  Exit 1 = reproduced.
use std::io::Write;
use std::process::Command;

fn run(name: &str, model: &str, args: &[&str]) -> (String, String) {
    let repo = std::env::var("PUMPKIN_REPO").unwrap_or_else(|_| "/repo".into());
    let target = std::env::var("CARGO_TARGET_DIR").unwrap_or_else(|_| "/tmp/pumpkin-verif-scratch/replay-target".into());
    let path = std::env::temp_dir().join(name);
    std::fs::File::create(&path).unwrap().write_all(model.as_bytes()).unwrap();
    let out = Command::new("cargo")
        .args(["run", "--offline", "-q", "--manifest-path", &format!("{repo}/Cargo.toml"), "-p", "pumpkin-solver", "--bin", "pumpkin-solver", "--"])
        .args(args).arg(&path)
        .env("CARGO_TARGET_DIR", format!("{target}-bin")).env("RUST_BACKTRACE", "0")
        .output().expect("cannot run cargo");
    (String::from_utf8_lossy(&out.stdout).to_string(), String::from_utf8_lossy(&out.stderr).to_string())
}


fn main() {
    let (so, se) = run("pv_f50.fzn", "var 0..10: x :: output_var;\nconstraint int_le(x, 4294967297);\nsolve satisfy;\n", &["-a"]);
    let n = so.lines().filter(|l| l.starts_with("----------")).count();
    let rejected = so.lines().chain(se.lines()).any(|l| l.contains("integer too big"));
    println!("var 0..10: x; int_le(x, 4294967297) with -a: {n} solutions printed, rejected as too big: {rejected}");
    if n == 11 || (n == 0 && rejected) { println!("ok: every solution or a clean rejection"); }
    else { println!("REPRODUCED: the literal was truncated, solutions are lost"); std::process::exit(1); }
}
