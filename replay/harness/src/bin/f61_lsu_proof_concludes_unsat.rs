//! F61 (C06): linear SAT-UNSAT adds its last strengthening bound `objective <= best - 1` with add_clause.  When that
//! clause is not false at the root by itself but root propagation after adding it finds the conflict, add_nogood
//! writes the empty nogood and add_clause itself concludes the proof with `c UNSAT` (conclude_proof_unsat); the later
//! conclude_proof_optimal finds the proof log taken and writes nothing.  The proof of a SATISFIABLE optimisation
//! model (optimum 1) ends in `c UNSAT`.  Exit 1 = reproduced.
use std::num::NonZero;
use pumpkin_solver::constraints;
use pumpkin_solver::optimisation::linear_sat_unsat::LinearSatUnsat;
use pumpkin_solver::optimisation::OptimisationDirection;
use pumpkin_solver::options::SolverOptions;
use pumpkin_solver::proof::ProofLog;
use pumpkin_solver::results::OptimisationResult;
use pumpkin_solver::results::ProblemSolution;
use pumpkin_solver::results::SolutionReference;
use pumpkin_solver::termination::Indefinite;
use pumpkin_solver::variables::TransformableVariable;
use pumpkin_solver::DefaultBrancher;
use pumpkin_solver::Solver;

fn main() {
    let path = std::env::temp_dir().join("pv_f61.drcp");
    let _ = std::fs::remove_file(&path);
    {
        let mut s = Solver::with_options(SolverOptions { proof_log: ProofLog::cp(&path, drcp_format::Format::Text, true, false).unwrap(), ..Default::default() });
        let x = s.new_named_bounded_integer(0, 1, "x");
        let y = s.new_named_bounded_integer(0, 1, "y");
        let z = s.new_named_bounded_integer(0, 2, "z");
        s.add_constraint(constraints::binary_not_equals(x, y)).with_tag(NonZero::new(1).unwrap()).post().unwrap();
        s.add_constraint(constraints::equals([x.scaled(1), y.scaled(1), z.scaled(-1)], 0)).with_tag(NonZero::new(2).unwrap()).post().unwrap();
        let mut b = s.default_brancher();
        let cb: fn(&Solver, SolutionReference, &DefaultBrancher) = |_, _, _| {};
        match s.optimise(&mut b, &mut Indefinite, LinearSatUnsat::new(OptimisationDirection::Minimise, z, cb)) {
            OptimisationResult::Optimal(sol) => println!("x != y, z = x + y, minimise z: Optimal(z = {})", sol.get_integer_value(z)),
            _ => println!("minimise z: not Optimal"),
        }
    }
    let proof = std::fs::read_to_string(&path).unwrap_or_default();
    let conclusion = proof.lines().filter(|l| l.starts_with("c ")).last().unwrap_or("<no conclusion line>").to_string();
    println!("the proof's conclusion line: `{conclusion}`");
    if conclusion.trim() == "c UNSAT" {
        println!("REPRODUCED: the proof of a satisfiable optimisation model concludes UNSAT");
        std::process::exit(1);
    }
    println!("ok: the proof ends with an optimality conclusion");
}
