use vstd::prelude::*;
//@@SPEC macros.rs@@
verus! {
//@@SPEC vocab.rs@@
//@@SPEC contracts/integer_variable_consumer.rs@@
//@@SPEC prop_ctx.rs@@
broadcast use {conv_axioms::axiom_from_empty_domain, seq_lemmas::lemma_seq_holds_push};

impl PropositionalConjunction {
    // real text: `self.predicates_in_conjunction.push(predicate)`
    pub fn add(&mut self, predicate: Predicate)
        ensures final(self).predicates_in_conjunction@ == old(self).predicates_in_conjunction@.push(predicate)
    { self.predicates_in_conjunction.push(predicate) }
}

// a 0/1 variable; true <=> value >= 1
#[derive(Clone, Copy)]
pub struct Literal { pub id: u32 }
impl IntegerVariable for Literal {
    uninterp spec fn eval(&self, a: Asg) -> int;
    #[verifier::external_body] fn lower_bound_predicate(&self, bound: i32) -> (p: Predicate) { unimplemented!() }
    #[verifier::external_body] fn upper_bound_predicate(&self, bound: i32) -> (p: Predicate) { unimplemented!() }
    #[verifier::external_body] fn equality_predicate(&self, bound: i32) -> (p: Predicate) { unimplemented!() }
    #[verifier::external_body] fn disequality_predicate(&self, bound: i32) -> (p: Predicate) { unimplemented!() }
}
pub open spec fn lit_true(l: Literal, a: Asg) -> bool { l.eval(a) >= 1 }
impl Literal {
    // real text: `self.lower_bound_predicate(1)`
    pub fn get_true_predicate(&self) -> (p: Predicate)
        ensures forall|a: Asg| #[trigger] pred_holds(p, a) <==> lit_true(*self, a)
    { self.lower_bound_predicate(1) }
}

// read-only view handed to detect_inconsistency / notify
pub struct StatefulPropagationContext<'a> { pub assignments: &'a Assignments }
impl<'a> StatefulPropagationContext<'a> {
    pub open spec fn live(&self) -> Live { self.assignments.live@ }
}

impl<'a> PropagationContext<'a> {
    #[verifier::external_body]
    pub fn is_literal_false(&self, literal: &Literal) -> (r: bool)
        ensures r ==> forall|a: Asg| #![trigger (self.assignments.live@)(a)] (self.assignments.live@)(a) ==> !lit_true(*literal, a)
    { unimplemented!() }
    #[verifier::external_body]
    pub fn is_literal_true(&self, literal: &Literal) -> (r: bool)
        ensures r ==> forall|a: Asg| #![trigger (self.assignments.live@)(a)] (self.assignments.live@)(a) ==> lit_true(*literal, a)
    { unimplemented!() }
}
impl<'a> PropagationContextMut<'a> {
    #[verifier::external_body]
    pub fn as_stateful_readonly(&mut self) -> (r: StatefulPropagationContext<'_>)
        ensures r.live() == old(self).live(), final(self).constraint == old(self).constraint, final(self).reified == old(self).reified,
                *final(self).assignments == *old(self).assignments, *final(final(self).assignments) == *final(old(self).assignments),
    { unimplemented!() }

    #[verifier::external_body]
    pub fn is_literal_true(&self, literal: &Literal) -> (r: bool)
        ensures r ==> forall|a: Asg| #![trigger (self.live())(a)] (self.live())(a) ==> lit_true(*literal, a)
    { unimplemented!() }
    #[verifier::external_body]
    pub fn is_literal_false(&self, literal: &Literal) -> (r: bool)
        ensures r ==> forall|a: Asg| #![trigger (self.live())(a)] (self.live())(a) ==> !lit_true(*literal, a)
    { unimplemented!() }
    #[verifier::external_body]
    pub fn is_literal_fixed(&self, literal: &Literal) -> (r: bool)
    { unimplemented!() }

    // real text: match truth_value { true => set_lower_bound(boolean, 1, reason), false => set_upper_bound(boolean, 0, reason) }
    pub fn assign_literal<R: ReasonLike>(&mut self, boolean: &Literal, truth_value: bool, reason: R) -> (r: Result<(), EmptyDomain>)
        requires
            // @C17 @C09 (a) the reason holds in the current state
            forall|a: Asg| #![trigger (old(self).live())(a)] (old(self).live())(a) ==> reason.holds(a),
            // @C17 @C09 @C02 (b) constraint and reason imply the literal's value
            forall|a: Asg| #![trigger reason.holds(a)] (old(self).constraint@)(a) && reason.holds(a) ==> (lit_true(*boolean, a) == truth_value),
        ensures
            final(self).constraint == old(self).constraint, final(self).reified == old(self).reified,
            prop_monotone(old(self).live(), final(self).live()),
            *final(final(self).assignments) == *final(old(self).assignments),
            r is Err ==> live_empty(final(self).live()),
            !live_empty(old(self).live()) && live_empty(final(self).live()) ==> r is Err,
            prop_sound(old(self).live(), final(self).live(), old(self).constraint@),
    {
        match truth_value {
            true => self.set_lower_bound(boolean, 1, reason),
            false => self.set_upper_bound(boolean, 0, reason),
        }
    }

    // Reification: from now on every explanation is extended with [r]; semantically the constraint this context
    // enforces becomes (constraint /\ r).  The always-on assertion (not already reified) is modelled by the ghost flag.
    #[verifier::external_body]
    pub fn with_reification(&mut self, reification_literal: Literal)
        requires
            !old(self).reified@,       // @C09 @C10 the always-on assertion
            // @C09 @C17 the appended literal must hold in the current state (a stored reason must hold when given)
            forall|a: Asg| #![trigger (old(self).live())(a)] (old(self).live())(a) ==> lit_true(reification_literal, a),
        ensures
            final(self).reified@,
            forall|a: Asg| #[trigger] (final(self).constraint@)(a) <==> ((old(self).constraint@)(a) && lit_true(reification_literal, a)),
            *final(self).assignments == *old(self).assignments, *final(final(self).assignments) == *final(old(self).assignments),
    { unimplemented!() }
}

pub struct PropagatorInitialisationContext { pub x: u8 }
#[derive(Clone, Copy)]
pub struct LocalId { pub v: u32 }
impl vstd::std_specs::cmp::PartialOrdSpecImpl for LocalId {
    open spec fn obeys_partial_cmp_spec() -> bool { true }
    open spec fn partial_cmp_spec(&self, other: &LocalId) -> Option<std::cmp::Ordering> {
        if self.v < other.v { Some(std::cmp::Ordering::Less) } else if self.v == other.v { Some(std::cmp::Ordering::Equal) } else { Some(std::cmp::Ordering::Greater) }
    }
}
impl vstd::std_specs::cmp::PartialEqSpecImpl for LocalId {
    open spec fn obeys_eq_spec() -> bool { true }
    open spec fn eq_spec(&self, other: &LocalId) -> bool { self.v == other.v }
}
impl PartialEq for LocalId { fn eq(&self, other: &LocalId) -> (r: bool) { self.v == other.v } }
impl PartialOrd for LocalId {
    fn partial_cmp(&self, other: &LocalId) -> (r: Option<std::cmp::Ordering>) {
        if self.v < other.v { Some(std::cmp::Ordering::Less) } else if self.v == other.v { Some(std::cmp::Ordering::Equal) } else { Some(std::cmp::Ordering::Greater) }
    }
}
#[derive(Clone, Copy)]
pub struct OpaqueDomainEvent { pub e: u8 }

// ---- the wrapped propagator, by contract ----
pub trait Propagator {
    spec fn constraint(&self, a: Asg) -> bool;

    fn propagate(&mut self, context: PropagationContextMut) -> (r: PropagationStatusCP)
        requires forall|x: Asg| #![trigger (context.constraint@)(x)] (context.constraint@)(x) ==> old(self).constraint(x),
        ensures
            forall|a: Asg| #[trigger] final(self).constraint(a) == old(self).constraint(a),
            prop_monotone(old(context.assignments).live@, final(context.assignments).live@),
            prop_sound(old(context.assignments).live@, final(context.assignments).live@, context.constraint@),
            conflict_ok(final(context.assignments).live@, context.constraint@, r),
            err_means_infeasible(old(context.assignments).live@, context.constraint@, r),
            ok_keeps_nonempty(old(context.assignments).live@, final(context.assignments).live@, r);

    fn debug_propagate_from_scratch(&self, context: PropagationContextMut) -> (r: PropagationStatusCP)
        requires forall|x: Asg| #![trigger (context.constraint@)(x)] (context.constraint@)(x) ==> self.constraint(x),
        ensures
            prop_monotone(old(context.assignments).live@, final(context.assignments).live@),
            prop_sound(old(context.assignments).live@, final(context.assignments).live@, context.constraint@),
            conflict_ok(final(context.assignments).live@, context.constraint@, r),
            err_means_infeasible(old(context.assignments).live@, context.constraint@, r),
            ok_keeps_nonempty(old(context.assignments).live@, final(context.assignments).live@, r);

    // a conjunction that holds in the current state and contradicts the constraint
    fn detect_inconsistency(&self, context: StatefulPropagationContext) -> (r: Option<PropositionalConjunction>)
        ensures r matches Some(c) ==> valid_conflict(context.live(), |a: Asg| self.constraint(a), c);

    // the backtrack events this propagator has been told about (it is told about EVERY one for its variables: propagators
    // such as linear not-equal keep non-trailed counters that only stay right if notify and notify_backtrack pair up)
    spec fn undone(&self) -> Seq<(LocalId, OpaqueDomainEvent)>;
    fn notify_backtrack(&mut self, context: PropagationContext, local_id: LocalId, event: OpaqueDomainEvent)
        ensures forall|a: Asg| #[trigger] final(self).constraint(a) == old(self).constraint(a),
                final(self).undone() == old(self).undone().push((local_id, event));

    // lazily explained propagations (Reason::DynamicLazy): a propagator that posts them must answer lazy_explanation
    // (the default of the real trait panics: modelled by the precondition)
    spec fn uses_lazy_reasons(&self) -> bool;
    spec fn lazy_reason(&self, code: u64) -> Seq<Predicate>;
    fn lazy_explanation(&mut self, code: u64, context: ExplanationContext) -> (r: &[Predicate])
        requires old(self).uses_lazy_reasons()
        ensures r@ == old(self).lazy_reason(code);

    // the incremental state of the propagator reflects the given store (backtracking protocol: the engine calls
    // `synchronise` on every propagator after a backtrack, whatever the value of a reification literal)
    spec fn in_sync(&self, live: Live) -> bool;

    fn synchronise(&mut self, context: PropagationContext)
        ensures forall|a: Asg| #[trigger] final(self).constraint(a) == old(self).constraint(a),
                final(self).in_sync(context.assignments.live@);
}
pub struct ExplanationContext<'a> { pub assignments: &'a Assignments }
// the decision level is a function of the store identity
pub uninterp spec fn decision_level_of(state: int) -> usize;
impl Assignments {
    #[verifier::external_body]
    pub fn get_decision_level(&self) -> (r: usize) ensures r == decision_level_of(self.state@) { unimplemented!() }
}
pub open spec fn valid_conflict(live: Live, c: Model, conj: PropositionalConjunction) -> bool {
    (forall|a: Asg| #![trigger live(a)] live(a) ==> conj_holds(conj, a))
    && (forall|a: Asg| #![trigger conj_holds(conj, a)] conj_holds(conj, a) ==> !c(a))
}

pub struct ReifiedPropagator<WrappedPropagator> {
    pub propagator: WrappedPropagator,
    pub reification_literal: Literal,
    pub inconsistency: Option<PropositionalConjunction>,
    pub name: String,
    pub reification_literal_id: LocalId,
}
// meaning of the reified constraint: r -> C
pub open spec fn reified_constraint<P: Propagator>(p: &ReifiedPropagator<P>, a: Asg) -> bool {
    lit_true(p.reification_literal, a) ==> p.propagator.constraint(a)
}
// the cached inconsistency is either absent or a valid conflict of the wrapped propagator in the given state
pub open spec fn cache_valid<P: Propagator>(p: &ReifiedPropagator<P>, live: Live) -> bool {
    p.inconsistency matches Some(c) ==> valid_conflict(live, |a: Asg| p.propagator.constraint(a), c)
}

impl<WrappedPropagator: Propagator> ReifiedPropagator<WrappedPropagator> {
    // does the wrapper answer lazy_explanation itself?  (read off the repository text; without an override the
    // trait's default applies, which panics)
    pub open spec fn answers_lazy() -> bool { /*@@HAS reif_prop::lazy_explanation@@*/ }
//@@EXTRACT reif_prop@@
}
impl<Prop: Propagator> ReifiedPropagator<Prop> {
//@@EXTRACT reif_helpers@@
}
} // verus!
fn main() {}
