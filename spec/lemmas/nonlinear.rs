// Nonlinear facts used by the arithmetic propagators, as broadcast lemmas (no in-body hints needed).
pub mod nl_lemmas { use vstd::prelude::*;

pub broadcast proof fn lemma_mul_upper(x: int, y: int, xm: int, ym: int)
    requires 0 <= x <= xm, 0 <= y <= ym
    ensures #![trigger x * y, xm * ym] x * y <= xm * ym
{
    assert(x * y <= xm * ym) by(nonlinear_arith) requires 0 <= x <= xm, 0 <= y <= ym;
}
pub broadcast proof fn lemma_mul_lower(x: int, y: int, xm: int, ym: int)
    requires 0 <= xm <= x, 0 <= ym <= y
    ensures #![trigger x * y, xm * ym] x * y >= xm * ym
{
    assert(x * y >= xm * ym) by(nonlinear_arith) requires 0 <= xm <= x, 0 <= ym <= y;
}
pub broadcast proof fn lemma_mul_sign(x: int, y: int)
    ensures
        #![trigger x * y]
        (x >= 0 && y >= 0 ==> x * y >= 0),
        (x <= 0 && y <= 0 ==> x * y >= 0),
        (x >= 0 && y <= 0 ==> x * y <= 0),
        (x <= 0 && y >= 0 ==> x * y <= 0),
        (x >= 1 && y >= 1 ==> x * y >= 1),
        (x <= -1 && y <= -1 ==> x * y >= 1),
        (x >= 1 && y <= -1 ==> x * y <= -1),
        (x <= -1 && y >= 1 ==> x * y <= -1),
        (x == 0 || y == 0 ==> x * y == 0),
{
    assert((x >= 0 && y >= 0 ==> x * y >= 0) && (x <= 0 && y <= 0 ==> x * y >= 0) && (x >= 0 && y <= 0 ==> x * y <= 0) && (x <= 0 && y >= 0 ==> x * y <= 0)
      && (x >= 1 && y >= 1 ==> x * y >= 1) && (x <= -1 && y <= -1 ==> x * y >= 1) && (x >= 1 && y <= -1 ==> x * y <= -1) && (x <= -1 && y >= 1 ==> x * y <= -1) && (x == 0 || y == 0 ==> x * y == 0)) by(nonlinear_arith);
}
// the product of two i32 values fits comfortably in an i64
pub broadcast proof fn lemma_i32_product_fits_i64(x: int, y: int)
    requires -0x8000_0000 <= x <= 0x7fff_ffff, -0x8000_0000 <= y <= 0x7fff_ffff
    ensures #![trigger x * y] -0x4000_0000_0000_0000 <= x * y <= 0x4000_0000_0000_0000
{
    assert(-0x4000_0000_0000_0000 <= x * y <= 0x4000_0000_0000_0000) by(nonlinear_arith)
        requires -0x8000_0000 <= x <= 0x7fff_ffff, -0x8000_0000 <= y <= 0x7fff_ffff;
}
// multiplication by +1 / -1 (objective multipliers, negating views)
pub broadcast proof fn lemma_mul_unit(m: int, v: int)
    ensures #![trigger m * v] (m == 1 ==> m * v == v) && (m == -1 ==> m * v == -v) && (m == 0 ==> m * v == 0)
{
    assert((m == 1 ==> m * v == v) && (m == -1 ==> m * v == -v) && (m == 0 ==> m * v == 0)) by(nonlinear_arith);
}
pub broadcast proof fn lemma_mul_unit_r(v: int, m: int)
    ensures #![trigger v * m] (m == 1 ==> v * m == v) && (m == -1 ==> v * m == -v) && (m == 0 ==> v * m == 0)
{
    assert((m == 1 ==> v * m == v) && (m == -1 ==> v * m == -v) && (m == 0 ==> v * m == 0)) by(nonlinear_arith);
}
}
