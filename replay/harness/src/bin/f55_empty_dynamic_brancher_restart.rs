//! F55 (C10): DynamicBrancher::is_restart_pointless computes `self.branchers.len() - 1`; for a dynamic brancher without
//! sub-branchers this underflows (panic with overflow checks, an out-of-range slice otherwise).  Exit 1 = reproduced.
use pumpkin_solver::branching::branchers::dynamic_brancher::DynamicBrancher;
use pumpkin_solver::branching::Brancher;

fn main() {
    let r = std::panic::catch_unwind(|| { let mut brancher = DynamicBrancher::new(vec![]); brancher.is_restart_pointless() });
    match r {
        Ok(b) => println!("ok: DynamicBrancher::new(vec![]).is_restart_pointless() = {b}"),
        Err(_) => { println!("REPRODUCED: DynamicBrancher::new(vec![]).is_restart_pointless() panics"); std::process::exit(1); }
    }
}
