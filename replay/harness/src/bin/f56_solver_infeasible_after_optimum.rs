//! F56 (C10, also C04): the linear SAT-UNSAT procedure adds its bound-strengthening clauses `objective <= best - 1`
//! to the solver as ordinary clauses and never retracts them.  After `optimise` has returned `Optimal(s)` the solver is
//! permanently infeasible: a following `satisfy` on the same (satisfiable) model answers Unsatisfiable, a second
//! `optimise` answers Unsatisfiable, and creating a variable panics.  (LinearUnsatSat, which works with assumptions,
//! leaves the solver usable.)  Exit 1 = reproduced.
use pumpkin_solver::optimisation::linear_sat_unsat::LinearSatUnsat;
use pumpkin_solver::optimisation::OptimisationDirection;
use pumpkin_solver::results::OptimisationResult;
use pumpkin_solver::results::ProblemSolution;
use pumpkin_solver::results::SatisfactionResult;
use pumpkin_solver::results::SolutionReference;
use pumpkin_solver::termination::Indefinite;
use pumpkin_solver::Solver;

fn main() {
    let mut solver = Solver::default();
    let x = solver.new_bounded_integer(0, 10);
    let mut brancher = solver.default_brancher();
    fn nop<B>(_: &Solver, _: SolutionReference, _: &B) {}
    let first = solver.optimise(&mut brancher, &mut Indefinite, LinearSatUnsat::new(OptimisationDirection::Minimise, x, nop));
    let first = match first { OptimisationResult::Optimal(s) => format!("Optimal(x = {})", s.get_integer_value(x)), OptimisationResult::Unsatisfiable => "Unsatisfiable".into(), _ => "other".into() };
    let second = match solver.satisfy(&mut brancher, &mut Indefinite) {
        SatisfactionResult::Satisfiable(s) => format!("Satisfiable(x = {})", s.get_integer_value(x)),
        SatisfactionResult::Unsatisfiable => "Unsatisfiable".into(),
        SatisfactionResult::Unknown => "Unknown".into(),
    };
    let third = std::panic::catch_unwind(std::panic::AssertUnwindSafe(|| { let _ = solver.new_bounded_integer(0, 1); }));
    println!("x in [0,10]: optimise(LinearSatUnsat, Minimise x) = {first}; then satisfy() = {second}; then new_bounded_integer: {}", if third.is_ok() { "ok" } else { "panic" });
    if first == "Optimal(x = 0)" && second.starts_with("Satisfiable") && third.is_ok() {
        println!("ok: the solver is usable after the optimum");
    } else {
        println!("REPRODUCED: after Optimal the solver answers for `model + objective < optimum` (infeasible) instead of the model");
        std::process::exit(1);
    }
}
