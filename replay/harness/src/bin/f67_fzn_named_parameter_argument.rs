//! F67 (C13): a named scalar parameter as a constraint argument - `int: p = 3; constraint int_eq(x, p);` - made the
//! FlatZinc compiler panic (`no entry found for key`): resolve_integer_variable_from_identifier / resolve_bool_variable_from_identifier
//! asked for the equivalence class of the identifier first, and a parameter belongs to none (the fallback to the parameter
//! table asked again).  Exit 1 = reproduced.
use std::io::Write;
use std::process::Command;

fn run(name: &str, model: &str, args: &[&str]) -> (String, String) {
    let repo = std::env::var("PUMPKIN_REPO").unwrap_or_else(|_| "/repo".into());
    let target = std::env::var("CARGO_TARGET_DIR").unwrap_or_else(|_| "/tmp/pumpkin-verif-scratch/replay-target".into());
    let path = std::env::temp_dir().join(name);
    std::fs::File::create(&path).unwrap().write_all(model.as_bytes()).unwrap();
    let out = Command::new("cargo")
        .args(["run", "--offline", "-q", "--manifest-path", &format!("{repo}/Cargo.toml"), "-p", "pumpkin-solver", "--bin", "pumpkin-solver", "--"])
        .args(args).arg(&path)
        .env("CARGO_TARGET_DIR", format!("{target}-bin")).env("RUST_BACKTRACE", "0")
        .output().expect("cannot run cargo");
    (String::from_utf8_lossy(&out.stdout).to_string(), String::from_utf8_lossy(&out.stderr).to_string())
}


fn main() {
    let models: [(&str, &str, usize); 3] = [
        ("int: p = 3; int_eq(x, p)", "int: p = 3;\nvar 0..5: x :: output_var;\nconstraint int_eq(x, p);\nsolve satisfy;\n", 1),
        ("int: p = 3; int_le(p, x)", "int: p = 3;\nvar 0..5: x :: output_var;\nconstraint int_le(p, x);\nsolve satisfy;\n", 3),
        ("bool: b = true; bool_eq(q, b); bool_clause([r], [b])", "bool: b = true;\nvar bool: q :: output_var;\nvar bool: r :: output_var;\nconstraint bool_eq(q, b);\nconstraint bool_clause([r], [b]);\nsolve satisfy;\n", 1),
    ];
    let mut bad = 0;
    for (i, (what, model, expected)) in models.iter().enumerate() {
        let (so, se) = run(&format!("pv_f67_{i}.fzn"), model, &["-a"]);
        let n = so.lines().filter(|l| l.starts_with("----------")).count();
        let complete = so.lines().any(|l| l.starts_with("=========="));
        let panic = se.lines().find(|l| l.contains("panicked") || l.contains("no entry")).unwrap_or("");
        println!("{what} with -a: {n} solutions (expected {expected}), complete: {complete} {panic}");
        if n != *expected || !complete { bad += 1; }
    }
    if bad > 0 { println!("REPRODUCED: {bad} models with a named parameter as a constraint argument are not solved"); std::process::exit(1); }
    println!("ok: named parameters are resolved");
}
