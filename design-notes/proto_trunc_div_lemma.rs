use vstd::prelude::*;
verus! {
pub open spec fn trunc_div(a: int, b: int) -> int {
    if a >= 0 && b > 0 { a / b } else if a < 0 && b > 0 { -((-a) / b) } else if a >= 0 && b < 0 { -(a / (-b)) } else { (-a) / (-b) }
}
proof fn lemma_trunc(a: int, b: int)
    requires b != 0
    ensures ({ let d = trunc_div(a,b); let m = a - d*b;
        &&& (a >= 0 ==> 0 <= m)
        &&& (a <= 0 ==> m <= 0)
        &&& (b > 0 ==> -b < m < b)
        &&& (b < 0 ==> b < m < -b) })
{
    let d = trunc_div(a,b);
    if a >= 0 && b > 0 { vstd::arithmetic::div_mod::lemma_fundamental_div_mod(a, b); vstd::arithmetic::div_mod::lemma_mod_bound(a,b); }
    else if a < 0 && b > 0 { vstd::arithmetic::div_mod::lemma_fundamental_div_mod(-a, b); vstd::arithmetic::div_mod::lemma_mod_bound(-a,b);
        assert(a - d*b == -((-a) % b)) by(nonlinear_arith) requires d == -((-a)/b), -a == b * ((-a)/b) + (-a)%b; }
    else if a >= 0 && b < 0 { vstd::arithmetic::div_mod::lemma_fundamental_div_mod(a, -b); vstd::arithmetic::div_mod::lemma_mod_bound(a,-b);
        assert(a - d*b == (a % (-b))) by(nonlinear_arith) requires d == -(a/(-b)), a == (-b) * (a/(-b)) + a%(-b); }
    else { vstd::arithmetic::div_mod::lemma_fundamental_div_mod(-a, -b); vstd::arithmetic::div_mod::lemma_mod_bound(-a,-b);
        assert(a - d*b == -((-a) % (-b))) by(nonlinear_arith) requires d == ((-a)/(-b)), -a == (-b) * ((-a)/(-b)) + (-a)%(-b); }
}
fn div_floor(x: i32, other: i32) -> (r: i32)
    requires other != 0, !(x == i32::MIN && other == -1)
    ensures
          other > 0 ==> (r * other <= x && (r + 1) * other > x),
          other < 0 ==> (r * other >= x && (r + 1) * other < x),
{
        let d = x / other;
        let r = x % other;
        proof { lemma_trunc(x as int, other as int); assert(d == trunc_div(x as int, other as int)); assert(r == x - d * other);
           assert((d-1)*other == d*other - other) by(nonlinear_arith);
           assert((d+1)*other == d*other + other) by(nonlinear_arith);
           assert((d-1+1)*other == d*other);
        }
        if (r > 0 && other < 0) || (r < 0 && other > 0) {
            d - 1
        } else {
            d
        }
}
}
fn main(){}
