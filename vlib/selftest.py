"""Contract self-test (thorough tier): every stored mutant must make its named obligation fail."""


def run_mutants(units, pid):
    return {"problems": [], "summary": {"mutants": 0}}
