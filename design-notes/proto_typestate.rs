use vstd::prelude::*;
macro_rules! pumpkin_assert_simple { ($cond:expr $(, $($arg:tt)*)?) => { assert!($cond) } }
verus! {
#[derive(Clone, Copy)]
pub struct DomainId { pub id: u32 }
#[derive(Clone, Copy)]
pub enum Predicate {
    LowerBound { domain_id: DomainId, lower_bound: i32 },
    UpperBound { domain_id: DomainId, upper_bound: i32 },
    NotEqual { domain_id: DomainId, not_equal_constant: i32 },
    Equal { domain_id: DomainId, equality_constant: i32 },
}
pub assume_specification<T: Clone> [<[T] as std::borrow::ToOwned>::clone_into] (src: &[T], dst: &mut Vec<T>)
    ensures final(dst)@.len() == src@.len();
pub struct StoredConflictInfo { pub x: u8 }
pub trait Brancher { }
pub struct Assignments { pub level: usize }
impl Assignments {
    pub fn get_decision_level(&self) -> (r: usize) ensures r == self.level { self.level }
}
pub struct Misc { pub x: u8 }
pub struct ConstraintSatisfactionSolver {
    pub state: CSPSolverState,
    pub assignments: Assignments,
    pub assumptions: Vec<Predicate>,
    pub last_notified_cp_trail_index: usize,
    pub reason_store: Misc, pub propagator_queue: Misc, pub watch_list_cp: Misc, pub propagators: Misc,
    pub event_drain: Misc, pub backtrack_event_drain: Misc, pub stateful_assignments: Misc,
}
impl ConstraintSatisfactionSolver {
    // state in which solve_internal may leave the solver when it returns a flag to the API layer
    pub open spec fn api_result_state(&self) -> bool {
        self.state.internal_state is ContainsSolution || self.state.internal_state is Timeout
        || self.state.internal_state is Infeasible || self.state.internal_state is InfeasibleUnderAssumptions
    }
    pub open spec fn api_ready(&self) -> bool {
        self.assignments.level == 0 && (self.state.internal_state is Ready || self.state.internal_state is Infeasible)
    }
    #[verifier::external_body]
    pub fn backtrack<B: Brancher>(assignments: &mut Assignments, a: &mut usize, b: &mut Misc, c: &mut Misc, d: &mut Misc, e: &mut Misc, f: &mut Misc, g: &mut Misc, backtrack_level: usize, brancher: &mut B, h: &mut Misc)
        requires backtrack_level < old(assignments).level
        ensures final(assignments).level == backtrack_level
    { unimplemented!() }
    pub fn restore_state_at_root(&mut self, brancher: &mut impl Brancher) 
        requires old(self).api_result_state()
        ensures final(self).api_ready()
    {
        if self.assignments.get_decision_level() != 0 {
            ConstraintSatisfactionSolver::backtrack(
                &mut self.assignments,
                &mut self.last_notified_cp_trail_index,
                &mut self.reason_store,
                &mut self.propagator_queue,
                &mut self.watch_list_cp,
                &mut self.propagators,
                &mut self.event_drain,
                &mut self.backtrack_event_drain,
                0,
                brancher,
                &mut self.stateful_assignments,
            );
            self.state.declare_ready();
        }
    }
    fn initialise(&mut self, assumptions: &[Predicate]) 
        requires old(self).api_ready(), !(old(self).state.internal_state is Infeasible)
    {
        pumpkin_assert_simple!(
            !self.state.is_infeasible_under_assumptions(),
            "Solver is not expected to be in the infeasible under assumptions state when initialising.
             Missed extracting the core?"
        );
        self.state.declare_solving();
        assumptions.clone_into(&mut self.assumptions);
    }
}
enum CSPSolverStateInternal {
    Ready,
    Solving,
    ContainsSolution,
    Conflict {
        conflict_info: StoredConflictInfo,
    },
    Infeasible,
    InfeasibleUnderAssumptions {
        violated_assumption: Predicate,
    },
    Timeout,
}
pub struct CSPSolverState {
    pub internal_state: CSPSolverStateInternal,
}
impl CSPSolverState {
    pub fn is_ready(&self) -> (r: bool) 
        ensures r == (self.internal_state is Ready)
    {
        matches!(self.internal_state, CSPSolverStateInternal::Ready)
    }
    pub fn no_conflict(&self) -> (r: bool) 
        ensures r == !(self.internal_state is Conflict)
    {
        !self.is_conflicting()
    }
    pub fn is_conflicting(&self) -> (r: bool) 
        ensures r == (self.internal_state is Conflict)
    {
        matches!(
            self.internal_state,
            CSPSolverStateInternal::Conflict { conflict_info: _ }
        )
    }
    pub fn is_infeasible(&self) -> (r: bool) 
        ensures r == (self.internal_state is Infeasible)
    {
        matches!(self.internal_state, CSPSolverStateInternal::Infeasible)
    }
    pub fn is_inconsistent(&self) -> (r: bool) 
        ensures r == (self.internal_state is Conflict || self.internal_state is Infeasible || self.internal_state is InfeasibleUnderAssumptions)
    {
        self.is_conflicting() || self.is_infeasible() || self.is_infeasible_under_assumptions()
    }
    pub fn is_infeasible_under_assumptions(&self) -> (r: bool) 
        ensures r == (self.internal_state is InfeasibleUnderAssumptions)
    {
        matches!(
            self.internal_state,
            CSPSolverStateInternal::InfeasibleUnderAssumptions {
                violated_assumption: _
            }
        )
    }
    pub fn timeout(&self) -> (r: bool) 
        ensures r == (self.internal_state is Timeout)
    {
        matches!(self.internal_state, CSPSolverStateInternal::Timeout)
    }
    pub fn has_solution(&self) -> (r: bool) 
        ensures r == (self.internal_state is ContainsSolution)
    {
        matches!(
            self.internal_state,
            CSPSolverStateInternal::ContainsSolution
        )
    }
    pub(crate) fn declare_ready(&mut self) 
        ensures final(self).internal_state is Ready
    {
        self.internal_state = CSPSolverStateInternal::Ready;
    }
    pub fn declare_solving(&mut self) 
        ensures final(self).internal_state is Solving
    {
        pumpkin_assert_simple!((self.is_ready() || self.is_conflicting()) && !self.is_infeasible());
        self.internal_state = CSPSolverStateInternal::Solving;
    }
    fn declare_infeasible(&mut self) 
        ensures final(self).internal_state is Infeasible
    {
        self.internal_state = CSPSolverStateInternal::Infeasible;
    }
    fn declare_solution_found(&mut self) 
        ensures final(self).internal_state is ContainsSolution
    {
        pumpkin_assert_simple!(!self.is_infeasible());
        self.internal_state = CSPSolverStateInternal::ContainsSolution;
    }
    fn declare_timeout(&mut self) 
        ensures final(self).internal_state is Timeout
    {
        pumpkin_assert_simple!(!self.is_infeasible());
        self.internal_state = CSPSolverStateInternal::Timeout;
    }
}
}
fn main(){}
