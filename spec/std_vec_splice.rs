// D18: `let _ = v.splice(lo..hi, repl);` -- the Splice iterator is dropped at once, so (std documentation of
// Vec::splice) the elements lo..hi are removed and `repl` is inserted in their place; panics if lo > hi or hi > len.
pub trait PvSplice<T> {
    fn pv_splice(&mut self, lo: usize, hi: usize, repl: Vec<T>)
        requires lo <= hi <= old(self).pv_len()
        ensures final(self).pv_view() == old(self).pv_view().subrange(0, lo as int) + repl@ + old(self).pv_view().subrange(hi as int, old(self).pv_len() as int);
    spec fn pv_view(&self) -> Seq<T>;
    spec fn pv_len(&self) -> nat;
}
impl<T> PvSplice<T> for Vec<T> {
    open spec fn pv_view(&self) -> Seq<T> { self@ }
    open spec fn pv_len(&self) -> nat { self@.len() }
    #[verifier::external_body]
    fn pv_splice(&mut self, lo: usize, hi: usize, repl: Vec<T>) { let _ = self.splice(lo..hi, repl); }
}
