//! F30 (C16): DivisionPropagator computes (rhs_max + 1) * denominator_max - 1 and denominator_min * rhs_min in i32.
//! Exit 1 = reproduced.
use pumpkin_solver::constraints;
use pumpkin_solver::results::ProblemSolution;
use pumpkin_solver::results::SatisfactionResult;
use pumpkin_solver::termination::Indefinite;
use pumpkin_solver::Solver;

fn main() {
    let r = std::panic::catch_unwind(|| {
        let mut solver = Solver::default();
        // numerator in [0, 2e9], denominator in [1, 65536], rhs in [0, 65535]: e.g. 10 / 1 = 10 is a solution
        let n = solver.new_bounded_integer(0, 2_000_000_000);
        let d = solver.new_bounded_integer(1, 65536);
        let q = solver.new_bounded_integer(0, 65535);
        if solver.add_constraint(constraints::division(n, d, q)).post().is_err() {
            return Err("reported infeasible at the root".to_string());
        }
        let mut brancher = solver.default_brancher();
        match solver.satisfy(&mut brancher, &mut Indefinite) {
            SatisfactionResult::Satisfiable(s) => {
                let (a, b, c) = (s.get_integer_value(n), s.get_integer_value(d), s.get_integer_value(q));
                if b != 0 && a / b == c { Ok(format!("solution {a} / {b} = {c}")) } else { Err(format!("solution {a} / {b} = {c} is wrong")) }
            }
            SatisfactionResult::Unsatisfiable => Err("reported unsatisfiable (10 / 1 = 10 is a solution)".to_string()),
            SatisfactionResult::Unknown => Err("unknown".to_string()),
        }
    });
    let what = "numerator in [0, 2e9], denominator in [1, 65536], rhs in [0, 65535], numerator / denominator = rhs";
    match r {
        Ok(Ok(s)) => println!("ok: {s}"),
        Ok(Err(e)) => { println!("REPRODUCED: {what}: {e}"); std::process::exit(1); }
        Err(_) => { println!("REPRODUCED: {what}: panic (arithmetic overflow in the division propagator)"); std::process::exit(1); }
    }
}
