#![feature(allocator_api)]
use vstd::prelude::*;
//@@SPEC macros.rs@@
verus! {
//@@SPEC vocab.rs@@
#[derive(Clone, Copy, PartialEq, Eq, Structural)]
pub struct PropagatorId(pub u32);
#[derive(Clone, Copy, PartialEq, Eq, Structural)]
pub struct ReasonRef(pub u32);
#[derive(Clone, Copy)]
pub struct Literal { pub id: u32 }
pub uninterp spec fn lit_true(l: Literal, a: Asg) -> bool;
impl Literal {
    #[verifier::external_body]
    pub fn get_true_predicate(&self) -> (p: Predicate)
        ensures forall|a: Asg| #[trigger] pred_holds(p, a) <==> lit_true(*self, a)
    { unimplemented!() }
    #[verifier::external_body]
    pub fn get_false_predicate(&self) -> (p: Predicate)
        ensures forall|a: Asg| #[trigger] pred_holds(p, a) <==> !lit_true(*self, a)
    { unimplemented!() }
}
pub struct ExplanationContext<'a> { pub assignments: &'a Assignments }
pub trait Propagator {
    spec fn lazy_reason(&self, code: u64) -> Seq<Predicate>;
    fn lazy_explanation(&mut self, code: u64, context: ExplanationContext) -> (r: &[Predicate])
        ensures r@ == old(self).lazy_reason(code);
}
pub struct PropagatorStore { pub propagators: Vec<Box<dyn Propagator>> }
impl vstd::std_specs::core::IndexSpecImpl<PropagatorId> for PropagatorStore {
    open spec fn index_req(&self, index: &PropagatorId) -> bool { index.0 < self.propagators@.len() }
}
impl std::ops::Index<PropagatorId> for PropagatorStore {
    type Output = dyn Propagator;
    #[verifier::external_body]
    fn index(&self, index: PropagatorId) -> (r: &Self::Output) { unimplemented!() }
}
impl std::ops::IndexMut<PropagatorId> for PropagatorStore {
    #[verifier::external_body]
    fn index_mut(&mut self, index: PropagatorId) -> (r: &mut Self::Output)
        ensures forall|code: u64| #![trigger r.lazy_reason(code)] r.lazy_reason(code) == old(self).propagators@[index.0 as int].lazy_reason(code)
    { unimplemented!() }
}
// D25 / D37: the destination buffer
pub struct PvBuf<T> { pub items: Ghost<Seq<T>> }
pub trait PvItems { spec fn pv_items(&self) -> Seq<Predicate>; }
impl PvItems for &[Predicate] { open spec fn pv_items(&self) -> Seq<Predicate> { (*self)@ } }
impl PvItems for &PropositionalConjunction { open spec fn pv_items(&self) -> Seq<Predicate> { self.predicates_in_conjunction@ } }
impl PvItems for PropositionalConjunction { open spec fn pv_items(&self) -> Seq<Predicate> { self.predicates_in_conjunction@ } }
impl PvBuf<Predicate> {
    #[verifier::external_body]
    pub fn pv_push(&mut self, x: Predicate) ensures final(self).items@ == old(self).items@.push(x) { unimplemented!() }
    #[verifier::external_body]
    pub fn pv_extend<C: PvItems>(&mut self, c: &C) ensures final(self).items@ == old(self).items@ + c.pv_items() { unimplemented!() }
}
pub enum StoredReason {
    Eager(PropositionalConjunction),
    DynamicLazy(u64),
    ReifiedLazy(Literal, u64),
}
// what a stored reason stands for, given how the propagator explains its lazy codes
pub open spec fn reason_predicates(r: &StoredReason, p: &Box<dyn Propagator>) -> Seq<Predicate> {
    match r {
        StoredReason::Eager(c) => c.predicates_in_conjunction@,
        StoredReason::DynamicLazy(code) => p.lazy_reason(*code),
        StoredReason::ReifiedLazy(_, code) => p.lazy_reason(*code),
    }
}
// the buffer grows by the predicates of the reason; a reified lazy reason additionally brings the reification literal
pub open spec fn compute_ok(r: &StoredReason, p: &Box<dyn Propagator>, before: Seq<Predicate>, after: Seq<Predicate>) -> bool {
    match r {
        StoredReason::ReifiedLazy(l, _) => after.len() == before.len() + reason_predicates(r, p).len() + 1
            && after.subrange(0, before.len() as int) == before
            && after.subrange(before.len() as int, after.len() - 1) == reason_predicates(r, p)
            && (forall|a: Asg| #[trigger] pred_holds(after.last(), a) <==> lit_true(*l, a)),
        _ => after == before + reason_predicates(r, p),
    }
}
pub struct Trail<T> { pub entries: Vec<T> }
impl<T> Trail<T> {
    #[verifier::external_body]
    pub fn len(&self) -> (r: usize) ensures r == self.entries@.len() { unimplemented!() }
    #[verifier::external_body]
    pub fn push(&mut self, e: T) ensures final(self).entries@ == old(self).entries@.push(e) { unimplemented!() }
    #[verifier::external_body]
    pub fn get(&self, index: usize) -> (r: Option<&T>)
        ensures index < self.entries@.len() ==> r == Some(&self.entries@[index as int]), index >= self.entries@.len() ==> r is None
    { unimplemented!() }
}
pub struct ReasonStore { pub trail: Trail<(PropagatorId, StoredReason)> }
impl ReasonStore {
//@@EXTRACT rs@@
}
impl StoredReason {
//@@EXTRACT sr@@
}
} // verus!
fn main() {}
