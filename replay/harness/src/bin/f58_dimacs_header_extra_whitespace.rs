//! F58 (C14): the DIMACS header is split at single blanks (`s.split(' ')` after a `starts_with("p cnf ")` test): extra
//! whitespace inside the header line (two blanks, a tab) is rejected as an invalid header although extra whitespace is
//! accepted everywhere else in the file.  Runs the real `pumpkin-solver` binary on the spellings.  Exit 1 = reproduced.
use std::io::Write;
use std::process::Command;

fn run(repo: &str, text: &str, name: &str) -> String {
    let path = std::env::temp_dir().join(name);
    let mut f = std::fs::File::create(&path).unwrap();
    f.write_all(text.as_bytes()).unwrap();
    let target = std::env::var("CARGO_TARGET_DIR").unwrap_or_else(|_| "/tmp/pumpkin-verif-scratch/replay-target".into());
    let out = Command::new("cargo")
        .args(["run", "--offline", "-q", "--manifest-path", &format!("{repo}/Cargo.toml"), "-p", "pumpkin-solver", "--bin", "pumpkin-solver", "--"])
        .arg(&path)
        .env("CARGO_TARGET_DIR", format!("{target}-bin"))
        .output()
        .expect("cannot run cargo");
    let so = String::from_utf8_lossy(&out.stdout).to_string();
    let se = String::from_utf8_lossy(&out.stderr).to_string();
    let verdict = so.lines().find(|l| l.starts_with("s ")).map(|l| l.to_string());
    verdict.unwrap_or_else(|| format!("no verdict (exit {:?}): {}", out.status.code(), se.lines().last().unwrap_or("")))
}

fn main() {
    let repo = std::env::var("PUMPKIN_REPO").unwrap_or_else(|_| "/repo".into());
    let base = run(&repo, "p cnf 2 2\n1 2 0\n-1 0\n", "pv_f58_a.cnf");
    let spellings = [("two blanks after cnf", "p cnf  2 2\n1 2 0\n-1 0\n"), ("tab between the counts", "p cnf 2\t2\n1 2 0\n-1 0\n"),
                     ("two blanks after p", "p  cnf 2 2\n1 2 0\n-1 0\n"), ("tab after p", "p\tcnf 2 2\n1 2 0\n-1 0\n")];
    println!("plain header `p cnf 2 2`: {base}");
    let mut bad = 0;
    for (i, (what, text)) in spellings.iter().enumerate() {
        let v = run(&repo, text, &format!("pv_f58_{i}.cnf"));
        println!("{what}: {v}");
        if v != base { bad += 1; }
    }
    if bad > 0 || !base.starts_with("s SATISFIABLE") {
        println!("REPRODUCED: {bad} spellings of the same header with extra whitespace do not give the verdict of the plain spelling");
        std::process::exit(1);
    }
    println!("ok: every spelling gives {base}");
}
