#![feature(allocator_api)]
use vstd::prelude::*;
use std::num::NonZero;
//@@SPEC macros.rs@@
verus! {
pub type Asg = spec_fn(int) -> int;
pub type Model = spec_fn(Asg) -> bool;
pub trait Evald { spec fn eval(&self, a: Asg) -> int; }
pub trait IntegerVariable: Evald + Sized {
    type AffineView: Evald;
    fn scaled(&self, scale: i32) -> (r: Self::AffineView)
        ensures forall|a: Asg| #![trigger r.eval(a)] r.eval(a) == scale * self.eval(a);
}
#[derive(Clone, Copy)]
pub struct Literal { pub var: u32, pub positive: bool }
pub open spec fn lit_true(l: Literal, a: Asg) -> bool { if l.positive { a(l.var as int) == 1 } else { a(l.var as int) != 1 } }
pub enum ConstraintOperationError { InfeasiblePropagator, InfeasibleClause }
pub struct Solver { pub model: Ghost<Model> }
impl Solver { pub open spec fn unsat(&self) -> bool { forall|a: Asg| !(#[trigger] (self.model@)(a)) } }
pub open spec fn sum_eval<T: Evald>(xs: Seq<T>, a: Asg) -> int decreases xs.len() {
    if xs.len() == 0 { 0 } else { sum_eval(xs.drop_last(), a) + xs.last().eval(a) }
}
pub proof fn lemma_sum_negated<T: Evald, U: Evald>(xs: Seq<T>, ys: Seq<U>, a: Asg)
    requires ys.len() == xs.len(), forall|i: int| #![trigger ys[i]] 0 <= i < xs.len() ==> ys[i].eval(a) == -xs[i].eval(a)
    ensures sum_eval(ys, a) == -sum_eval(xs, a)
    decreases xs.len()
{
    if xs.len() > 0 {
        assert forall|i: int| #![trigger ys.drop_last()[i]] 0 <= i < xs.drop_last().len() implies ys.drop_last()[i].eval(a) == -xs.drop_last()[i].eval(a) by { assert(ys.drop_last()[i] == ys[i]); assert(xs.drop_last()[i] == xs[i]); }
        lemma_sum_negated(xs.drop_last(), ys.drop_last(), a);
        assert(ys[ys.len() - 1].eval(a) == -xs[xs.len() - 1].eval(a));
    }
}
// constraints::less_than_or_equals and what posting it does to the model (assumed; units prop_linear / reified)
pub struct Leq<T> { pub terms: Box<[T]>, pub rhs: i32 }
pub fn less_than_or_equals<T: Evald>(terms: Box<[T]>, rhs: i32) -> (r: Leq<T>) ensures r.terms@ == terms@, r.rhs == rhs { Leq { terms, rhs } }
impl<T: Evald> Leq<T> {
    pub open spec fn holds(&self, a: Asg) -> bool { sum_eval(self.terms@, a) <= self.rhs }
    #[verifier::external_body]
    pub fn post(self, solver: &mut Solver, tag: Option<NonZero<u32>>) -> (r: Result<(), ConstraintOperationError>)
        ensures forall|a: Asg| #![trigger (final(solver).model@)(a)] #![trigger (old(solver).model@)(a)] (final(solver).model@)(a) <==> ((old(solver).model@)(a) && self.holds(a)),
                r is Err ==> final(solver).unsat(),
    { unimplemented!() }
    #[verifier::external_body]
    pub fn implied_by(self, solver: &mut Solver, reification_literal: Literal, tag: Option<NonZero<u32>>) -> (r: Result<(), ConstraintOperationError>)
        ensures forall|a: Asg| #![trigger (final(solver).model@)(a)] #![trigger (old(solver).model@)(a)] (final(solver).model@)(a) <==> ((old(solver).model@)(a) && (lit_true(reification_literal, a) ==> self.holds(a))),
                r is Err ==> final(solver).unsat(),
    { unimplemented!() }
}
#[verifier::external_body]
pub fn pv_into_boxed<T>(v: Vec<T>) -> (r: Box<[T]>) ensures r@ == v@ { v.into() }
pub open spec fn built<V: IntegerVariable>(v: Vec<V::AffineView>, xs: Seq<V>, upto: int) -> bool {
    v@.len() == upto && forall|i: int, a: Asg| #![trigger v@[i].eval(a)] 0 <= i < upto ==> v@[i].eval(a) == -xs[i].eval(a)
}
// Box<[Var]>::clone: the same terms (trusted: Clone of a variable handle is the identity)
pub assume_specification<T: Clone, A: std::alloc::Allocator + Clone> [<Box<[T], A> as Clone>::clone] (b: &Box<[T], A>) -> (r: Box<[T], A>)
    ensures r@ == b@;

//@@EXTRACT s_eq@@
pub open spec fn eq_holds<V: Evald>(c: &EqualConstraint<V>, a: Asg) -> bool { sum_eval(c.terms@, a) == c.rhs }
pub trait Constraint: Sized {
    fn post(self, solver: &mut Solver, tag: Option<NonZero<u32>>) -> Result<(), ConstraintOperationError>;
    fn implied_by(self, solver: &mut Solver, reification_literal: Literal, tag: Option<NonZero<u32>>) -> Result<(), ConstraintOperationError>;
}
impl<Var: IntegerVariable + Clone> Constraint for EqualConstraint<Var> {
//@@EXTRACT eq@@
}
} // verus!
fn main() {}
