use vstd::prelude::*;
//@@SPEC macros.rs@@
//@@EXTRACT macro_predicate@@
//@@EXTRACT macro_conjunction@@
verus! {
//@@SPEC vocab.rs@@
//@@SPEC std_saturating.rs@@
//@@SPEC contracts/integer_variable_consumer.rs@@
//@@SPEC prop_ctx.rs@@
//@@SPEC lemmas/trunc_div.rs@@
//@@SPEC lemmas/nonlinear.rs@@
//@@SPEC std_option_extra.rs@@

pub assume_specification [i32::signum] (x: i32) -> (r: i32)
    ensures r == (if x > 0 { 1int } else if x < 0 { -1int } else { 0int });

pub mod mul_lemmas { use vstd::prelude::*;
// x*y <= c, y >= ym >= 1, c >= 0  ==>  x <= c / ym      (c / ym: Euclidean = truncating on non-negatives)
pub broadcast proof fn lemma_div_upper(x: int, y: int, c: int, ym: int)
    requires x * y <= c, y >= ym, ym >= 1, c >= 0
    ensures #![trigger x * y, c / ym] x <= c / ym
{
    vstd::arithmetic::div_mod::lemma_fundamental_div_mod(c, ym);
    vstd::arithmetic::div_mod::lemma_mod_bound(c, ym);
    vstd::arithmetic::div_mod::lemma_div_pos_is_pos(c, ym);
    if x > c / ym {
        assert(x * y >= (c / ym + 1) * ym) by(nonlinear_arith) requires x >= c / ym + 1, y >= ym, ym >= 1, c / ym >= 0;
        assert((c / ym + 1) * ym == ym * (c / ym) + ym) by(nonlinear_arith);
    }
}
pub broadcast proof fn lemma_div_upper_c(x: int, y: int, c: int, ym: int)
    requires y * x <= c, y >= ym, ym >= 1, c >= 0
    ensures #![trigger y * x, c / ym] x <= c / ym
{
    assert(x * y == y * x) by(nonlinear_arith);
    lemma_div_upper(x, y, c, ym);
}
// x*y >= 1, 0 <= y <= ym, (q-1)*ym < x*y  ==>  x >= q
pub broadcast proof fn lemma_div_lower(x: int, y: int, ym: int, q: int)
    requires x * y >= 1, 0 <= y <= ym, (q - 1) * ym < x * y
    ensures #![trigger x * y, (q - 1) * ym] x >= q
{
    if x < q {
        if x <= 0 {
            assert(x * y <= 0) by(nonlinear_arith) requires x <= 0, y >= 0;
        } else {
            assert(x * y <= (q - 1) * ym) by(nonlinear_arith) requires 0 < x <= q - 1, 0 <= y <= ym;
        }
    }
}
pub broadcast proof fn lemma_div_lower_c(x: int, y: int, ym: int, q: int)
    requires y * x >= 1, 0 <= y <= ym, (q - 1) * ym < y * x
    ensures #![trigger y * x, (q - 1) * ym] x >= q
{
    assert(x * y == y * x) by(nonlinear_arith);
    lemma_div_lower(x, y, ym, q);
}
}
broadcast use {conv_axioms::axiom_from_empty_domain, nl_lemmas::lemma_mul_sign, nl_lemmas::lemma_i32_product_fits_i64};

pub open spec fn mul_holds<VA: IntegerVariable, VB: IntegerVariable, VC: IntegerVariable>(a: &VA, b: &VB, c: &VC, x: Asg) -> bool {
    a.eval(x) * b.eval(x) == c.eval(x)
}

//@@EXTRACT propagate_signs@@
//@@EXTRACT perform_propagation@@
//@@EXTRACT div_ceil_pos@@
} // verus!
fn main() {}
