#![feature(allocator_api)]
use vstd::prelude::*;
//@@SPEC macros.rs@@
// the empty-nogood warning is not modelled
verus! {
#[derive(Clone, Copy, PartialEq, Eq, Structural)]
pub struct DomainId { pub id: u32 }
#[derive(Clone, Copy, PartialEq, Eq, Structural)]
pub enum Predicate {
    LowerBound { domain_id: DomainId, lower_bound: i32 },
    UpperBound { domain_id: DomainId, upper_bound: i32 },
    NotEqual { domain_id: DomainId, not_equal_constant: i32 },
    Equal { domain_id: DomainId, equality_constant: i32 },
}
pub uninterp spec fn negation(p: Predicate) -> Predicate;
impl vstd::std_specs::ops::NotSpecImpl for Predicate {
    open spec fn obeys_not_spec() -> bool { true }
    open spec fn not_req(self) -> bool { true }
    open spec fn not_spec(self) -> Predicate { negation(self) }
}
impl std::ops::Not for Predicate {
    type Output = Predicate;
    #[verifier::external_body]
    fn not(self) -> (r: Predicate) ensures r == negation(self) { unimplemented!() }
}
pub struct PropositionalConjunction { pub predicates_in_conjunction: Vec<Predicate> }
impl vstd::std_specs::convert::FromSpecImpl<Vec<Predicate>> for PropositionalConjunction {
    open spec fn obeys_from_spec() -> bool { true }
    open spec fn from_spec(v: Vec<Predicate>) -> Self { PropositionalConjunction { predicates_in_conjunction: v } }
}
impl From<Vec<Predicate>> for PropositionalConjunction {
    fn from(v: Vec<Predicate>) -> (r: Self) { PropositionalConjunction { predicates_in_conjunction: v } }
}
impl vstd::std_specs::core::IndexSpecImpl<usize> for PropositionalConjunction {
    open spec fn index_req(&self, index: &usize) -> bool { *index < self.predicates_in_conjunction@.len() }
}
impl std::ops::Index<usize> for PropositionalConjunction {
    type Output = Predicate;
    #[verifier::external_body]
    fn index(&self, index: usize) -> (r: &Predicate) ensures *r == self.predicates_in_conjunction@[index as int] { unimplemented!() }
}
pub struct EmptyDomain;
pub enum Inconsistency { EmptyDomain, Conflict(PropositionalConjunction) }
pub type PropagationStatusCP = Result<(), Inconsistency>;
impl vstd::std_specs::convert::FromSpecImpl<EmptyDomain> for Inconsistency {
    open spec fn obeys_from_spec() -> bool { true }
    open spec fn from_spec(e: EmptyDomain) -> Self { Inconsistency::EmptyDomain }
}
impl From<EmptyDomain> for Inconsistency { fn from(e: EmptyDomain) -> (r: Self) { Inconsistency::EmptyDomain } }

// which predicates hold in the current store
pub uninterp spec fn holds(state: int, p: Predicate) -> bool;
pub struct PropagationContextMut<'a> { pub state: Ghost<int>, pub level: Ghost<usize>, pub reasons: Ghost<Seq<Seq<Predicate>>>, pub ph: core::marker::PhantomData<&'a u8> }
impl PropagationContextMut<'_> {
    #[verifier::external_body]
    pub fn get_decision_level(&self) -> (r: usize) ensures r == self.level@ { unimplemented!() }
    #[verifier::external_body]
    pub fn is_predicate_satisfied(&self, p: Predicate) -> (r: bool) ensures r == holds(self.state@, p) { unimplemented!() }
    // A-EXPL, as a precondition of everything that stores a reason: the predicates of a reason hold when it is stored
    #[verifier::external_body]
    pub fn post_predicate(&mut self, predicate: Predicate, reason: PropositionalConjunction) -> (r: Result<(), EmptyDomain>)
        requires forall|i: int| #![trigger reason.predicates_in_conjunction@[i]] 0 <= i < reason.predicates_in_conjunction@.len() ==> holds(old(self).state@, reason.predicates_in_conjunction@[i])
        ensures final(self).reasons@ == old(self).reasons@.push(reason.predicates_in_conjunction@), final(self).level == old(self).level
    { unimplemented!() }
}
#[derive(Clone, Copy, PartialEq, Eq, Structural)]
pub struct NogoodId { pub id: u32 }
pub struct Nogood { pub predicates: PropositionalConjunction, pub permanent: bool }
impl Nogood {
    #[verifier::external_body]
    pub fn new_permanent_nogood(predicates: PropositionalConjunction) -> (r: Nogood) ensures r.predicates == predicates, r.permanent { unimplemented!() }
}
pub struct NogoodStore { pub items: Vec<Nogood> }
impl NogoodStore {
    #[verifier::external_body]
    pub fn push(&mut self, n: Nogood) -> (r: NogoodId) ensures r.id == old(self).items@.len(), final(self).items@ == old(self).items@.push(n) { unimplemented!() }
}
impl vstd::std_specs::core::IndexSpecImpl<NogoodId> for NogoodStore {
    open spec fn index_req(&self, index: &NogoodId) -> bool { index.id < self.items@.len() }
}
impl std::ops::Index<NogoodId> for NogoodStore {
    type Output = Nogood;
    #[verifier::external_body]
    fn index(&self, index: NogoodId) -> (r: &Nogood) ensures *r == self.items@[index.id as int] { unimplemented!() }
}
impl std::ops::IndexMut<NogoodId> for NogoodStore {
    #[verifier::external_body]
    fn index_mut(&mut self, index: NogoodId) -> (r: &mut Nogood)
        ensures *r == old(self).items@[index.id as int], final(self).items@ == old(self).items@.update(index.id as int, *final(r))
    { unimplemented!() }
}
pub struct WatchLists { pub watched: Ghost<Seq<(Predicate, NogoodId)>> }
pub struct NogoodPropagator {
    pub nogoods: NogoodStore,
    pub delete_ids: Vec<NogoodId>,
    pub permanent_nogoods: Vec<NogoodId>,
    pub watch_lists: WatchLists,
}
impl NogoodPropagator {
    // A-ENGINE: ids on the free list are ids of the store
    pub open spec fn ids_ok(&self) -> bool { forall|i: int| #![trigger self.delete_ids@[i]] 0 <= i < self.delete_ids@.len() ==> self.delete_ids@[i].id < self.nogoods.items@.len() }
    #[verifier::external_body]
    pub fn preprocess_nogood(nogood: &mut Vec<Predicate>, context: &mut PropagationContextMut)
        ensures final(nogood)@.len() >= 1, final(context).state == old(context).state, final(context).reasons == old(context).reasons, final(context).level == old(context).level,
                // what is left is not satisfied at the root
                forall|i: int| #![trigger final(nogood)@[i]] 0 <= i < final(nogood)@.len() && final(nogood)@.len() > 1 ==> !holds(old(context).state@, final(nogood)@[i]),
    { unimplemented!() }
    #[verifier::external_body]
    pub fn add_watcher(watch_lists: &mut WatchLists, predicate: Predicate, nogood_id: NogoodId)
        ensures final(watch_lists).watched@ == old(watch_lists).watched@.push((predicate, nogood_id))
    { unimplemented!() }
//@@EXTRACT np@@
}
} // verus!
fn main() {}
