use vstd::prelude::*;
verus! {
//@@SPEC vocab.rs@@
//@@SPEC lemmas/trunc_div.rs@@
//@@SPEC lemmas/affine.rs@@
broadcast use {affine_lemmas::lemma_scale_mono, affine_lemmas::lemma_ceil_iff, affine_lemmas::lemma_floor_iff, affine_lemmas::lemma_ceil_exact};

pub struct ReasonRef(pub u32);

// ---- NumExt by the contract proved in unit `numext` ----
pub trait NumExt: Sized {
    spec fn as_int(self) -> int;
    fn div_ceil(self, other: Self) -> (r: Self)
        requires other.as_int() != 0, !(self.as_int() == i32::MIN as int && other.as_int() == -1),
        ensures is_ceil_div(self.as_int(), other.as_int(), r.as_int());
    fn div_floor(self, other: Self) -> (r: Self)
        requires other.as_int() != 0, !(self.as_int() == i32::MIN as int && other.as_int() == -1),
        ensures is_floor_div(self.as_int(), other.as_int(), r.as_int());
}
impl NumExt for i32 {
    open spec fn as_int(self) -> int { self as int }
    #[verifier::external_body] fn div_ceil(self, other: Self) -> Self { unimplemented!() }
    #[verifier::external_body] fn div_floor(self, other: Self) -> Self { unimplemented!() }
}

// ---- Assignments by contract (live-set semantics) ----
impl Assignments {
    pub uninterp spec fn lb_of(&self, d: DomainId) -> int;
    pub uninterp spec fn ub_of(&self, d: DomainId) -> int;
    #[verifier::external_body]
    pub fn get_lower_bound(&self, d: DomainId) -> (r: i32)
        ensures r == self.lb_of(d),
                forall|a: Asg| #![trigger (self.live@)(a)] (self.live@)(a) ==> a(d.id as int) >= r,
                !live_empty(self.live@) ==> exists|a: Asg| #![trigger (self.live@)(a)] (self.live@)(a) && a(d.id as int) == r,
    { unimplemented!() }
    #[verifier::external_body]
    pub fn get_upper_bound(&self, d: DomainId) -> (r: i32)
        ensures r == self.ub_of(d),
                forall|a: Asg| #![trigger (self.live@)(a)] (self.live@)(a) ==> a(d.id as int) <= r,
                !live_empty(self.live@) ==> exists|a: Asg| #![trigger (self.live@)(a)] (self.live@)(a) && a(d.id as int) == r,
    { unimplemented!() }
    #[verifier::external_body]
    pub fn is_value_in_domain(&self, d: DomainId, value: i32) -> (r: bool)
        ensures !r ==> forall|a: Asg| #![trigger (self.live@)(a)] (self.live@)(a) ==> a(d.id as int) != value,
                r && !live_empty(self.live@) ==> exists|a: Asg| #![trigger (self.live@)(a)] (self.live@)(a) && a(d.id as int) == value,
    { unimplemented!() }
    #[verifier::external_body]
    pub fn tighten_lower_bound(&mut self, d: DomainId, value: i32, reason: Option<ReasonRef>) -> (r: Result<(), EmptyDomain>)
        ensures forall|a: Asg| #![trigger (final(self).live@)(a)] #![trigger (old(self).live@)(a)] (final(self).live@)(a) <==> ((old(self).live@)(a) && a(d.id as int) >= value),
                r is Err ==> live_empty(final(self).live@),
    { unimplemented!() }
    #[verifier::external_body]
    pub fn tighten_upper_bound(&mut self, d: DomainId, value: i32, reason: Option<ReasonRef>) -> (r: Result<(), EmptyDomain>)
        ensures forall|a: Asg| #![trigger (final(self).live@)(a)] #![trigger (old(self).live@)(a)] (final(self).live@)(a) <==> ((old(self).live@)(a) && a(d.id as int) <= value),
                r is Err ==> live_empty(final(self).live@),
    { unimplemented!() }
    #[verifier::external_body]
    pub fn remove_value_from_domain(&mut self, d: DomainId, value: i32, reason: Option<ReasonRef>) -> (r: Result<(), EmptyDomain>)
        ensures forall|a: Asg| #![trigger (final(self).live@)(a)] #![trigger (old(self).live@)(a)] (final(self).live@)(a) <==> ((old(self).live@)(a) && a(d.id as int) != value),
                r is Err ==> live_empty(final(self).live@),
    { unimplemented!() }
}

// ---- the IntegerVariable contract (one text: assumed for the inner variable, proved for AffineView / DomainId) ----
pub trait IntegerVariable: Sized {
    spec fn eval(&self, a: Asg) -> int;
    // type invariant of the view tower (scale != 0 everywhere)
    spec fn wf(&self) -> bool;
    // A-VIEWRANGE (values): over the given domains every value of the view, and every intermediate result of
    // computing it, is an i32
    spec fn range_ok(&self, live: Live) -> bool;
    // A-VIEWRANGE (arguments): the value can be mapped back through the view without leaving i32
    spec fn arg_ok(&self, v: int) -> bool;

    fn lower_bound(&self, assignment: &Assignments) -> (r: i32)
        requires self.wf(), self.range_ok(assignment.live@), !live_empty(assignment.live@),
        ensures forall|a: Asg| #![trigger (assignment.live@)(a)] (assignment.live@)(a) ==> self.eval(a) >= r,     // @C12 the reported bound encloses every remaining value
                exists|a: Asg| #![trigger (assignment.live@)(a)] (assignment.live@)(a) && self.eval(a) == r;      // @C12 and is attained
    fn upper_bound(&self, assignment: &Assignments) -> (r: i32)
        requires self.wf(), self.range_ok(assignment.live@), !live_empty(assignment.live@),
        ensures forall|a: Asg| #![trigger (assignment.live@)(a)] (assignment.live@)(a) ==> self.eval(a) <= r,     // @C12
                exists|a: Asg| #![trigger (assignment.live@)(a)] (assignment.live@)(a) && self.eval(a) == r;      // @C12
    fn contains(&self, assignment: &Assignments, value: i32) -> (r: bool)
        requires self.wf(), self.arg_ok(value as int), !live_empty(assignment.live@),
        ensures !r ==> forall|a: Asg| #![trigger (assignment.live@)(a)] (assignment.live@)(a) ==> self.eval(a) != value,   // @C12 @C01
                r ==> exists|a: Asg| #![trigger (assignment.live@)(a)] (assignment.live@)(a) && self.eval(a) == value;     // @C12
    fn remove(&self, assignment: &mut Assignments, value: i32, reason: Option<ReasonRef>) -> (r: Result<(), EmptyDomain>)
        requires self.wf(), self.arg_ok(value as int),
        ensures forall|a: Asg| #![trigger (final(assignment).live@)(a)] #![trigger (old(assignment).live@)(a)]
                    (final(assignment).live@)(a) <==> ((old(assignment).live@)(a) && self.eval(a) != value),     // @C12 @C17 exactly the value is removed
                r is Err ==> live_empty(final(assignment).live@);
    fn set_lower_bound(&self, assignment: &mut Assignments, value: i32, reason: Option<ReasonRef>) -> (r: Result<(), EmptyDomain>)
        requires self.wf(), self.arg_ok(value as int),
        ensures forall|a: Asg| #![trigger (final(assignment).live@)(a)] #![trigger (old(assignment).live@)(a)]
                    (final(assignment).live@)(a) <==> ((old(assignment).live@)(a) && self.eval(a) >= value),     // @C12 @C17 rounding and sign of the scale
                r is Err ==> live_empty(final(assignment).live@);
    fn set_upper_bound(&self, assignment: &mut Assignments, value: i32, reason: Option<ReasonRef>) -> (r: Result<(), EmptyDomain>)
        requires self.wf(), self.arg_ok(value as int),
        ensures forall|a: Asg| #![trigger (final(assignment).live@)(a)] #![trigger (old(assignment).live@)(a)]
                    (final(assignment).live@)(a) <==> ((old(assignment).live@)(a) && self.eval(a) <= value),     // @C12 @C17
                r is Err ==> live_empty(final(assignment).live@);
}

pub trait PredicateConstructor {
    type Value;
    spec fn ctor_eval(&self, a: Asg) -> int;
    spec fn ctor_wf(&self) -> bool;
    spec fn ctor_arg_ok(&self, v: int) -> bool;
    spec fn as_int(v: Self::Value) -> int;
    fn lower_bound_predicate(&self, bound: Self::Value) -> (p: Predicate)
        requires self.ctor_wf(), self.ctor_arg_ok(Self::as_int(bound)),
        ensures forall|a: Asg| #[trigger] pred_holds(p, a) <==> self.ctor_eval(a) >= Self::as_int(bound);   // @C12 @C17
    fn upper_bound_predicate(&self, bound: Self::Value) -> (p: Predicate)
        requires self.ctor_wf(), self.ctor_arg_ok(Self::as_int(bound)),
        ensures forall|a: Asg| #[trigger] pred_holds(p, a) <==> self.ctor_eval(a) <= Self::as_int(bound);   // @C12 @C17
    fn equality_predicate(&self, bound: Self::Value) -> (p: Predicate)
        requires self.ctor_wf(), self.ctor_arg_ok(Self::as_int(bound)),
        ensures forall|a: Asg| #[trigger] pred_holds(p, a) <==> self.ctor_eval(a) == Self::as_int(bound);   // @C12 @C17
    fn disequality_predicate(&self, bound: Self::Value) -> (p: Predicate)
        requires self.ctor_wf(), self.ctor_arg_ok(Self::as_int(bound)),
        ensures forall|a: Asg| #[trigger] pred_holds(p, a) <==> self.ctor_eval(a) != Self::as_int(bound);   // @C12 @C17
}
impl Predicate {
    // real text: [dummy_variable == 1] / [dummy_variable != 1] over the always-one variable 0 (unit predicate covers the type)
    #[verifier::external_body]
    pub fn trivially_true() -> (p: Predicate) ensures forall|a: Asg| #[trigger] pred_holds(p, a) { unimplemented!() }
    #[verifier::external_body]
    pub fn trivially_false() -> (p: Predicate) ensures forall|a: Asg| !#[trigger] pred_holds(p, a) { unimplemented!() }
}

pub struct AffineView<Inner> {
    pub inner: Inner,
    pub scale: i32,
    pub offset: i32,
}
pub enum Rounding {
    Up,
    Down,
}
// mathematical meaning of the view
pub open spec fn av_map(scale: int, offset: int, u: int) -> int { scale * u + offset }
pub open spec fn av_in_i32(v: int) -> bool { i32::MIN <= v <= i32::MAX }
pub open spec fn av_arg(scale: int, offset: int, v: int) -> bool {
    av_in_i32(v - offset) && !(v - offset == i32::MIN as int && scale == -1)
}

//@@EXTRACT av_inherent@@
//@@EXTRACT av_var@@
impl<Var: PredicateConstructor<Value = i32>> PredicateConstructor for AffineView<Var> {
    type Value = i32;
    open spec fn ctor_eval(&self, a: Asg) -> int { av_map(self.scale as int, self.offset as int, self.inner.ctor_eval(a)) }
    open spec fn ctor_wf(&self) -> bool {
        self.scale != 0 && self.inner.ctor_wf()
        && (forall|v: int| #![trigger self.inner.ctor_arg_ok(v)] av_in_i32(v) ==> self.inner.ctor_arg_ok(v))
        && (forall|v: i32| #![trigger Var::as_int(v)] Var::as_int(v) == v as int)
    }
    open spec fn ctor_arg_ok(&self, v: int) -> bool { av_arg(self.scale as int, self.offset as int, v) }
    open spec fn as_int(v: i32) -> int { v as int }
//@@EXTRACT av_pred@@
}
//@@EXTRACT dom_var@@
} // verus!
fn main() {}
