#!/bin/bash
# usage: seed_confirm.sh <worktree> <seed-id>
# Confirms a seeded change independently: (1) demo fails with the change, (2) demo passes without it,
# (3) the existing test suite passes with the change.  Writes /verif/seeded/<id>/confirm.log
WT="$1"; ID="$2"
OUT=/verif/seeded/$ID
mkdir -p "$OUT"
cp "$WT/SEED_RESULT/patch.diff" "$OUT/patch.diff"
rm -rf "$OUT/demo"; cp -r "$WT/SEED_RESULT/demo" "$OUT/demo"
cp "$WT/SEED_RESULT/README.md" "$OUT/agent_README.md" 2>/dev/null
export CARGO_TARGET_DIR="$WT/target" CARGO_NET_OFFLINE=true
cd "$WT" || exit 2
LOG="$OUT/confirm.log"; : > "$LOG"
# make sure the working tree = HEAD + patch
git checkout -q -- . ; git apply "$OUT/patch.diff" || { echo "PATCH DOES NOT APPLY" >> "$LOG"; exit 2; }
# put the demo files in place
(cd "$OUT/demo" && find . -type f) | while read f; do mkdir -p "$WT/$(dirname "$f")"; cp "$OUT/demo/$f" "$WT/$f"; done
DEMOS=$(cd "$OUT/demo" && find . -type f -name '*.rs' | sed 's#^\./##')
run_demo() {
  rc=0
  for f in $DEMOS; do
    case "$f" in
      pumpkin-solver/tests/*) t=$(basename "$f" .rs); cargo test -p pumpkin-solver --test "$t" --offline 2>&1 | tail -15 >> "$LOG"; [ ${PIPESTATUS[0]} -ne 0 ] && rc=1;;
      drcp-format/tests/*) t=$(basename "$f" .rs); cargo test -p drcp-format --test "$t" --offline 2>&1 | tail -15 >> "$LOG"; [ ${PIPESTATUS[0]} -ne 0 ] && rc=1;;
      pumpkin-solver/examples/*) t=$(basename "$f" .rs); cargo run -p pumpkin-solver --example "$t" --offline 2>&1 | tail -15 >> "$LOG"; [ ${PIPESTATUS[0]} -ne 0 ] && rc=1;;
      *) echo "demo file $f: unknown location, run manually" >> "$LOG";;
    esac
  done
  return $rc
}
echo "== demo WITH the change (must fail)" >> "$LOG"; run_demo; A=$?
git apply -R "$OUT/patch.diff"
echo "== demo WITHOUT the change (must pass)" >> "$LOG"; run_demo; B=$?
git apply "$OUT/patch.diff"
echo "== existing test suite WITH the change (must pass; cnf_test::prime4294967297 is a known failure)" >> "$LOG"
# remove the demo files so that only the existing suite runs
for f in $DEMOS; do rm -f "$WT/$f"; done
cargo test --workspace --no-fail-fast --offline > "$OUT/suite.out" 2>&1
grep -E "^test result|FAILED|failed|panicked" "$OUT/suite.out" | grep -v "prime4294967297" | sort | uniq -c >> "$LOG"
FAILS=$(grep -E "^test .* FAILED$" "$OUT/suite.out" | grep -v prime4294967297 | wc -l)
rm -f "$OUT/suite.out"
echo "RESULT demo_with_change_fails=$A demo_without_change_fails=$B suite_failures_other_than_known=$FAILS" >> "$LOG"
tail -1 "$LOG"
