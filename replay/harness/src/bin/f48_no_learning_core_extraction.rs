//! F48 (C05, also C07 / C10): with ConflictResolver::NoLearning the resolver flips the last decision - also an
//! assumption - and enqueues its negation with a dummy reason (ReasonRef(0)).  The verdict under assumptions is right,
//! but extract_core() then runs the resolution-based core analysis over that trail and panics in
//! ReasonStore::get_propagator (reason.rs: unwrap on None).  With the default resolver the core {a, b} is returned.
//! Exit 1 = reproduced.
use pumpkin_solver::options::ConflictResolver;
use pumpkin_solver::options::SolverOptions;
use pumpkin_solver::predicates::Predicate;
use pumpkin_solver::results::SatisfactionResultUnderAssumptions;
use pumpkin_solver::termination::Indefinite;
use pumpkin_solver::Solver;

fn run(solver: &mut Solver, assumptions: &[Predicate], extract: bool) -> String {
    let mut brancher = solver.default_brancher();
    let result = solver.satisfy_under_assumptions(&mut brancher, &mut Indefinite, assumptions);
    match result {
        SatisfactionResultUnderAssumptions::Satisfiable(_) => "SAT".to_owned(),
        SatisfactionResultUnderAssumptions::UnsatisfiableUnderAssumptions(mut u) => {
            if extract { format!("CORE {:?}", u.extract_core()) } else { "UNSAT-UNDER-ASSUMPTIONS".to_owned() }
        }
        SatisfactionResultUnderAssumptions::Unsatisfiable => "UNSAT".to_owned(),
        SatisfactionResultUnderAssumptions::Unknown => "UNKNOWN".to_owned(),
    }
}

fn main() {
    let mut bad = false;
    for extract in [false, true] {
        let r = std::panic::catch_unwind(|| {
            let mut solver = Solver::with_options(SolverOptions { conflict_resolver: ConflictResolver::NoLearning, ..Default::default() });
            let a = solver.new_literal().get_true_predicate();
            let b = solver.new_literal().get_true_predicate();
            let c = solver.new_literal().get_true_predicate();
            solver.add_clause([!a, !b, c]).unwrap();
            solver.add_clause([!a, !b, !c]).unwrap();
            let first = run(&mut solver, &[a, b], extract);
            let second = run(&mut solver, &[], false);
            format!("{first}; then without assumptions: {second}")
        });
        let got = r.unwrap_or_else(|_| "panic".to_string());
        println!("NoLearning, clauses (-a -b c), (-a -b -c), assumptions [a, b], extract_core={extract}: {got}");
        if got == "panic" { bad = true; }
    }
    if bad { println!("REPRODUCED: core extraction panics under ConflictResolver::NoLearning"); std::process::exit(1); }
    println!("ok");
}
