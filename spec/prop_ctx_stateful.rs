// Trailed integers and the read-only conversions of the propagation context (used by propagators with incremental state).
// trailed integers (incremental state of a propagator): a function of the store identity
#[derive(Clone, Copy)]
pub struct TrailedInt { pub id: u32 }
pub uninterp spec fn trailed_value(state: int, t: TrailedInt) -> int;
#[derive(Clone, Copy)]
pub struct StatefulPropagationContext<'a> { pub assignments: &'a Assignments }
impl<'a> StatefulPropagationContext<'a> {
    #[verifier::external_body]
    pub fn value(&self, t: TrailedInt) -> (r: i64) ensures r == trailed_value(self.assignments.state@, t) { unimplemented!() }
    #[verifier::external_body]
    pub fn as_readonly(&self) -> (r: PropagationContext<'_>) ensures r.assignments.live == self.assignments.live, r.assignments.state == self.assignments.state { unimplemented!() }
}
impl<'a> PropagationContextMut<'a> {
    pub open spec fn state(&self) -> int { self.assignments.state@ }
    #[verifier::external_body]
    pub fn value(&self, t: TrailedInt) -> (r: i64) ensures r == trailed_value(self.state(), t) { unimplemented!() }
    #[verifier::external_body]
    pub fn as_readonly(&self) -> (r: PropagationContext<'_>) ensures r.assignments.live@ == self.live(), r.assignments.state@ == self.state() { unimplemented!() }
    #[verifier::external_body]
    pub fn as_stateful_readonly(&self) -> (r: StatefulPropagationContext<'_>) ensures r.assignments.live@ == self.live(), r.assignments.state@ == self.state() { unimplemented!() }
}
