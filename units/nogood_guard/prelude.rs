use vstd::prelude::*;
verus! {
//@@SPEC vocab.rs@@
//@@SPEC contracts/predicate_not.rs@@
impl std::ops::Not for Predicate {
    type Output = Predicate;
    #[verifier::external_body]
    fn not(self) -> (r: Predicate) { unimplemented!() }
}

#[derive(Clone, Copy, PartialEq, Eq, Structural)]
pub struct PropagatorId(pub u32);
#[derive(Clone, Copy, PartialEq, Eq, Structural)]
pub struct ReasonRef(pub u32);
#[derive(Clone, Copy)]
pub struct NogoodId { pub id: u32 }
#[derive(Clone, Copy)]
pub struct ConstraintProgrammingTrailEntry {
    pub predicate: Predicate,
    pub old_lower_bound: i32,
    pub old_upper_bound: i32,
    pub reason: Option<ReasonRef>,
}

// ---- the trail, abstractly: which entry made a predicate true ----
pub struct EngineAssignments { pub x: u8 }
impl EngineAssignments {
    pub uninterp spec fn is_true(&self, p: Predicate) -> bool;
    pub uninterp spec fn position_of(&self, p: Predicate) -> int;          // trail position at which p became true
    pub uninterp spec fn entry_at(&self, pos: int) -> ConstraintProgrammingTrailEntry;
    #[verifier::external_body]
    pub fn get_trail_position(&self, predicate: &Predicate) -> (r: Option<usize>)
        ensures self.is_true(*predicate) ==> r == Some(self.position_of(*predicate) as usize) && self.position_of(*predicate) >= 0 && self.position_of(*predicate) <= usize::MAX,
                !self.is_true(*predicate) ==> r is None,
    { unimplemented!() }
    #[verifier::external_body]
    pub fn get_trail_entry(&self, index: usize) -> (r: ConstraintProgrammingTrailEntry)
        ensures r == self.entry_at(index as int)
    { unimplemented!() }
}
#[derive(Clone, Copy)]
pub struct PropagationContext<'a> { pub assignments: &'a EngineAssignments }
impl<'a> PropagationContext<'a> {
    pub fn assignments(&self) -> (r: &EngineAssignments) ensures r == self.assignments { self.assignments }
    // falsified = the negation is true on the trail (predicates handed to nogoods are negatable)
    #[verifier::external_body]
    pub fn is_predicate_satisfied(&self, predicate: Predicate) -> (r: bool)
        ensures r == self.assignments.is_true(predicate),
    { unimplemented!() }
    #[verifier::external_body]
    pub fn is_predicate_falsified(&self, predicate: Predicate) -> (r: bool)
        ensures r == self.assignments.is_true(pred_negation(predicate)), r ==> pred_negatable(predicate),
    { unimplemented!() }
}
pub struct ReasonStore { pub x: u8 }
impl ReasonStore {
    pub uninterp spec fn propagator_of(&self, r: ReasonRef) -> PropagatorId;
    pub uninterp spec fn lazy_code_of(&self, r: ReasonRef) -> Option<u64>;
    #[verifier::external_body]
    pub fn get_propagator(&self, reason_ref: ReasonRef) -> (r: PropagatorId) ensures r == self.propagator_of(reason_ref) { unimplemented!() }
    // a lazily explained propagation of a REIFIED propagator (StoredReason::ReifiedLazy): get_lazy_code has no answer for
    // it (`unimplemented!`).  The nogood propagator is never reified: its own reasons are eager or dynamic-lazy.
    pub uninterp spec fn reified_lazy(&self, r: ReasonRef) -> bool;
    pub open spec fn store_ok(&self) -> bool { forall|r: ReasonRef| #![trigger self.propagator_of(r)] self.propagator_of(r) == PropagatorId(0) ==> !self.reified_lazy(r) }
    #[verifier::external_body]
    pub fn get_lazy_code(&self, reference: ReasonRef) -> (r: Option<&u64>)
        requires !self.reified_lazy(reference)       // @C07 otherwise: panic `cannot get code of reified lazy explanation`
        ensures r is Some == (self.lazy_code_of(reference) is Some), r is Some ==> *r->Some_0 == self.lazy_code_of(reference)->Some_0
    { unimplemented!() }
}
pub struct ConstraintSatisfactionSolver { pub x: u8 }
impl ConstraintSatisfactionSolver {
    pub fn get_nogood_propagator_id() -> (r: PropagatorId) ensures r == PropagatorId(0) { PropagatorId(0) }
}

pub struct Nogood { pub predicates: PropositionalConjunction, pub is_learned: bool, pub is_deleted: bool }
impl vstd::std_specs::core::IndexSpecImpl<usize> for PropositionalConjunction {
    open spec fn index_req(&self, index: &usize) -> bool { *index < self.predicates_in_conjunction@.len() }
}
impl std::ops::Index<usize> for PropositionalConjunction {
    type Output = Predicate;
    fn index(&self, index: usize) -> (r: &Predicate)
        ensures *r == self.predicates_in_conjunction@[index as int]
    { &self.predicates_in_conjunction[index] }
}
pub struct KeyedVec<V> { pub elements: Vec<V> }
impl<V> vstd::std_specs::core::IndexSpecImpl<NogoodId> for KeyedVec<V> {
    open spec fn index_req(&self, index: &NogoodId) -> bool { index.id < self.elements@.len() }
}
impl<V> std::ops::Index<NogoodId> for KeyedVec<V> {
    type Output = V;
    fn index(&self, index: NogoodId) -> (r: &V)
        ensures *r == self.elements@[index.id as int]
    { &self.elements[index.id as usize] }
}
pub struct NogoodPropagator { pub nogoods: KeyedVec<Nogood> }

impl NogoodPropagator {
    // DESIGN (C07): the nogood is "propagating" iff its first predicate is false and the trail entry that made it
    // false was placed by the nogood propagator with this nogood (or an eager reason) as its reason
    pub open spec fn propagating(&self, context: PropagationContext, reason_store: &ReasonStore, id: NogoodId) -> bool {
        let p0 = self.nogoods.elements@[id.id as int].predicates.predicates_in_conjunction@[0];
        let a = context.assignments;
        a.is_true(pred_negation(p0)) && {
            let e = a.entry_at(a.position_of(pred_negation(p0)));
            e.reason is Some
            && reason_store.propagator_of(e.reason->Some_0) == PropagatorId(0)
            && (reason_store.lazy_code_of(e.reason->Some_0) is None || reason_store.lazy_code_of(e.reason->Some_0)->Some_0 == id.id as u64)
        }
    }
//@@EXTRACT ng@@
}
} // verus!
fn main() {}
