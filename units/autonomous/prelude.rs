use vstd::prelude::*;
//@@SPEC macros.rs@@
verus! {
//@@SPEC vocab.rs@@
//@@SPEC contracts/predicate_not.rs@@
impl std::ops::Not for Predicate {
    type Output = Predicate;
    #[verifier::external_body]
    fn not(self) -> (r: Predicate) { unimplemented!() }
}
#[derive(Clone, Copy, PartialEq, Eq, Structural)]
pub struct PredicateId { pub id: u32 }

// the store as a brancher sees it
pub struct SelectionContext { pub assigned: Ghost<spec_fn(Predicate) -> bool>, pub all_assigned: Ghost<bool> }
impl SelectionContext {
    // a predicate has a truth value iff its negation has one
    pub open spec fn wf(&self) -> bool {
        forall|p: Predicate| #![trigger (self.assigned@)(pred_negation(p))] pred_negatable(p) ==> (self.assigned@)(pred_negation(p)) == (self.assigned@)(p)
    }
    #[verifier::external_body]
    pub fn is_predicate_assigned(&self, predicate: Predicate) -> (r: bool) ensures r == (self.assigned@)(predicate) { unimplemented!() }
    #[verifier::external_body]
    pub fn are_all_variables_assigned(&self) -> (r: bool) ensures r == self.all_assigned@ { unimplemented!() }
}
pub struct KeyValueHeap { pub keys: Ghost<Set<PredicateId>> }
impl KeyValueHeap {
    #[verifier::external_body]
    pub fn peek_max(&self) -> (r: Option<(&PredicateId, &f64)>)
        ensures r is Some ==> self.keys@.contains(*r->Some_0.0), r is None ==> self.keys@.len() == 0 || !self.keys@.finite(),
                self.keys@.finite() ==> (r is None <==> self.keys@.len() == 0),
    { unimplemented!() }
    #[verifier::external_body]
    pub fn pop_max(&mut self) -> (r: Option<PredicateId>)
        requires old(self).keys@.finite(), old(self).keys@.len() > 0
        ensures r is Some, old(self).keys@.contains(r->Some_0), final(self).keys@ == old(self).keys@.remove(r->Some_0)
    { unimplemented!() }
    #[verifier::external_body]
    pub fn delete_key(&mut self, key: PredicateId) ensures final(self).keys@ == old(self).keys@.remove(key) { unimplemented!() }
    #[verifier::external_body]
    pub fn num_nonremoved_elements(&self) -> usize { unimplemented!() }
}
pub struct PredicateIdGenerator { pub map: Ghost<Map<PredicateId, Predicate>> }
impl PredicateIdGenerator {
    #[verifier::external_body]
    pub fn get_predicate(&self, id: PredicateId) -> (r: Option<Predicate>)
        ensures r is Some == self.map@.dom().contains(id), r is Some ==> r->Some_0 == self.map@[id]
    { unimplemented!() }
    #[verifier::external_body]
    pub fn get_id(&mut self, predicate: Predicate) -> (r: PredicateId)
        ensures final(self).map@.dom().contains(r), final(self).map@[r] == predicate,
                // ids are unique per predicate: a registered predicate keeps its id
                forall|k: PredicateId| #![trigger old(self).map@[k]] old(self).map@.dom().contains(k) && old(self).map@[k] == predicate ==> r == k,
                forall|k: PredicateId| #![trigger final(self).map@.dom().contains(k)] #![trigger final(self).map@[k]] old(self).map@.dom().contains(k) ==> final(self).map@.dom().contains(k) && final(self).map@[k] == old(self).map@[k],
                forall|k: PredicateId| #![trigger final(self).map@.dom().contains(k)] final(self).map@.dom().contains(k) ==> old(self).map@.dom().contains(k) || k == r,
    { unimplemented!() }
    #[verifier::external_body]
    pub fn delete_id(&mut self, id: PredicateId) ensures final(self).map@ == old(self).map@.remove(id) { unimplemented!() }
}
pub struct MovingAverageStub { pub x: u8 }
impl MovingAverageStub { #[verifier::external_body] pub fn add_term(&mut self, t: usize) { unimplemented!() } }
pub struct AutonomousSearchStatistics {
    pub num_backup_called: usize, pub num_predicates_removed: usize, pub num_calls: usize, pub num_predicates_added: usize,
    pub average_size_of_heap: MovingAverageStub, pub num_assigned_predicates_encountered: usize,
}
pub struct Solution { pub x: u8 }
pub uninterp spec fn pred_domain_of(p: Predicate) -> DomainId;
impl Solution {
    // proved in unit `solution`: exactly the variables the snapshot knows; a predicate over an unknown variable cannot be evaluated
    pub uninterp spec fn knows(&self, d: DomainId) -> bool;
    #[verifier::external_body] pub fn contains_domain_id(&self, d: DomainId) -> (r: bool) ensures r == self.knows(d) { unimplemented!() }
    #[verifier::external_body] pub fn is_predicate_satisfied(&self, p: Predicate) -> bool requires self.knows(pred_domain_of(p)) { unimplemented!() }
}
impl Predicate {
    #[verifier::external_body] pub fn get_domain(&self) -> (r: DomainId) ensures r == pred_domain_of(*self) { unimplemented!() }
}
pub trait Brancher {
    // what the backup promises (C18 for the selectors): its decision is unassigned; None only if everything is assigned
    fn next_decision(&mut self, context: &mut SelectionContext) -> (r: Option<Predicate>)
        requires old(context).wf()
        ensures *final(context) == *old(context),
                r matches Some(p) ==> !(old(context).assigned@)(p),
                r is None ==> old(context).all_assigned@;
}
pub struct AutonomousSearch<BackupBrancher> {
    pub predicate_id_info: PredicateIdGenerator,
    pub heap: KeyValueHeap,
    pub dormant_predicates: Vec<Predicate>,
    pub best_known_solution: Option<Solution>,
    pub backup_brancher: BackupBrancher,
    pub statistics: AutonomousSearchStatistics,
}
impl<BackupBrancher: Brancher> AutonomousSearch<BackupBrancher> {
    // every key of the heap has a registered predicate, and registered predicates have a representable negation
    pub open spec fn wf(&self) -> bool {
        self.heap.keys@.finite()
        && (forall|k: PredicateId| #![trigger self.heap.keys@.contains(k)] self.heap.keys@.contains(k) ==> self.predicate_id_info.map@.dom().contains(k))
        && (forall|k: PredicateId| #![trigger self.predicate_id_info.map@[k]] self.predicate_id_info.map@.dom().contains(k) ==> pred_negatable(self.predicate_id_info.map@[k]))
    }
//@@EXTRACT au@@
//@@EXTRACT br@@
}
} // verus!
fn main() {}
