//! F35 (C16/C02): Predicate negation computes `lower_bound - 1` / `upper_bound + 1` in i32.  add_clause negates every
//! literal of the clause; a clause that contains the trivially true literal [x >= i32::MIN] (or [x <= i32::MAX])
//! panics in debug builds and, in release builds, wraps the negation to the trivially TRUE [x <= i32::MAX]: the
//! clause is read as violated and a satisfiable model is reported unsatisfiable.  Exit 1 = reproduced.
use pumpkin_solver::predicate;
use pumpkin_solver::results::ProblemSolution;
use pumpkin_solver::results::SatisfactionResult;
use pumpkin_solver::termination::Indefinite;
use pumpkin_solver::Solver;

fn main() {
    let r = std::panic::catch_unwind(|| {
        let mut solver = Solver::default();
        let x = solver.new_bounded_integer(0, 5);
        let y = solver.new_bounded_integer(0, 5);
        // [x >= i32::MIN] \/ [y >= 3]: satisfied by every assignment
        if solver.add_clause([predicate!(x >= i32::MIN), predicate!(y >= 3)]).is_err() {
            return "add_clause reports infeasibility".to_string();
        }
        // a unit clause with the trivially true literal alone
        if solver.add_clause([predicate!(x <= i32::MAX)]).is_err() {
            return "add_clause of the unit clause [x <= i32::MAX] reports infeasibility".to_string();
        }
        // y = 0 is a solution of all of the above
        if solver.add_clause([predicate!(y <= 0)]).is_err() {
            return "add_clause of [y <= 0] reports infeasibility (the first clause was read as [y >= 3])".to_string();
        }
        let mut brancher = solver.default_brancher();
        match solver.satisfy(&mut brancher, &mut Indefinite) {
            SatisfactionResult::Satisfiable(s) => format!("satisfiable x={} y={}", s.get_integer_value(x), s.get_integer_value(y)),
            SatisfactionResult::Unsatisfiable => "unsatisfiable".to_string(),
            SatisfactionResult::Unknown => "unknown".to_string(),
        }
    });
    let what = "x, y in [0,5]; clause [x >= i32::MIN] or [y >= 3]; unit clause [x <= i32::MAX]; unit clause [y <= 0]";
    match r {
        Ok(v) if v.starts_with("satisfiable") => println!("ok: {what}: {v}"),
        Ok(v) => { println!("REPRODUCED: {what}: {v}"); std::process::exit(1); }
        Err(_) => { println!("REPRODUCED: {what}: panic (arithmetic overflow in the negation of a predicate)"); std::process::exit(1); }
    }
}
