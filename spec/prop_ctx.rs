// The propagation context as seen by a propagator (assumed contract; DESIGN.md 3/C17).
//   constraint : what the solver believes this propagator enforces (ghost)
//   live       : the assignments compatible with the current domains
// Every pruning call must justify itself:  (a) the reason holds in the current state,
// (b) constraint /\ reason ==> propagated fact.  From these the *verified wrappers* below derive that no
// solution of the constraint is removed.
// membership of a value in the domain of a variable, as the store answers it
pub uninterp spec fn dom_contains<V: IntegerVariable>(live: Live, var: &V, v: int) -> bool;
pub trait ReasonLike: Sized {
    spec fn holds(&self, a: Asg) -> bool;
}
impl ReasonLike for PropositionalConjunction {
    open spec fn holds(&self, a: Asg) -> bool { conj_holds(*self, a) }
}

pub struct PropagationContextMut<'a> {
    pub assignments: &'a mut Assignments,
    pub constraint: Ghost<Model>,
    // ghost mirror of `reification_literal.is_some()`
    pub reified: Ghost<bool>,
}

// "the variable is fixed in the current store": all live assignments give it the same value.  Stated through
// a chosen value so that the quantifier has a single bound variable (no quadratic instantiation).
pub open spec fn all_eq<V: IntegerVariable>(live: Live, v: &V, k: int) -> bool {
    forall|x: Asg| #[trigger] live(x) ==> v.eval(x) == k
}
pub open spec fn fixed_value<V: IntegerVariable>(live: Live, v: &V) -> int {
    choose|k: int| all_eq(live, v, k)
}
pub open spec fn fixed_in<V: IntegerVariable>(live: Live, v: &V) -> bool {
    all_eq(live, v, fixed_value(live, v))
}

// reads are deterministic: the same store and the same variable give the same bound (whichever context reads it)
pub uninterp spec fn store_lb<V: IntegerVariable>(live: Live, var: &V) -> int;
pub uninterp spec fn store_ub<V: IntegerVariable>(live: Live, var: &V) -> int;
impl<'a> PropagationContextMut<'a> {
    pub open spec fn live(&self) -> Live { self.assignments.live@ }
    pub open spec fn lb<V: IntegerVariable>(&self, var: &V) -> int { store_lb(self.assignments.live@, var) }
    pub open spec fn ub<V: IntegerVariable>(&self, var: &V) -> int { store_ub(self.assignments.live@, var) }

    #[verifier::external_body]
    pub fn lower_bound<V: IntegerVariable>(&self, var: &V) -> (r: i32)
        ensures r == self.lb(var),
                forall|a: Asg| #![trigger (self.live())(a)] (self.live())(a) ==> var.eval(a) >= r,
                // the bound is attained (bounds are never holes) unless the store is empty
                !live_empty(self.live()) ==> exists|a: Asg| #![trigger (self.live())(a)] (self.live())(a) && var.eval(a) == r,
    { unimplemented!() }

    #[verifier::external_body]
    pub fn upper_bound<V: IntegerVariable>(&self, var: &V) -> (r: i32)
        ensures r == self.ub(var),
                forall|a: Asg| #![trigger (self.live())(a)] (self.live())(a) ==> var.eval(a) <= r,
                !live_empty(self.live()) ==> exists|a: Asg| #![trigger (self.live())(a)] (self.live())(a) && var.eval(a) == r,
    { unimplemented!() }

    // real text (ReadDomains::is_fixed): `self.lower_bound(var) == self.upper_bound(var)`
    pub fn is_fixed<V: IntegerVariable>(&self, var: &V) -> (r: bool)
        ensures r ==> fixed_in(self.live(), var),
                fixed_in(self.live(), var) && !live_empty(self.live()) ==> r,
                r == (self.lb(var) == self.ub(var)),
    {
        let l = self.lower_bound(var);
        let u = self.upper_bound(var);
        proof {
            if l == u {
                assert(all_eq(self.live(), var, l as int));
            }
        }
        l == u
    }

    #[verifier::external_body]
    pub fn contains<V: IntegerVariable>(&self, var: &V, value: i32) -> (r: bool)
        ensures !r ==> forall|a: Asg| #![trigger (self.live())(a)] (self.live())(a) ==> var.eval(a) != value,
                r == dom_contains(self.live(), var, value as int),    // a function of the store (what a lazy reason can refer to later)
    { unimplemented!() }

    // ---- pruning: core (assumed) + verified wrapper deriving the soundness facts ----
    #[verifier::external_body]
    fn set_lower_bound_core<V: IntegerVariable, R: ReasonLike>(&mut self, var: &V, bound: i32, reason: R) -> (r: Result<(), EmptyDomain>)
        ensures
            final(self).constraint == old(self).constraint, final(self).reified == old(self).reified,
            forall|x: Asg| #[trigger] (final(self).live())(x) <==> ((old(self).live())(x) && var.eval(x) >= bound),
            *final(final(self).assignments) == *final(old(self).assignments),
            r is Err ==> live_empty(final(self).live()),
            // an Ok result never hides a wipe-out: if the store becomes empty the call reports it
            !live_empty(old(self).live()) && live_empty(final(self).live()) ==> r is Err,
    { unimplemented!() }

    pub fn set_lower_bound<V: IntegerVariable, R: ReasonLike>(&mut self, var: &V, bound: i32, reason: R) -> (r: Result<(), EmptyDomain>)
        requires
            // @C17 @C06 (a) the stated facts hold in the current solver state
            forall|a: Asg| #![trigger (old(self).live())(a)] (old(self).live())(a) ==> reason.holds(a),
            // @C17 @C02 @C06 (b) constraint and reason imply the propagated bound
            forall|a: Asg| #![trigger reason.holds(a)] (old(self).constraint@)(a) && reason.holds(a) ==> var.eval(a) >= bound,
        ensures
            final(self).constraint == old(self).constraint, final(self).reified == old(self).reified,
            forall|x: Asg| #[trigger] (final(self).live())(x) <==> ((old(self).live())(x) && var.eval(x) >= bound),
            *final(final(self).assignments) == *final(old(self).assignments),
            r is Err ==> live_empty(final(self).live()),
            // an Ok result never hides a wipe-out: if the store becomes empty the call reports it
            !live_empty(old(self).live()) && live_empty(final(self).live()) ==> r is Err,
            // derived: no solution of the constraint inside the current domains is removed
            forall|x: Asg| #![trigger (old(self).live())(x)] (old(self).live())(x) && (old(self).constraint@)(x) ==> (final(self).live())(x),
    {
        self.set_lower_bound_core(var, bound, reason)
    }

    #[verifier::external_body]
    fn set_upper_bound_core<V: IntegerVariable, R: ReasonLike>(&mut self, var: &V, bound: i32, reason: R) -> (r: Result<(), EmptyDomain>)
        ensures
            final(self).constraint == old(self).constraint, final(self).reified == old(self).reified,
            forall|x: Asg| #[trigger] (final(self).live())(x) <==> ((old(self).live())(x) && var.eval(x) <= bound),
            *final(final(self).assignments) == *final(old(self).assignments),
            r is Err ==> live_empty(final(self).live()),
            // an Ok result never hides a wipe-out: if the store becomes empty the call reports it
            !live_empty(old(self).live()) && live_empty(final(self).live()) ==> r is Err,
    { unimplemented!() }

    pub fn set_upper_bound<V: IntegerVariable, R: ReasonLike>(&mut self, var: &V, bound: i32, reason: R) -> (r: Result<(), EmptyDomain>)
        requires
            // @C17 @C06 (a) the stated facts hold in the current solver state
            forall|a: Asg| #![trigger (old(self).live())(a)] (old(self).live())(a) ==> reason.holds(a),
            // @C17 @C02 @C06 (b) constraint and reason imply the propagated bound
            forall|a: Asg| #![trigger reason.holds(a)] (old(self).constraint@)(a) && reason.holds(a) ==> var.eval(a) <= bound,
        ensures
            final(self).constraint == old(self).constraint, final(self).reified == old(self).reified,
            forall|x: Asg| #[trigger] (final(self).live())(x) <==> ((old(self).live())(x) && var.eval(x) <= bound),
            *final(final(self).assignments) == *final(old(self).assignments),
            r is Err ==> live_empty(final(self).live()),
            // an Ok result never hides a wipe-out: if the store becomes empty the call reports it
            !live_empty(old(self).live()) && live_empty(final(self).live()) ==> r is Err,
            forall|x: Asg| #![trigger (old(self).live())(x)] (old(self).live())(x) && (old(self).constraint@)(x) ==> (final(self).live())(x),
    {
        self.set_upper_bound_core(var, bound, reason)
    }

    #[verifier::external_body]
    fn remove_core<V: IntegerVariable, R: ReasonLike>(&mut self, var: &V, value: i32, reason: R) -> (r: Result<(), EmptyDomain>)
        ensures
            final(self).constraint == old(self).constraint, final(self).reified == old(self).reified,
            forall|x: Asg| #[trigger] (final(self).live())(x) <==> ((old(self).live())(x) && var.eval(x) != value),
            *final(final(self).assignments) == *final(old(self).assignments),
            r is Err ==> live_empty(final(self).live()),
            // an Ok result never hides a wipe-out: if the store becomes empty the call reports it
            !live_empty(old(self).live()) && live_empty(final(self).live()) ==> r is Err,
    { unimplemented!() }

    pub fn remove<V: IntegerVariable, R: ReasonLike>(&mut self, var: &V, value: i32, reason: R) -> (r: Result<(), EmptyDomain>)
        requires
            // @C17 @C06 (a) the stated facts hold in the current solver state
            forall|a: Asg| #![trigger (old(self).live())(a)] (old(self).live())(a) ==> reason.holds(a),
            // @C17 @C02 @C06 (b) constraint and reason imply that the value is impossible
            forall|a: Asg| #![trigger reason.holds(a)] (old(self).constraint@)(a) && reason.holds(a) ==> var.eval(a) != value,
        ensures
            final(self).constraint == old(self).constraint, final(self).reified == old(self).reified,
            forall|x: Asg| #[trigger] (final(self).live())(x) <==> ((old(self).live())(x) && var.eval(x) != value),
            *final(final(self).assignments) == *final(old(self).assignments),
            r is Err ==> live_empty(final(self).live()),
            // an Ok result never hides a wipe-out: if the store becomes empty the call reports it
            !live_empty(old(self).live()) && live_empty(final(self).live()) ==> r is Err,
            forall|x: Asg| #![trigger (old(self).live())(x)] (old(self).live())(x) && (old(self).constraint@)(x) ==> (final(self).live())(x),
    {
        self.remove_core(var, value, reason)
    }
}

// What every propagation function promises (used as the postcondition text of the propagator units):
//   monotone      : domains only shrink
//   sound         : no solution of the constraint within the old domains is removed          (C02, C12, C17)
//   conflict_ok   : an explicit conflict holds in the current state and contradicts the constraint (C17, C02)
pub open spec fn prop_monotone(old_live: Live, new_live: Live) -> bool {
    forall|x: Asg| #[trigger] new_live(x) ==> old_live(x)
}
pub open spec fn prop_sound(old_live: Live, new_live: Live, c: Model) -> bool {
    forall|x: Asg| #![trigger old_live(x)] old_live(x) && c(x) ==> new_live(x)
}
pub open spec fn conflict_ok(live: Live, c: Model, r: PropagationStatusCP) -> bool {
    match r {
        Ok(_) => true,
        Err(Inconsistency::EmptyDomain) => true,
        Err(Inconsistency::Conflict(conj)) =>
            // @C17 (a) all stated facts hold now, (b) together they contradict the constraint
            (forall|a: Asg| #![trigger live(a)] live(a) ==> conj_holds(conj, a))
            && (forall|a: Asg| #![trigger conj_holds(conj, a)] conj_holds(conj, a) ==> !c(a)),
    }
}
pub open spec fn err_means_infeasible(old_live: Live, c: Model, r: PropagationStatusCP) -> bool {
    r is Err ==> forall|x: Asg| #![trigger old_live(x)] old_live(x) ==> !c(x)
}
pub open spec fn ok_keeps_nonempty(old_live: Live, new_live: Live, r: PropagationStatusCP) -> bool {
    r is Ok && !live_empty(old_live) ==> !live_empty(new_live)
}

// The read-only context (PropagationContext): same read contract as the mutable one.
#[derive(Clone, Copy)]
pub struct PropagationContext<'a> {
    pub assignments: &'a Assignments,
}
impl<'a> PropagationContext<'a> {
    pub open spec fn live(&self) -> Live { self.assignments.live@ }
    pub open spec fn lb<V: IntegerVariable>(&self, var: &V) -> int { store_lb(self.assignments.live@, var) }
    pub open spec fn ub<V: IntegerVariable>(&self, var: &V) -> int { store_ub(self.assignments.live@, var) }

    #[verifier::external_body]
    pub fn lower_bound<V: IntegerVariable>(&self, var: &V) -> (r: i32)
        ensures r == self.lb(var),
                forall|a: Asg| #![trigger (self.live())(a)] (self.live())(a) ==> var.eval(a) >= r,
                !live_empty(self.live()) ==> exists|a: Asg| #![trigger (self.live())(a)] (self.live())(a) && var.eval(a) == r,
    { unimplemented!() }

    #[verifier::external_body]
    pub fn upper_bound<V: IntegerVariable>(&self, var: &V) -> (r: i32)
        ensures r == self.ub(var),
                forall|a: Asg| #![trigger (self.live())(a)] (self.live())(a) ==> var.eval(a) <= r,
                !live_empty(self.live()) ==> exists|a: Asg| #![trigger (self.live())(a)] (self.live())(a) && var.eval(a) == r,
    { unimplemented!() }
}
