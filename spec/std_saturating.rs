// i32 saturating arithmetic by its documented semantics (trusted: std).  The pinned text does not use these functions;
// a change that introduces them (seeds C09-4, C16-4) is then decided instead of ending as "unsupported construct".
pub open spec fn clamp_i32(v: int) -> int { if v > i32::MAX { i32::MAX as int } else if v < i32::MIN { i32::MIN as int } else { v } }
pub assume_specification [i32::saturating_add] (x: i32, y: i32) -> (r: i32) ensures r == clamp_i32(x + y);
pub assume_specification [i32::saturating_sub] (x: i32, y: i32) -> (r: i32) ensures r == clamp_i32(x - y);
pub assume_specification [i32::saturating_mul] (x: i32, y: i32) -> (r: i32) ensures r == clamp_i32(x * y);
