//! F57 (C10, also C03): the solution iterator adds one blocking clause per solution as an ordinary clause and never
//! retracts them.  After the iteration has reported Finished the solver is permanently infeasible: a following
//! `satisfy` on the same (satisfiable) model answers Unsatisfiable and creating a variable panics; after a partial
//! iteration later solves silently answer for "the model minus the solutions already seen".  Exit 1 = reproduced.
use pumpkin_solver::results::solution_iterator::IteratedSolution;
use pumpkin_solver::results::ProblemSolution;
use pumpkin_solver::results::SatisfactionResult;
use pumpkin_solver::termination::Indefinite;
use pumpkin_solver::Solver;

fn main() {
    let mut solver = Solver::default();
    let x = solver.new_bounded_integer(0, 2);
    let mut brancher = solver.default_brancher();
    let mut n = 0;
    let end;
    {
        let mut termination = Indefinite;
        let mut it = solver.get_solution_iterator(&mut brancher, &mut termination);
        loop {
            match it.next_solution() {
                IteratedSolution::Solution(..) => n += 1,
                IteratedSolution::Finished => { end = "Finished"; break; }
                IteratedSolution::Unknown => { end = "Unknown"; break; }
                IteratedSolution::Unsatisfiable => { end = "Unsatisfiable"; break; }
            }
        }
    }
    let second = match solver.satisfy(&mut brancher, &mut Indefinite) {
        SatisfactionResult::Satisfiable(s) => format!("Satisfiable(x = {})", s.get_integer_value(x)),
        SatisfactionResult::Unsatisfiable => "Unsatisfiable".into(),
        SatisfactionResult::Unknown => "Unknown".into(),
    };
    let third = std::panic::catch_unwind(std::panic::AssertUnwindSafe(|| { let _ = solver.new_bounded_integer(0, 1); }));
    println!("x in [0,2]: iteration gave {n} solutions, then {end}; then satisfy() = {second}; then new_bounded_integer: {}", if third.is_ok() { "ok" } else { "panic" });
    if n == 3 && end == "Finished" && second.starts_with("Satisfiable") && third.is_ok() {
        println!("ok: the solver is usable after the iteration");
    } else {
        println!("REPRODUCED: after the end of an iteration the solver answers for `model minus the enumerated solutions` instead of the model");
        std::process::exit(1);
    }
}
