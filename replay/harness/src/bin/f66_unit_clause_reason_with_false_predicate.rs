//! F66 (C10, C07): NogoodPropagator::add_permanent_nogood, nogood that is unit after preprocessing: the reason for the root
//! assignment was `input_nogood` minus the remaining predicate, compared by `!=`.  Preprocessing can REWRITE that predicate
//! ([d == 1] with ub(d) = 1 becomes [d >= 1]); its original form then stays in the reason although it is false: the
//! explanation of [d <= 0] was {[d == 1]}.  Conflict analysis later asks for the decision level of a reason predicate that is
//! not true and panics (`Option::unwrap()` on None, recursive_minimiser.rs).  Exit 1 = reproduced.
use pumpkin_solver::predicate;
use pumpkin_solver::results::solution_iterator::IteratedSolution;
use pumpkin_solver::termination::Indefinite;
use pumpkin_solver::Solver;

fn main() {
    let r = std::panic::catch_unwind(|| {
        let mut solver = Solver::default();
        let _a = solver.new_bounded_integer(1, 4);
        let _c = solver.new_bounded_integer(-1, 3);
        let d = solver.new_bounded_integer(-1, 1);
        solver.add_clause([predicate!(d != 1)]).unwrap();
        let mut brancher = solver.default_brancher();
        let mut termination = Indefinite;
        let mut iterator = solver.get_solution_iterator(&mut brancher, &mut termination);
        let mut n = 0;
        while let IteratedSolution::Solution(..) = iterator.next_solution() { n += 1; if n > 1000 { break; } }
        n
    });
    match r {
        Ok(40) => println!("ok: a in 1..4, c in -1..3, d in -1..1, add_clause([d != 1]): 40 solutions"),
        Ok(n) => { println!("REPRODUCED (differently): {n} solutions instead of 40"); std::process::exit(1); }
        Err(_) => { println!("REPRODUCED: the iteration panics in the recursive minimiser (a reason contains the false predicate [d == 1])"); std::process::exit(1); }
    }
}
