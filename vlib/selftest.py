"""Contract self-test (thorough tier, DESIGN.md 2.7): every stored mutant — a deliberate property-breaking edit
of the repository text — is applied to a scratch copy of the files a unit reads and MUST make a named obligation
fail.  A surviving mutant means the contract is too weak (exit 2, never an alarm on /repo)."""
import os
import shutil
import tomllib

from .common import REPO, UNITS, Undecided, rmtree, scratch
from .extract import Unit
from .verus import verify_unit


def load_mutants(unit):
    p = os.path.join(UNITS, unit, "mutants.toml")
    if not os.path.exists(p):
        return []
    with open(p, "rb") as f:
        return tomllib.load(f).get("mutant", [])


def run_one(unit, m):
    u = Unit(unit)
    files = sorted({it["file"] for it in u.cfg.get("item", [])})
    root = scratch("mut-" + unit)
    try:
        for rel in files:
            dst = os.path.join(root, rel)
            os.makedirs(os.path.dirname(dst), exist_ok=True)
            shutil.copy(os.path.join(REPO, rel), dst)
        tgt = os.path.join(root, m["file"])
        txt = open(tgt, encoding="utf-8").read()
        if txt.count(m["find"]) != 1:
            return "stale", f"mutant {m['name']}: `find` text occurs {txt.count(m['find'])} times in {m['file']} (needs exactly 1)"
        open(tgt, "w", encoding="utf-8").write(txt.replace(m["find"], m["replace"]))
        try:
            r = verify_unit(unit, root=root, canaries=False, keep=False, isolate_retry=False)
        except Undecided as e:
            return "undecided", f"mutant {m['name']}: {e}"
        obs = [f.obligation for f in r.failures]
        exp = m.get("expect", "")
        hit = [o for o in obs if exp in o]
        if hit:
            return "killed", hit[0]
        if r.undecided:
            return "undecided", f"mutant {m['name']}: {r.undecided[0]}"
        return "survived", f"mutant {m['name']} ({m.get('breaks', '')}) was NOT detected; failed obligations: {obs[:3]}"
    finally:
        rmtree(root)


def run_mutants(units, pid):
    problems = []
    summary = {"mutants": 0, "killed": 0, "details": []}
    for u in units:
        for m in load_mutants(u):
            if pid and m.get("properties") and pid not in m["properties"]:
                continue
            summary["mutants"] += 1
            st, info = run_one(u, m)
            summary["details"].append({"unit": u, "mutant": m["name"], "status": st, "obligation_or_reason": info})
            if st == "killed":
                summary["killed"] += 1
            elif st == "stale":
                pass    # the repository text changed under the mutant: reported in the summary, decides nothing
            else:
                problems.append("selftest: contract too weak or undecided: " + info)
    return {"problems": problems, "summary": summary}
