//@append pumpkin-solver/src/lib.rs
// ===== appended by /verif (engine K, group `branching`) — only compiled under cfg(kani) =====
#[cfg(kani)]
mod verif_kani_branching {
    use crate::basic_types::Random;
    use crate::branching::tie_breaking::*;
    use crate::branching::value_selection::*;
    use crate::branching::variable_selection::*;
    use crate::branching::SelectionContext;
    use crate::engine::variables::DomainId;
    use crate::engine::variables::Literal;
    use crate::engine::Assignments;

    /// A `Random` whose every answer is nondeterministic: all seeds and all tie-breaks at once.
    #[derive(Debug)]
    struct AnyRandom;
    impl Random for AnyRandom {
        fn generate_bool(&mut self, _probability: f64) -> bool {
            kani::any()
        }
        fn generate_usize_in_range(&mut self, range: std::ops::Range<usize>) -> usize {
            let v: usize = kani::any();
            kani::assume(range.start <= v && v < range.end);
            v
        }
        fn generate_i32_in_range(&mut self, range: std::ops::Range<i32>) -> i32 {
            let v: i32 = kani::any();
            kani::assume(range.start <= v && v < range.end);
            v
        }
        fn generate_f64(&mut self) -> f64 {
            0.5
        }
        fn get_weighted_choice(&mut self, weights: &[f64]) -> Option<usize> {
            if weights.is_empty() {
                None
            } else {
                let v: usize = kani::any();
                kani::assume(v < weights.len());
                Some(v)
            }
        }
    }

    /// C18 for a value selector: the proposed predicate is over the decision variable and is undecided.
    macro_rules! value_selector_full_range {
        ($name:ident, $sel:expr) => {
            #[kani::proof]
            #[kani::unwind(3)]
            fn $name() {
                let mut assignments = Assignments::default();
                let (lb, ub): (i32, i32) = kani::any();
                kani::assume(lb < ub);
                let x = assignments.grow(lb, ub);
                let mut rng = AnyRandom;
                let mut ctx = SelectionContext::new(&assignments, &mut rng);
                let mut sel = $sel;
                let p = ValueSelector::<DomainId>::select_value(&mut sel, &mut ctx, x);
                assert!(p.get_domain() == x);
                assert!(assignments.evaluate_predicate(p).is_none());
            }
        };
    }
    // bounds-only selectors: loop-free, complete over all lb < ub
    value_selector_full_range!(vs_in_domain_min, InDomainMin);
    value_selector_full_range!(vs_in_domain_max, InDomainMax);
    value_selector_full_range!(vs_in_domain_split, InDomainSplit);
    value_selector_full_range!(vs_reverse_in_domain_split, ReverseInDomainSplit);
    value_selector_full_range!(vs_in_domain_split_random, InDomainSplitRandom);
    value_selector_full_range!(vs_random_splitter, RandomSplitter);
    value_selector_full_range!(vs_out_domain_min, OutDomainMin);
    value_selector_full_range!(vs_out_domain_max, OutDomainMax);

    /// Selectors which scan the domain: bounded stand-in (interval domain, width <= 2, any lower bound).
    /// (Width 3 took each of these harnesses more than 45 minutes of CBMC time on the current tree.)
    macro_rules! value_selector_small_width {
        ($name:ident, $sel:expr) => {
            #[kani::proof]
            #[kani::unwind(6)]
            fn $name() {
                let mut assignments = Assignments::default();
                let (lb, w): (i32, i32) = kani::any();
                kani::assume(1 <= w && w <= 2);
                kani::assume(lb <= i32::MAX - w);
                let ub = lb + w;
                let x = assignments.grow(lb, ub);
                let mut rng = AnyRandom;
                let mut ctx = SelectionContext::new(&assignments, &mut rng);
                let mut sel = $sel;
                let p = ValueSelector::<DomainId>::select_value(&mut sel, &mut ctx, x);
                assert!(p.get_domain() == x);
                assert!(assignments.evaluate_predicate(p).is_none());
            }
        };
    }
    value_selector_small_width!(vs_in_domain_middle_w2, InDomainMiddle);
    value_selector_small_width!(vs_in_domain_median_w2, InDomainMedian);
    value_selector_small_width!(vs_in_domain_interval_w2, InDomainInterval);
    value_selector_small_width!(vs_in_domain_random_w2, InDomainRandom);
    value_selector_small_width!(vs_out_domain_median_w2, OutDomainMedian);
    value_selector_small_width!(vs_out_domain_random_w2, OutDomainRandom);

    #[kani::proof]
    #[kani::unwind(3)]
    fn vs_in_domain_random_literal() {
        let mut assignments = Assignments::default();
        let x = assignments.grow(0, 1);
        let lit = Literal::new(x);
        let mut rng = AnyRandom;
        let mut ctx = SelectionContext::new(&assignments, &mut rng);
        let mut sel = InDomainRandom;
        let p = ValueSelector::<Literal>::select_value(&mut sel, &mut ctx, lit);
        assert!(p.get_domain() == x);
        assert!(assignments.evaluate_predicate(p).is_none());
    }

    /// C18 for a variable selector over three variables with symbolic interval domains:
    /// `None` iff all its variables are fixed, `Some(v)` implies v is one of them and unfixed.
    macro_rules! variable_selector_three {
        ($name:ident, $mk:expr) => {
            #[kani::proof]
            #[kani::unwind(5)]
            fn $name() {
                let mut assignments = Assignments::default();
                let (l0, u0, l1, u1, l2, u2): (i32, i32, i32, i32, i32, i32) = kani::any();
                kani::assume(l0 <= u0 && l1 <= u1 && l2 <= u2);
                // domain sizes are computed as ub - lb in i32 by several selectors (see finding F5)
                kani::assume((u0 as i64 - l0 as i64) <= i32::MAX as i64);
                kani::assume((u1 as i64 - l1 as i64) <= i32::MAX as i64);
                kani::assume((u2 as i64 - l2 as i64) <= i32::MAX as i64);
                let x0 = assignments.grow(l0, u0);
                let x1 = assignments.grow(l1, u1);
                let x2 = assignments.grow(l2, u2);
                let vars = [x0, x1, x2];
                let mut rng = AnyRandom;
                let mut ctx = SelectionContext::new(&assignments, &mut rng);
                let mut sel = ($mk)(&vars);
                let r: Option<DomainId> = VariableSelector::<DomainId>::select_variable(&mut sel, &mut ctx);
                let all_fixed = l0 == u0 && l1 == u1 && l2 == u2;
                match r {
                    None => assert!(all_fixed),
                    Some(v) => {
                        assert!(v == x0 || v == x1 || v == x2);
                        assert!(!assignments.is_domain_assigned(&v));
                    }
                }
            }
        };
    }
    /// The same over two variables (MaxRegret walks the domains; three symbolic domains did not finish in 45 minutes).
    macro_rules! variable_selector_two {
        ($name:ident, $mk:expr) => {
            #[kani::proof]
            #[kani::unwind(5)]
            fn $name() {
                let mut assignments = Assignments::default();
                let (l0, u0, l1, u1): (i32, i32, i32, i32) = kani::any();
                kani::assume(l0 <= u0 && l1 <= u1);
                kani::assume((u0 as i64 - l0 as i64) <= i32::MAX as i64);
                kani::assume((u1 as i64 - l1 as i64) <= i32::MAX as i64);
                let x0 = assignments.grow(l0, u0);
                let x1 = assignments.grow(l1, u1);
                let vars = [x0, x1];
                let mut rng = AnyRandom;
                let mut ctx = SelectionContext::new(&assignments, &mut rng);
                let mut sel = ($mk)(&vars);
                let r: Option<DomainId> = VariableSelector::<DomainId>::select_variable(&mut sel, &mut ctx);
                let all_fixed = l0 == u0 && l1 == u1;
                match r {
                    None => assert!(all_fixed),
                    Some(v) => {
                        assert!(v == x0 || v == x1);
                        assert!(!assignments.is_domain_assigned(&v));
                    }
                }
            }
        };
    }
    variable_selector_two!(var_max_regret, |v: &[DomainId; 2]| MaxRegret::new(v));
    variable_selector_three!(var_input_order, |v: &[DomainId; 3]| InputOrder::new(v));
    variable_selector_three!(var_smallest, |v: &[DomainId; 3]| Smallest::new(v));
    variable_selector_three!(var_largest, |v: &[DomainId; 3]| Largest::new(v));
    variable_selector_three!(var_first_fail, |v: &[DomainId; 3]| FirstFail::new(v));
    variable_selector_three!(var_anti_first_fail, |v: &[DomainId; 3]| AntiFirstFail::new(v));
    variable_selector_three!(var_occurrence, |v: &[DomainId; 3]| Occurrence::new(v, &[2, 1, 2]));
    variable_selector_three!(var_random, |v: &[DomainId; 3]| RandomSelector::new(v.iter().copied()));
    variable_selector_three!(var_proportional_domain_size, |v: &[DomainId; 3]| ProportionalDomainSize::new(v));
    variable_selector_three!(var_smallest_random_tie, |v: &[DomainId; 3]| Smallest::with_tie_breaker(
        v,
        RandomTieBreaker::new(Direction::Minimum, Box::new(AnyRandom))
    ));
}
