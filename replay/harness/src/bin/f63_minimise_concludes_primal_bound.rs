//! F63 (C06): both optimisation procedures concluded the proof of a MINIMISATION with `[objective <= optimum]` (the
//! primal side: not a bound that holds in every solution); the DRCP conclusion is the dual bound, `[objective >= optimum]`
//! for a minimisation (`[objective <= optimum]` for a maximisation, which was right).  Exit 1 = reproduced.
use std::num::NonZero;
use pumpkin_solver::constraints;
use pumpkin_solver::optimisation::linear_sat_unsat::LinearSatUnsat;
use pumpkin_solver::optimisation::linear_unsat_sat::LinearUnsatSat;
use pumpkin_solver::optimisation::OptimisationDirection;
use pumpkin_solver::options::SolverOptions;
use pumpkin_solver::proof::ProofLog;
use pumpkin_solver::results::OptimisationResult;
use pumpkin_solver::results::SolutionReference;
use pumpkin_solver::termination::Indefinite;
use pumpkin_solver::variables::TransformableVariable;
use pumpkin_solver::DefaultBrancher;
use pumpkin_solver::Solver;

// x, y in 0..5, x + y >= 3; minimise / maximise x.  Returns the text of the atomic constraint that is concluded.
fn run(name: &str, lsu: bool, direction: OptimisationDirection) -> String {
    let path = std::env::temp_dir().join(name);
    let _ = std::fs::remove_file(&path);
    {
        let mut s = Solver::with_options(SolverOptions { proof_log: ProofLog::cp(&path, drcp_format::Format::Text, true, false).unwrap(), ..Default::default() });
        let x = s.new_named_bounded_integer(0, 5, "x");
        let y = s.new_named_bounded_integer(0, 5, "y");
        s.add_constraint(constraints::less_than_or_equals([x.scaled(-1), y.scaled(-1)], -3)).with_tag(NonZero::new(1).unwrap()).post().unwrap();
        s.add_constraint(constraints::less_than_or_equals([x.scaled(1)], 4)).with_tag(NonZero::new(2).unwrap()).post().unwrap();
        let mut b = s.default_brancher();
        let cb: fn(&Solver, SolutionReference, &DefaultBrancher) = |_, _, _| {};
        let r = if lsu { s.optimise(&mut b, &mut Indefinite, LinearSatUnsat::new(direction, x, cb)) } else { s.optimise(&mut b, &mut Indefinite, LinearUnsatSat::new(direction, x, cb)) };
        assert!(matches!(r, OptimisationResult::Optimal(_)));
    }
    let proof = std::fs::read_to_string(&path).unwrap_or_default();
    let lits = std::fs::read_to_string(path.with_extension("lits")).unwrap_or_default();
    let concl = proof.lines().filter(|l| l.starts_with("c ")).last().unwrap_or("c ?").trim_start_matches("c ").trim().to_string();
    let code: i64 = concl.parse().unwrap_or(0);
    let def = lits.lines().find(|l| l.split_whitespace().next() == Some(&code.abs().to_string())).unwrap_or("?").to_string();
    format!("c {concl}  with  {def}")
}

fn main() {
    let mut bad = 0;
    for (lsu, pname) in [(true, "linear SAT-UNSAT"), (false, "linear UNSAT-SAT")] {
        let mn = run("pv_f63_min.drcp", lsu, OptimisationDirection::Minimise);
        let mx = run("pv_f63_max.drcp", lsu, OptimisationDirection::Maximise);
        println!("{pname}: minimise x (optimum 0): {mn};   maximise x (optimum 4): {mx}");
        // minimise: the dual bound is x >= 0, i.e. the literal [x >= 0] positive or [x <= -1] / [x < 0] negative
        let min_ok = (mn.contains(">= 0") && !mn.starts_with("c -")) || (mn.starts_with("c -") && (mn.contains("<= -1") || mn.contains("< 0")));
        let max_ok = (mx.contains("<= 4") && !mx.starts_with("c -")) || (mx.starts_with("c -") && (mx.contains(">= 5") || mx.contains("> 4")));
        if !min_ok || !max_ok { bad += 1; }
    }
    if bad > 0 { println!("REPRODUCED: a conclusion is not the dual bound of its direction"); std::process::exit(1); }
    println!("ok: every conclusion is the dual bound");
}
