//! Probe (reported by a seeding agent on the unchanged tree): a clause with two equality predicates on the same
//! variable: add_clause([a != 2, c == 6, c == 7]).
use pumpkin_solver::predicate;
use pumpkin_solver::results::solution_iterator::IteratedSolution;
use pumpkin_solver::results::ProblemSolution;
use pumpkin_solver::termination::Indefinite;
use pumpkin_solver::Solver;

fn main() {
    let mut solver = Solver::default();
    let a = solver.new_bounded_integer(0, 3);
    let c = solver.new_bounded_integer(5, 9);
    let r = solver.add_clause([predicate!(a != 2), predicate!(c == 6), predicate!(c == 7)]);
    println!("add_clause -> {:?}", r.is_ok());
    let mut brancher = solver.default_brancher();
    let mut term = Indefinite;
    let mut it = solver.get_solution_iterator(&mut brancher, &mut term);
    let mut bad = vec![];
    let mut n = 0;
    loop {
        match it.next_solution() {
            IteratedSolution::Solution(s, _, _) => {
                n += 1;
                let (va, vc) = (s.get_integer_value(a), s.get_integer_value(c));
                if !(va != 2 || vc == 6 || vc == 7) {
                    bad.push((va, vc));
                }
            }
            _ => break,
        }
    }
    println!("{n} solutions, violating the clause: {bad:?}");
    if !bad.is_empty() {
        println!("REPRODUCED: clause [a != 2] \\/ [c == 6] \\/ [c == 7] is not enforced: {bad:?}");
        std::process::exit(1);
    }
}
