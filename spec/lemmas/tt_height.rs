// Lemmas about the height function of a time-table (proved here; no assumptions).
pub proof fn lemma_ht_concat<Var>(a: TT<Var>, b: TT<Var>, t: int)
    ensures ht(a + b, t) == ht(a, t) + ht(b, t)
    decreases b.len()
{
    if b.len() == 0 {
        assert(a + b =~= a);
    } else {
        assert((a + b).drop_last() =~= a + b.drop_last());
        assert((a + b).last() == b.last());
        lemma_ht_concat(a, b.drop_last(), t);
    }
}
pub proof fn lemma_ht_outside<Var>(d: TT<Var>, lo: int, hi: int, t: int)
    requires within(d, lo, hi), t < lo || t > hi
    ensures ht(d, t) == 0
    decreases d.len()
{
    if d.len() > 0 {
        assert(within(d.drop_last(), lo, hi)) by {
            assert forall|k: int| #![trigger d.drop_last()[k]] 0 <= k < d.drop_last().len() implies lo <= d.drop_last()[k].start && d.drop_last()[k].end <= hi by {
                assert(d.drop_last()[k] == d[k]);
            }
        }
        lemma_ht_outside(d.drop_last(), lo, hi, t);
        assert(d.last() == d[d.len() - 1]);
    }
}
pub proof fn lemma_ht_single<Var>(p: ResourceProfile<Var>, t: int)
    ensures ht(seq![p], t) == (if covers(p, t) { p.height as int } else { 0 })
{
    assert(seq![p].drop_last() =~= Seq::<ResourceProfile<Var>>::empty());
    assert(seq![p].last() == p);
    assert(ht(seq![p].drop_last(), t) == 0);
}
pub proof fn lemma_wf_concat<Var>(a: TT<Var>, b: TT<Var>, la: int, fa: int, lob: int, hib: int)
    requires wf(a), within(a, la, fa), wf(b), within(b, lob, hib), fa < lob
    ensures wf(a + b), within(a + b, if la <= lob { la } else { lob }, if fa >= hib { fa } else { hib })
{
    let c = a + b;
    assert forall|i: int| #![trigger c[i]] 0 <= i < c.len() implies i32::MIN < c[i].start <= c[i].end < i32::MAX by {
        if i < a.len() { assert(c[i] == a[i]); } else { assert(c[i] == b[i - a.len()]); }
    }
    assert forall|i: int, j: int| #![trigger c[i], c[j]] 0 <= i < j < c.len() implies c[i].end < c[j].start by {
        if i < a.len() { assert(c[i] == a[i]); } else { assert(c[i] == b[i - a.len()]); }
        if j < a.len() { assert(c[j] == a[j]); } else { assert(c[j] == b[j - a.len()]); }
    }
    assert forall|k: int| #![trigger c[k]] 0 <= k < c.len() implies (if la <= lob { la } else { lob }) <= c[k].start && c[k].end <= (if fa >= hib { fa } else { hib }) by {
        if k < a.len() { assert(c[k] == a[k]); } else { assert(c[k] == b[k - a.len()]); }
    }
}
// one step of accumulation: `s1` extends `s0` by rectangles inside [lo, hi], which lies to the right of the frontier `f` of `s0`
pub proof fn lemma_step<Var>(s0: TT<Var>, s1: TT<Var>, l: int, f: int, lo: int, hi: int, ur: Range<i32>, base: int, usage: int)
    requires wf(s0), within(s0, l, f), extends_by(s0, s1, lo, hi, ur, base, usage), f < lo, l <= lo
    ensures wf(s1), within(s1, l, if f >= hi { f } else { hi }),
            forall|t: int| #![trigger ht(s1, t)] ht(s1, t) == ht(s0, t) + (if lo <= t <= hi { base + (if in_part(ur, t) { usage } else { 0int }) } else { 0 })
{
    let d = s1.subrange(s0.len() as int, s1.len() as int);
    assert(s1 =~= s0 + d);
    lemma_wf_concat(s0, d, l, f, lo, hi);
    assert forall|t: int| #![trigger ht(s1, t)] ht(s1, t) == ht(s0, t) + (if lo <= t <= hi { base + (if in_part(ur, t) { usage } else { 0int }) } else { 0 }) by {
        lemma_ht_concat(s0, d, t);
        if !(lo <= t <= hi) { lemma_ht_outside(d, lo, hi, t); }
    }
}
// a sub-table of a well-formed table is well-formed and lies between its neighbours
pub proof fn lemma_wf_subrange<Var>(tt: TT<Var>, i: int, j: int)
    requires wf(tt), 0 <= i <= j <= tt.len()
    ensures wf(tt.subrange(i, j)),
            i < j ==> within(tt.subrange(i, j), tt[i].start as int, tt[j - 1].end as int),
{
    let s = tt.subrange(i, j);
    assert forall|k: int| #![trigger s[k]] 0 <= k < s.len() implies i32::MIN < s[k].start <= s[k].end < i32::MAX by { assert(s[k] == tt[i + k]); }
    assert forall|a: int, b: int| #![trigger s[a], s[b]] 0 <= a < b < s.len() implies s[a].end < s[b].start by { assert(s[a] == tt[i + a]); assert(s[b] == tt[i + b]); }
    if i < j {
        assert forall|k: int| #![trigger s[k]] 0 <= k < s.len() implies tt[i].start <= s[k].start && s[k].end <= tt[j - 1].end by {
            assert(s[k] == tt[i + k]);
            if k > 0 { assert(tt[i].end < tt[i + k].start); }
            if i + k < j - 1 { assert(tt[i + k].end < tt[j - 1].start); }
        }
    }
}
pub proof fn lemma_pushed<Var>(s0: TT<Var>, s1: TT<Var>, ur: Range<i32>, base: int, usage: int)
    requires s1.len() == s0.len() + 1, s1.drop_last() =~= s0,
             i32::MIN < s1.last().start <= s1.last().end < i32::MAX,
             forall|t: int| s1.last().start <= t <= s1.last().end ==> s1.last().height == base + (if in_part(ur, t) { usage } else { 0int }),
    ensures extends_by(s0, s1, s1.last().start as int, s1.last().end as int, ur, base, usage)
{
    let p = s1.last();
    let d = s1.subrange(s0.len() as int, s1.len() as int);
    assert(d =~= seq![p]);
    assert(s1.subrange(0, s0.len() as int) =~= s0);
    assert forall|t: int| #![trigger ht(d, t)] p.start <= t <= p.end implies ht(d, t) == base + (if in_part(ur, t) { usage } else { 0int }) by { lemma_ht_single(p, t); }
}
pub proof fn lemma_unchanged<Var>(s0: TT<Var>, lo: int, hi: int, ur: Range<i32>, base: int, usage: int)
    requires lo > hi
    ensures extends_by(s0, s0, lo, hi, ur, base, usage)
{
    assert(s0.subrange(0, s0.len() as int) =~= s0);
    assert(s0.subrange(s0.len() as int, s0.len() as int) =~= Seq::<ResourceProfile<Var>>::empty());
}
// one iteration of the insertion loop: the six checks fill the regions between the old and the new frontier
pub proof fn lemma_iteration<Var>(tt: TT<Var>, s: int, e: int, ci: int, ur: Range<i32>, usage: int,
        s0: TT<Var>, s1: TT<Var>, s2: TT<Var>, s3: TT<Var>, s4: TT<Var>, s5: TT<Var>, s6: TT<Var>)
    requires
        ins_pre(tt, s, e, ur, usage), s <= ci <= e,
        acc(s0, tt, s, e, ci, ur, usage),
        ci == s ==> extends_by(s0, s1, ur.start as int, tt[ci].start - 1, ur, 0, usage),
        ci != s ==> s1 == s0,
        ci != s ==> extends_by(s1, s2, tt[ci - 1].end + 1, tt[ci].start - 1, ur, 0, usage),
        ci == s ==> s2 == s1,
        extends_by(s2, s3, tt[ci].start as int, spec_min((ur.start - 1) as i32, tt[ci].end) as int, ur, tt[ci].height as int, 0),
        extends_by(s3, s4, spec_max(tt[ci].start, ur.start) as int, spec_min(tt[ci].end, (ur.end - 1) as i32) as int, ur, tt[ci].height as int, usage),
        extends_by(s4, s5, spec_max(ur.end, tt[ci].start) as int, tt[ci].end as int, ur, tt[ci].height as int, 0),
        ci == e ==> extends_by(s5, s6, tt[ci].end + 1, ur.end - 1, ur, 0, usage),
        ci != e ==> s6 == s5,
    ensures
        acc(s6, tt, s, e, ci + 1, ur, usage)
{
    broadcast use {std_minmax_axioms::axiom_max_i32, std_minmax_axioms::axiom_min_i32};
    let p = tt[ci];
    let l = lo0(tt, s, ur);
    let f0 = frontier(tt, s, e, ci, ur);
    assert(overlaps(p, ur));
    if ci > s { assert(tt[ci - 1].end < tt[ci].start); assert(overlaps(tt[ci - 1], ur)); }
    // frontier after each step
    let f1 = if ci == s && ur.start < p.start { p.start - 1 } else { f0 };
    if ci == s { lemma_step(s0, s1, l, f0, ur.start as int, p.start - 1, ur, 0, usage); }
    let f2 = p.start - 1;
    if ci != s { lemma_step(s1, s2, l, f1, tt[ci - 1].end + 1, p.start - 1, ur, 0, usage); }
    let h3 = spec_min((ur.start - 1) as i32, p.end) as int;
    let f3 = if f2 >= h3 { f2 } else { h3 };
    lemma_step(s2, s3, l, f2, p.start as int, h3, ur, p.height as int, 0);
    let l4 = spec_max(p.start, ur.start) as int; let h4 = spec_min(p.end, (ur.end - 1) as i32) as int;
    let f4 = if f3 >= h4 { f3 } else { h4 };
    lemma_step(s3, s4, l, f3, l4, h4, ur, p.height as int, usage);
    let l5 = spec_max(ur.end, p.start) as int;
    let f5 = p.end as int;
    lemma_step(s4, s5, l, f4, l5, p.end as int, ur, p.height as int, 0);
    if ci == e { lemma_step(s5, s6, l, f5, p.end + 1, ur.end - 1, ur, 0, usage); }
    let mid0 = tt.subrange(s, ci); let mid1 = tt.subrange(s, ci + 1);
    assert(mid1.drop_last() =~= mid0); assert(mid1.last() == tt[ci]);
    let f6 = frontier(tt, s, e, ci + 1, ur);
    assert forall|t: int| #![trigger ht(s6, t)] ht(s6, t) == ht(mid1, t) + (if l <= t <= f6 && in_part(ur, t) { usage } else { 0 }) by {
        let _ = ht(s0, t); let _ = ht(s1, t); let _ = ht(s2, t); let _ = ht(s3, t); let _ = ht(s4, t); let _ = ht(s5, t);
    }
}
// the splice at the end of the insertion
pub proof fn lemma_spliced<Var>(tt: TT<Var>, s: int, e: int, ur: Range<i32>, usage: int, added: TT<Var>, new: TT<Var>)
    requires
        ins_pre(tt, s, e, ur, usage),
        acc(added, tt, s, e, e + 1, ur, usage),
        new == tt.subrange(0, s) + added + tt.subrange(e + 1, tt.len() as int),
    ensures
        wf(new),
        forall|t: int| #![trigger ht(new, t)] ht(new, t) == ht(tt, t) + (if in_part(ur, t) { usage } else { 0 }),
{
    let pre = tt.subrange(0, s); let mid = tt.subrange(s, e + 1); let suf = tt.subrange(e + 1, tt.len() as int);
    let l = lo0(tt, s, ur); let f = frontier(tt, s, e, e + 1, ur);
    assert(tt =~= (pre + mid) + suf);
    lemma_wf_subrange(tt, 0, s); lemma_wf_subrange(tt, s, e + 1); lemma_wf_subrange(tt, e + 1, tt.len() as int);
    if s > 0 { assert(tt[s - 1].end < tt[s].start); lemma_wf_concat(pre, added, tt[0].start as int, tt[s - 1].end as int, l, f); }
    else { assert(pre + added =~= added); }
    if e + 1 < tt.len() {
        assert(tt[e].end < tt[e + 1].start);
        let lp = if s > 0 && tt[0].start <= l { tt[0].start as int } else { l };
        let fp = if s > 0 && tt[s - 1].end >= f { tt[s - 1].end as int } else { f };
        lemma_wf_concat(pre + added, suf, lp, fp, tt[e + 1].start as int, tt[tt.len() - 1].end as int);
    } else { assert((pre + added) + suf =~= pre + added); }
    assert forall|t: int| #![trigger ht(new, t)] ht(new, t) == ht(tt, t) + (if in_part(ur, t) { usage } else { 0 }) by {
        lemma_ht_concat(pre + added, suf, t); lemma_ht_concat(pre, added, t);
        lemma_ht_concat(pre + mid, suf, t); lemma_ht_concat(pre, mid, t);
        let _ = ht(added, t);
        assert(overlaps(tt[s], ur)); assert(overlaps(tt[e], ur));
    }
}
// nothing is added to a region whose expected height is zero everywhere
pub proof fn lemma_zero_region<Var>(s0: TT<Var>, lo: int, hi: int, ur: Range<i32>, base: int, usage: int)
    requires forall|t: int| lo <= t <= hi ==> base + (if in_part(ur, t) { usage } else { 0int }) == 0
    ensures extends_by(s0, s0, lo, hi, ur, base, usage)
{
    assert(s0.subrange(0, s0.len() as int) =~= s0);
    assert(s0.subrange(s0.len() as int, s0.len() as int) =~= Seq::<ResourceProfile<Var>>::empty());
}
