#![feature(allocator_api)]
#![allow(unused_imports)]
use vstd::prelude::*;
use std::rc::Rc;
use std::ops::Range;
use std::cmp::max;
use std::cmp::min;
//@@SPEC macros.rs@@
verus! {
//@@SPEC std_minmax.rs@@
//@@SPEC std_vec_splice.rs@@
broadcast use {std_minmax_axioms::axiom_max_i32, std_minmax_axioms::axiom_min_i32};
pub trait IntegerVariable {}
// std: the clone of an Rc is the same Rc (trusted)
#[verifier::external_body]
pub proof fn axiom_rc_cloned<T>(a: Rc<T>, b: Rc<T>)
    ensures vstd::pervasive::cloned(a, b) ==> a == b
{}
#[derive(Clone, Copy, PartialEq, Eq, Structural)]
pub struct LocalId { pub v: u32 }
//@@EXTRACT s_task@@
#[verifier::allow(autoderive_clone_without_spec)]
//@@EXTRACT s_profile@@
//@@SPEC tt_defs.rs@@
//@@SPEC lemmas/tt_height.rs@@
// A-COVER: the removed part lies inside the union of the overlapped profiles, which follow each other without a gap
pub open spec fn rem_pre<Var>(tt: TT<Var>, s: int, e: int, ur: Range<i32>, usage: int, id: LocalId) -> bool {
    &&& ins_pre(tt, s, e, ur, -usage)
    &&& tt[s].start <= ur.start && ur.end - 1 <= tt[e].end
    &&& forall|i: int| #![trigger tt[i]] s < i <= e ==> tt[i].start == tt[i - 1].end + 1
    &&& forall|i: int| #![trigger tt[i]] s <= i <= e ==> has_task(tt[i].profile_tasks@, id)
}
pub open spec fn has_task<Var>(tasks: Seq<Rc<Task<Var>>>, id: LocalId) -> bool {
    exists|k: int| #![trigger tasks[k]] 0 <= k < tasks.len() && tasks[k].id == id
}
// one iteration of the removal loop (region bounds are passed as integers: h1 = min(ur.start - 1, p.end),
// l2 = max(p.start, ur.start), h2 = min(p.end, ur.end - 1), l3 = max(ur.end, p.start))
pub proof fn lemma_iteration_rem<Var>(tt: TT<Var>, s: int, e: int, ci: int, ur: Range<i32>, usage: int, id: LocalId,
        s0: TT<Var>, s1: TT<Var>, s2: TT<Var>, s3: TT<Var>, h1: int, l2: int, h2: int, l3: int)
    requires
        rem_pre(tt, s, e, ur, usage, id), s <= ci <= e,
        acc(s0, tt, s, e, ci, ur, -usage),
        h1 == (if ur.start - 1 <= tt[ci].end { ur.start - 1 } else { tt[ci].end as int }),
        l2 == (if tt[ci].start >= ur.start { tt[ci].start as int } else { ur.start as int }),
        h2 == (if tt[ci].end <= ur.end - 1 { tt[ci].end as int } else { ur.end - 1 }),
        l3 == (if ur.end >= tt[ci].start { ur.end as int } else { tt[ci].start as int }),
        ci == s ==> extends_by(s0, s1, tt[ci].start as int, h1, ur, tt[ci].height as int, 0),
        ci != s ==> s1 == s0,
        extends_by(s1, s2, l2, h2, ur, tt[ci].height as int, -usage),
        ci == e ==> extends_by(s2, s3, l3, tt[ci].end as int, ur, tt[ci].height as int, 0),
        ci != e ==> s3 == s2,
    ensures
        acc(s3, tt, s, e, ci + 1, ur, -usage)
{
    let p = tt[ci];
    let l = lo0(tt, s, ur);
    let f0 = frontier(tt, s, e, ci, ur);
    assert(overlaps(p, ur));
    assert(overlaps(tt[s], ur)); assert(overlaps(tt[e], ur));
    if ci > s { assert(tt[ci].start == tt[ci - 1].end + 1); assert(overlaps(tt[ci - 1], ur)); }
    if ci < e { assert(tt[ci + 1].start == tt[ci].end + 1); assert(overlaps(tt[ci + 1], ur)); }
    assert(l == tt[s].start);
    assert(f0 == p.start - 1);
    let f1 = if ci == s && f0 < h1 { h1 } else { f0 };
    if ci == s { lemma_step(s0, s1, l, f0, p.start as int, h1, ur, p.height as int, 0); }
    let f2 = if f1 >= h2 { f1 } else { h2 };
    lemma_step(s1, s2, l, f1, l2, h2, ur, p.height as int, -usage);
    if ci == e { lemma_step(s2, s3, l, f2, l3, p.end as int, ur, p.height as int, 0); }
    let mid0 = tt.subrange(s, ci); let mid1 = tt.subrange(s, ci + 1);
    assert(mid1.drop_last() =~= mid0); assert(mid1.last() == tt[ci]);
    let f3 = frontier(tt, s, e, ci + 1, ur);
    assert(f3 == p.end);
    assert forall|t: int| #![trigger ht(s3, t)] ht(s3, t) == ht(mid1, t) + (if l <= t <= f3 && in_part(ur, t) { -usage } else { 0 }) by {
        let _ = ht(s0, t); let _ = ht(s1, t); let _ = ht(s2, t);
    }
}
//@@EXTRACT r_remove_task@@
//@@EXTRACT r_first@@
//@@EXTRACT r_last@@
//@@EXTRACT r_overlap@@
//@@EXTRACT rem@@
} // verus!
fn main() {}
