#![feature(allocator_api)]
use vstd::prelude::*;
//@@SPEC macros.rs@@
verus! {
use vstd::arithmetic::power2::*;
// ---- propositional vocabulary ----
pub type Asg = spec_fn(int) -> bool;
#[derive(Clone, Copy, PartialEq, Eq, Structural)]
pub struct Literal { pub var: u32, pub positive: bool }
pub open spec fn lit_holds(l: Literal, a: Asg) -> bool { if l.positive { a(l.var as int) } else { !a(l.var as int) } }
impl vstd::std_specs::ops::NotSpecImpl for Literal {
    open spec fn obeys_not_spec() -> bool { true }
    open spec fn not_req(self) -> bool { true }
    open spec fn not_spec(self) -> Literal { Literal { var: self.var, positive: !self.positive } }
}
impl std::ops::Not for Literal {
    type Output = Literal;
    fn not(self) -> (r: Literal) { Literal { var: self.var, positive: !self.positive } }
}
#[derive(Clone, Copy)]
pub struct Predicate { pub lit: Literal }
impl Literal {
    pub fn get_true_predicate(&self) -> (r: Predicate) ensures r.lit == *self { Predicate { lit: *self } }
}
pub trait ClauseLike { spec fn preds(&self) -> Seq<Predicate>; }
impl<const N: usize> ClauseLike for [Predicate; N] { open spec fn preds(&self) -> Seq<Predicate> { self@ } }
impl ClauseLike for Vec<Predicate> { open spec fn preds(&self) -> Seq<Predicate> { self@ } }
pub open spec fn clause_holds(c: Seq<Predicate>, a: Asg) -> bool { exists|i: int| #![trigger c[i]] 0 <= i < c.len() && lit_holds(c[i].lit, a) }
pub type Log = Seq<Seq<Predicate>>;
pub open spec fn sat(log: Log, a: Asg) -> bool { forall|i: int| #![trigger log[i]] 0 <= i < log.len() ==> clause_holds(log[i], a) }

#[derive(Clone, Copy)]
//@@EXTRACT s_wl@@

pub enum ConstraintOperationError { InfeasibleClause }
#[verifier::external]
impl std::fmt::Debug for ConstraintOperationError { fn fmt(&self, f: &mut std::fmt::Formatter<'_>) -> std::fmt::Result { Ok(()) } }
#[derive(Clone, Copy)]
pub enum EncodingError { RootPropagationConflict, CannotStrengthen, TriviallyUnsatisfiable }
pub struct Solver { pub log: Ghost<Log>, pub calm: Ghost<bool> }
impl Solver {
    #[verifier::external_body]
    pub fn new_literal(&mut self) -> (r: Literal) ensures final(self).log == old(self).log, final(self).calm == old(self).calm { unimplemented!() }
    #[verifier::external_body]
    pub fn add_clause<I: ClauseLike>(&mut self, clause: I) -> (r: Result<(), ConstraintOperationError>)
        ensures final(self).log@ == old(self).log@.push(clause.preds()), final(self).calm == old(self).calm,
                old(self).calm@ ==> r is Ok,   // A-CALM
                final(self).log@.len() < usize::MAX,   // A-MEM: the clause database lives in memory
    { unimplemented!() }
}
// the map from partial sum to its literal (std HashMap with the Fnv hasher, by the documented map semantics)
pub struct HashMap<K, V> { pub m: Ghost<Map<K, V>>, pub x: Option<(K, V)> }
impl<K, V> HashMap<K, V> {
    #[verifier::external_body]
    pub fn default() -> (r: Self) ensures r.m@ == Map::<K, V>::empty() { unimplemented!() }
    #[verifier::external_body]
    pub fn clear(&mut self) ensures final(self).m@ == Map::<K, V>::empty() { unimplemented!() }
    #[verifier::external_body]
    pub fn insert(&mut self, k: K, v: V) -> (r: Option<V>) ensures final(self).m@ == old(self).m@.insert(k, v) { unimplemented!() }
    #[verifier::external_body]
    pub fn get(&self, k: &K) -> (r: Option<&V>) ensures r is Some == self.m@.dom().contains(*k), r matches Some(v) ==> *v == self.m@[*k] { unimplemented!() }
}
pub open spec fn is_pow2(x: int) -> bool { exists|e: nat| x == pow2(e) }
pub assume_specification [usize::next_power_of_two] (x: usize) -> (r: usize)
    requires x <= 0x4000_0000_0000_0000,
    ensures r >= x, r >= 1, is_pow2(r as int), x >= 1 ==> r < 2 * x;
pub assume_specification [usize::is_power_of_two] (x: usize) -> (r: bool)
    ensures r == is_pow2(x as int);
//@@SPEC std_sort_dedup.rs@@

//@@EXTRACT s_layer@@
//@@EXTRACT s_gte@@

// ---- meaning ----
pub spec const B: int = 0x7fff_ffff_ffff_ffff;
// the weighted sum of the literals that hold
pub open spec fn wsum(lits: Seq<WeightedLiteral>, a: Asg) -> int decreases lits.len() {
    if lits.len() == 0 { 0 } else { wsum(lits.drop_last(), a) + if lit_holds(lits.last().literal, a) { lits.last().weight as int } else { 0 } }
}
pub open spec fn flat(s: Seq<Seq<WeightedLiteral>>) -> Seq<WeightedLiteral> decreases s.len() {
    if s.len() == 0 { Seq::empty() } else { flat(s.drop_last()) + s.last() }
}
// some output of the node with weight s is true
pub open spec fn hit(node: Seq<WeightedLiteral>, s: int, a: Asg) -> bool {
    exists|i: int| #![trigger node[i]] 0 <= i < node.len() && node[i].weight == s && lit_holds(node[i].literal, a)
}
// @C15 the node follows the weighted sum of its leaves: in every assignment of the clause set a positive sum has its output true
#[verifier::opaque]
pub open spec fn tracks(log: Log, leaves: Seq<WeightedLiteral>, node: Seq<WeightedLiteral>) -> bool {
    forall|a: Asg| #![trigger sat(log, a)] sat(log, a) && wsum(leaves, a) > 0 ==> hit(node, wsum(leaves, a), a)
}
pub open spec fn node_wf(node: Seq<WeightedLiteral>, cap: int) -> bool {
    &&& node.len() >= 1
    &&& forall|i: int, j: int| #![trigger node[i], node[j]] 0 <= i < j < node.len() ==> node[i].weight < node[j].weight
    &&& forall|i: int| #![trigger node[i]] 0 <= i < node.len() ==> node[i].weight <= cap
}
pub open spec fn nodes_view(l: Layer) -> Seq<Seq<WeightedLiteral>> { Seq::new(l.nodes@.len(), |i: int| l.nodes@[i]@) }
pub open spec fn layer_ok(log: Log, lv: Seq<Seq<WeightedLiteral>>, nodes: Seq<Seq<WeightedLiteral>>, cap: int) -> bool {
    &&& lv.len() == nodes.len()
    &&& forall|n: int| #![trigger nodes[n]] 0 <= n < nodes.len() ==> node_wf(nodes[n], cap) && tracks(log, lv[n], nodes[n])
}
pub open spec fn leaves_built(v: Vec<Vec<WeightedLiteral>>, all: Seq<WeightedLiteral>, upto: int) -> bool {
    v@.len() == upto && forall|i: int| #![trigger v@[i]] 0 <= i < upto ==> v@[i]@ =~= seq![all[i]]
}
pub open spec fn node_at(layers: Seq<Layer>, i: int, n: int, node: Seq<WeightedLiteral>) -> bool {
    0 <= i < layers.len() && 0 <= n < layers[i].nodes@.len() && layers[i].nodes@[n]@ == node
}
pub open spec fn singles(all: Seq<WeightedLiteral>) -> Seq<Seq<WeightedLiteral>> { Seq::new(all.len(), |i: int| seq![all[i]]) }
pub open spec fn extends(l2: Log, l1: Log) -> bool { l1.len() <= l2.len() && forall|i: int| #![trigger l1[i]] 0 <= i < l1.len() ==> l2[i] == l1[i] }
// semantic reading of the clauses of one merge step
pub open spec fn fo1(log: Log, l: Literal, m: Literal) -> bool { forall|a: Asg| #![trigger sat(log, a)] sat(log, a) && lit_holds(l, a) ==> lit_holds(m, a) }
#[verifier::opaque]
pub open spec fn single_ok(log: Log, x: WeightedLiteral, map: Map<u64, Literal>) -> bool { map.dom().contains(x.weight) && fo1(log, x.literal, map[x.weight]) }
#[verifier::opaque]
pub open spec fn pair_ok(log: Log, x: WeightedLiteral, y: WeightedLiteral, k: int, map: Map<u64, Literal>) -> bool {
    if x.weight + y.weight <= k {
        map.dom().contains((x.weight + y.weight) as u64)
        && forall|a: Asg| #![trigger sat(log, a)] sat(log, a) && lit_holds(x.literal, a) && lit_holds(y.literal, a) ==> lit_holds(map[(x.weight + y.weight) as u64], a)
    } else {
        forall|a: Asg| #![trigger sat(log, a)] sat(log, a) ==> !(lit_holds(x.literal, a) && lit_holds(y.literal, a))
    }
}
pub open spec fn all_single(log: Log, n: Seq<WeightedLiteral>, upto: int, map: Map<u64, Literal>) -> bool {
    forall|i: int| #![trigger n[i]] 0 <= i < upto ==> single_ok(log, n[i], map)
}
pub open spec fn row_ok(log: Log, x: WeightedLiteral, n2: Seq<WeightedLiteral>, upto: int, k: int, map: Map<u64, Literal>) -> bool {
    forall|j: int| #![trigger n2[j]] 0 <= j < upto ==> pair_ok(log, x, n2[j], k, map)
}
pub open spec fn rows_ok(log: Log, n1: Seq<WeightedLiteral>, upto: int, n2: Seq<WeightedLiteral>, k: int, map: Map<u64, Literal>) -> bool {
    forall|i: int| #![trigger n1[i]] 0 <= i < upto ==> row_ok(log, n1[i], n2, n2.len() as int, k, map)
}
// bookkeeping of the partial sums collected for one merge step
pub open spec fn has_w(ps: Seq<u64>, n: Seq<WeightedLiteral>, upto: int) -> bool { forall|i: int| #![trigger n[i]] 0 <= i < upto ==> ps.contains(n[i].weight) }
pub open spec fn has_row(ps: Seq<u64>, x: WeightedLiteral, n2: Seq<WeightedLiteral>, upto: int, k: int) -> bool {
    forall|j: int| #![trigger n2[j]] 0 <= j < upto && x.weight + n2[j].weight <= k ==> ps.contains((x.weight + n2[j].weight) as u64)
}
pub open spec fn has_pairs(ps: Seq<u64>, n1: Seq<WeightedLiteral>, upto: int, n2: Seq<WeightedLiteral>, k: int) -> bool {
    forall|i: int| #![trigger n1[i]] 0 <= i < upto ==> has_row(ps, n1[i], n2, n2.len() as int, k)
}
pub open spec fn below(ps: Seq<u64>, cap: int) -> bool { forall|x: u64| #![trigger ps.contains(x)] ps.contains(x) ==> x <= cap }
pub open spec fn same_set(p: Seq<u64>, q: Seq<u64>) -> bool { forall|x: u64| #![trigger p.contains(x)] #![trigger q.contains(x)] p.contains(x) == q.contains(x) }
// every partial sum of the step has its literal
pub open spec fn keys_ok(mp: Map<u64, Literal>, n1: Seq<WeightedLiteral>, n2: Seq<WeightedLiteral>, k: int) -> bool {
    &&& forall|i: int| #![trigger n1[i]] 0 <= i < n1.len() ==> mp.dom().contains(n1[i].weight)
    &&& forall|j: int| #![trigger n2[j]] 0 <= j < n2.len() ==> mp.dom().contains(n2[j].weight)
    &&& forall|i: int, j: int| #![trigger n1[i], n2[j]] 0 <= i < n1.len() && 0 <= j < n2.len() && n1[i].weight + n2[j].weight <= k ==> mp.dom().contains((n1[i].weight + n2[j].weight) as u64)
}
pub proof fn lemma_has_push(ps: Seq<u64>, x: u64, n1: Seq<WeightedLiteral>, u1: int, n2: Seq<WeightedLiteral>, u2: int, n3: Seq<WeightedLiteral>, u3: int, k: int, cap: int)
    requires has_w(ps, n1, u1), has_w(ps, n2, u2), has_pairs(ps, n3, u3, n2, k), below(ps, cap), x <= cap
    ensures has_w(ps.push(x), n1, u1), has_w(ps.push(x), n2, u2), has_pairs(ps.push(x), n3, u3, n2, k), below(ps.push(x), cap), ps.push(x).contains(x)
{
    lemma_push_contains(ps, x);
    assert forall|i: int| #![trigger n3[i]] 0 <= i < u3 implies has_row(ps.push(x), n3[i], n2, n2.len() as int, k) by { assert(has_row(ps, n3[i], n2, n2.len() as int, k)); }
}
pub proof fn lemma_row_push(ps: Seq<u64>, x: u64, w: WeightedLiteral, n2: Seq<WeightedLiteral>, upto: int, k: int)
    requires 1 <= upto <= n2.len(), has_row(ps, w, n2, upto - 1, k), x == w.weight + n2[upto - 1].weight
    ensures has_row(ps.push(x), w, n2, upto, k)
{
    lemma_push_contains(ps, x);
}
pub proof fn lemma_keys(ps0: Seq<u64>, ps: Seq<u64>, mp: Map<u64, Literal>, n1: Seq<WeightedLiteral>, n2: Seq<WeightedLiteral>, k: int)
    requires has_w(ps0, n1, n1.len() as int), has_w(ps0, n2, n2.len() as int), has_pairs(ps0, n1, n1.len() as int, n2, k), same_set(ps, ps0),
             forall|x: u64| #![trigger mp.dom().contains(x)] mp.dom().contains(x) <==> ps.contains(x),
    ensures keys_ok(mp, n1, n2, k)
{
    assert forall|i: int, j: int| #![trigger n1[i], n2[j]] 0 <= i < n1.len() && 0 <= j < n2.len() && n1[i].weight + n2[j].weight <= k implies mp.dom().contains((n1[i].weight + n2[j].weight) as u64) by {
        assert(has_row(ps0, n1[i], n2, n2.len() as int, k));
    }
}
pub open spec fn next_ok(next: Seq<WeightedLiteral>, map: Map<u64, Literal>) -> bool {
    forall|w: u64| #![trigger map.dom().contains(w)] map.dom().contains(w) ==> exists|i: int| #![trigger next[i]] 0 <= i < next.len() && next[i].weight == w && next[i].literal == map[w]
}
#[verifier::opaque]
pub open spec fn forbidden(log: Log, l: Literal) -> bool { forall|a: Asg| #![trigger sat(log, a)] sat(log, a) ==> !lit_holds(l, a) }

// derived Clone of a Copy type is the identity (trusted)
#[verifier::external_body]
pub proof fn axiom_wl_cloned(a: WeightedLiteral, b: WeightedLiteral)
    requires cloned(a, b) ensures a == b {}

pub proof fn lemma_sat_push(log: Log, c: Seq<Predicate>, a: Asg)
    ensures sat(log.push(c), a) <==> (sat(log, a) && clause_holds(c, a))
{
    let l2 = log.push(c);
    if sat(l2, a) {
        assert(clause_holds(l2[log.len() as int], a));
        assert forall|i: int| #![trigger log[i]] 0 <= i < log.len() implies clause_holds(log[i], a) by { assert(l2[i] == log[i]); }
    }
    if sat(log, a) && clause_holds(c, a) {
        assert forall|i: int| #![trigger l2[i]] 0 <= i < l2.len() implies clause_holds(l2[i], a) by { if i < log.len() { assert(l2[i] == log[i]); } }
    }
}
pub proof fn lemma_sat_mono(l1: Log, l2: Log, a: Asg)
    requires extends(l2, l1), sat(l2, a) ensures sat(l1, a)
{
    assert forall|i: int| #![trigger l1[i]] 0 <= i < l1.len() implies clause_holds(l1[i], a) by { assert(l2[i] == l1[i]); }
}
pub proof fn lemma_extends_push(l0: Log, l1: Log, c: Seq<Predicate>)
    requires extends(l1, l0) ensures extends(l1.push(c), l0), extends(l1.push(c), l1)
{
    assert forall|i: int| #![trigger l0[i]] 0 <= i < l0.len() implies l1.push(c)[i] == l0[i] by { assert(l1.push(c)[i] == l1[i]); }
}
pub proof fn lemma_tracks_mono(l1: Log, l2: Log, leaves: Seq<WeightedLiteral>, node: Seq<WeightedLiteral>)
    requires extends(l2, l1), tracks(l1, leaves, node) ensures tracks(l2, leaves, node)
{
    reveal(tracks);
    assert forall|a: Asg| #![trigger sat(l2, a)] sat(l2, a) && wsum(leaves, a) > 0 implies hit(node, wsum(leaves, a), a) by { lemma_sat_mono(l1, l2, a); }
}
pub proof fn lemma_layer_mono(l1: Log, l2: Log, lv: Seq<Seq<WeightedLiteral>>, nodes: Seq<Seq<WeightedLiteral>>, cap: int)
    requires extends(l2, l1), layer_ok(l1, lv, nodes, cap) ensures layer_ok(l2, lv, nodes, cap)
{
    assert forall|n: int| #![trigger nodes[n]] 0 <= n < nodes.len() implies node_wf(nodes[n], cap) && tracks(l2, lv[n], nodes[n]) by { lemma_tracks_mono(l1, l2, lv[n], nodes[n]); }
}
pub proof fn lemma_single_mono(l1: Log, l2: Log, n: Seq<WeightedLiteral>, upto: int, map: Map<u64, Literal>)
    requires extends(l2, l1), all_single(l1, n, upto, map) ensures all_single(l2, n, upto, map)
{
    reveal(single_ok);
    assert forall|i: int| #![trigger n[i]] 0 <= i < upto implies single_ok(l2, n[i], map) by {
        assert(single_ok(l1, n[i], map));
        assert forall|a: Asg| #![trigger sat(l2, a)] sat(l2, a) && lit_holds(n[i].literal, a) implies lit_holds(map[n[i].weight], a) by { lemma_sat_mono(l1, l2, a); }
    }
}
pub proof fn lemma_pair_mono(l1: Log, l2: Log, x: WeightedLiteral, y: WeightedLiteral, k: int, map: Map<u64, Literal>)
    requires extends(l2, l1), pair_ok(l1, x, y, k, map) ensures pair_ok(l2, x, y, k, map)
{
    reveal(pair_ok);
    if x.weight + y.weight <= k {
        assert forall|a: Asg| #![trigger sat(l2, a)] sat(l2, a) && lit_holds(x.literal, a) && lit_holds(y.literal, a) implies lit_holds(map[(x.weight + y.weight) as u64], a) by { lemma_sat_mono(l1, l2, a); }
    } else {
        assert forall|a: Asg| #![trigger sat(l2, a)] sat(l2, a) implies !(lit_holds(x.literal, a) && lit_holds(y.literal, a)) by { lemma_sat_mono(l1, l2, a); }
    }
}
pub proof fn lemma_row_mono(l1: Log, l2: Log, x: WeightedLiteral, n2: Seq<WeightedLiteral>, upto: int, k: int, map: Map<u64, Literal>)
    requires extends(l2, l1), row_ok(l1, x, n2, upto, k, map) ensures row_ok(l2, x, n2, upto, k, map)
{
    assert forall|j: int| #![trigger n2[j]] 0 <= j < upto implies pair_ok(l2, x, n2[j], k, map) by { lemma_pair_mono(l1, l2, x, n2[j], k, map); }
}
pub proof fn lemma_rows_mono(l1: Log, l2: Log, n1: Seq<WeightedLiteral>, upto: int, n2: Seq<WeightedLiteral>, k: int, map: Map<u64, Literal>)
    requires extends(l2, l1), rows_ok(l1, n1, upto, n2, k, map) ensures rows_ok(l2, n1, upto, n2, k, map)
{
    assert forall|i: int| #![trigger n1[i]] 0 <= i < upto implies row_ok(l2, n1[i], n2, n2.len() as int, k, map) by { lemma_row_mono(l1, l2, n1[i], n2, n2.len() as int, k, map); }
}
pub proof fn lemma_forbidden_mono(l1: Log, l2: Log, node: Seq<WeightedLiteral>, from: int)
    requires extends(l2, l1), forall|j: int| #![trigger node[j]] from <= j < node.len() ==> forbidden(l1, node[j].literal)
    ensures forall|j: int| #![trigger node[j]] from <= j < node.len() ==> forbidden(l2, node[j].literal)
{
    reveal(forbidden);
    assert forall|j: int| #![trigger node[j]] from <= j < node.len() implies forbidden(l2, node[j].literal) by {
        assert(forbidden(l1, node[j].literal));
        assert forall|a: Asg| #![trigger sat(l2, a)] sat(l2, a) implies !lit_holds(node[j].literal, a) by { lemma_sat_mono(l1, l2, a); }
    }
}
pub proof fn lemma_wsum_nonneg(lits: Seq<WeightedLiteral>, a: Asg)
    ensures 0 <= wsum(lits, a) decreases lits.len()
{ if lits.len() > 0 { lemma_wsum_nonneg(lits.drop_last(), a); } }
pub proof fn lemma_wsum_concat(x: Seq<WeightedLiteral>, y: Seq<WeightedLiteral>, a: Asg)
    ensures wsum(x + y, a) == wsum(x, a) + wsum(y, a) decreases y.len()
{
    if y.len() == 0 { assert(x + y =~= x); }
    else {
        assert((x + y).drop_last() =~= x + y.drop_last());
        assert((x + y).last() == y.last());
        lemma_wsum_concat(x, y.drop_last(), a);
    }
}
pub proof fn lemma_leaf_tracks(log: Log, x: WeightedLiteral)
    ensures tracks(log, seq![x], seq![x])
{
    reveal(tracks);
    let s = seq![x];
    assert forall|a: Asg| #![trigger sat(log, a)] sat(log, a) && wsum(s, a) > 0 implies hit(s, wsum(s, a), a) by {
        assert(s.drop_last() =~= Seq::<WeightedLiteral>::empty());
        assert(s.last() == x);
        assert(wsum(s.drop_last(), a) == 0);
        assert(s[0] == x);
    }
}
pub proof fn lemma_flat_singles(all: Seq<WeightedLiteral>)
    ensures flat(singles(all)) =~= all decreases all.len()
{
    if all.len() > 0 {
        lemma_flat_singles(all.drop_last());
        assert(singles(all).drop_last() =~= singles(all.drop_last()));
        assert(singles(all).last() =~= seq![all.last()]);
    }
}
pub proof fn lemma_flat_one(s: Seq<Seq<WeightedLiteral>>)
    requires s.len() == 1 ensures flat(s) =~= s[0]
{ assert(flat(s.drop_last()) =~= Seq::<WeightedLiteral>::empty()); }
// two more nodes of the current layer go into one node of the next layer
pub proof fn lemma_flat_step(lv: Seq<Seq<WeightedLiteral>>, nx: Seq<Seq<WeightedLiteral>>, m: int)
    requires 0 <= m, 2 * m + 1 < lv.len(), flat(nx) == flat(lv.take(2 * m))
    ensures flat(nx.push(lv[2 * m] + lv[2 * m + 1])) =~= flat(lv.take(2 * m + 2))
{
    let t0 = lv.take(2 * m);
    let t1 = lv.take(2 * m + 1);
    let t2 = lv.take(2 * m + 2);
    assert(t2.drop_last() =~= t1);
    assert(t1.drop_last() =~= t0);
    assert(t2.last() == lv[2 * m + 1]);
    assert(t1.last() == lv[2 * m]);
    assert(flat(t1) == flat(t0) + lv[2 * m]);
    assert(flat(t2) == flat(t1) + lv[2 * m + 1]);
    let p = nx.push(lv[2 * m] + lv[2 * m + 1]);
    assert(p.drop_last() =~= nx);
    assert(p.last() == lv[2 * m] + lv[2 * m + 1]);
    assert(flat(p) == flat(nx) + (lv[2 * m] + lv[2 * m + 1]));
    assert(flat(t0) + (lv[2 * m] + lv[2 * m + 1]) =~= (flat(t0) + lv[2 * m]) + lv[2 * m + 1]);
}
pub proof fn lemma_flat_tail(lv: Seq<Seq<WeightedLiteral>>, nx: Seq<Seq<WeightedLiteral>>)
    requires lv.len() >= 1, flat(nx) == flat(lv.take(lv.len() - 1))
    ensures flat(nx.push(lv.last())) =~= flat(lv)
{
    assert(lv.take(lv.len() - 1) =~= lv.drop_last());
    assert(nx.push(lv.last()).drop_last() =~= nx);
}
pub proof fn lemma_push_contains(s: Seq<u64>, x: u64)
    ensures forall|y: u64| #![trigger s.push(x).contains(y)] s.push(x).contains(y) <==> (s.contains(y) || y == x)
{
    assert forall|y: u64| #![trigger s.push(x).contains(y)] s.push(x).contains(y) <==> (s.contains(y) || y == x) by {
        if s.contains(y) { let i = choose|i: int| 0 <= i < s.len() && s[i] == y; assert(s.push(x)[i] == y); }
        if y == x { assert(s.push(x)[s.len() as int] == x); }
        if s.push(x).contains(y) { let i = choose|i: int| 0 <= i < s.push(x).len() && s.push(x)[i] == y; if i < s.len() { assert(s[i] == y); } }
    }
}
// @C15 one merge step: if both children track their leaves and the clauses of the step are there, the parent tracks the union
pub proof fn lemma_merge(log: Log, l1: Seq<WeightedLiteral>, l2: Seq<WeightedLiteral>, n1: Seq<WeightedLiteral>, n2: Seq<WeightedLiteral>,
                         next: Seq<WeightedLiteral>, map: Map<u64, Literal>, k: int)
    requires tracks(log, l1, n1), tracks(log, l2, n2),
             all_single(log, n1, n1.len() as int, map), all_single(log, n2, n2.len() as int, map),
             rows_ok(log, n1, n1.len() as int, n2, k, map), next_ok(next, map), k <= B,
    ensures tracks(log, l1 + l2, next)
{
    reveal(tracks); reveal(single_ok); reveal(pair_ok);
    assert forall|a: Asg| #![trigger sat(log, a)] sat(log, a) && wsum(l1 + l2, a) > 0 implies hit(next, wsum(l1 + l2, a), a) by {
        lemma_wsum_concat(l1, l2, a);
        lemma_wsum_nonneg(l1, a); lemma_wsum_nonneg(l2, a);
        let s1 = wsum(l1, a); let s2 = wsum(l2, a);
        if s1 > 0 && s2 == 0 {
            assert(hit(n1, s1, a));
            let i = choose|i: int| #![trigger n1[i]] 0 <= i < n1.len() && n1[i].weight == s1 && lit_holds(n1[i].literal, a);
            assert(single_ok(log, n1[i], map));
            let w = n1[i].weight;
            assert(map.dom().contains(w));
            let q = choose|q: int| #![trigger next[q]] 0 <= q < next.len() && next[q].weight == w && next[q].literal == map[w];
            assert(lit_holds(next[q].literal, a));
            assert(next[q].weight == wsum(l1 + l2, a));
            assert(hit(next, wsum(l1 + l2, a), a));
        } else if s1 == 0 && s2 > 0 {
            assert(hit(n2, s2, a));
            let j = choose|j: int| #![trigger n2[j]] 0 <= j < n2.len() && n2[j].weight == s2 && lit_holds(n2[j].literal, a);
            assert(single_ok(log, n2[j], map));
            let w = n2[j].weight;
            assert(map.dom().contains(w));
            let q = choose|q: int| #![trigger next[q]] 0 <= q < next.len() && next[q].weight == w && next[q].literal == map[w];
            assert(lit_holds(next[q].literal, a));
            assert(next[q].weight == wsum(l1 + l2, a));
            assert(hit(next, wsum(l1 + l2, a), a));
        } else {
            assert(hit(n1, s1, a)); assert(hit(n2, s2, a));
            let i = choose|i: int| #![trigger n1[i]] 0 <= i < n1.len() && n1[i].weight == s1 && lit_holds(n1[i].literal, a);
            let j = choose|j: int| #![trigger n2[j]] 0 <= j < n2.len() && n2[j].weight == s2 && lit_holds(n2[j].literal, a);
            assert(row_ok(log, n1[i], n2, n2.len() as int, k, map));
            assert(pair_ok(log, n1[i], n2[j], k, map));
            if s1 + s2 <= k {
                let w = (s1 + s2) as u64;
                assert(map.dom().contains(w));
                let q = choose|q: int| #![trigger next[q]] 0 <= q < next.len() && next[q].weight == w && next[q].literal == map[w];
                assert(lit_holds(next[q].literal, a));
                assert(next[q].weight == wsum(l1 + l2, a));
                assert(hit(next, wsum(l1 + l2, a), a));
            } else { assert(false); }
        }
    }
}
// ---- what one added clause gives (the log grows by exactly that clause) ----
pub proof fn lemma_single_new(lg: Log, c: Seq<Predicate>, x: WeightedLiteral, map: Map<u64, Literal>)
    requires c.len() == 2, c[0].lit == (Literal { var: x.literal.var, positive: !x.literal.positive }), map.dom().contains(x.weight), c[1].lit == map[x.weight]
    ensures single_ok(lg.push(c), x, map)
{
    reveal(single_ok);
    let l2 = lg.push(c);
    assert forall|a: Asg| #![trigger sat(l2, a)] sat(l2, a) && lit_holds(x.literal, a) implies lit_holds(map[x.weight], a) by {
        lemma_sat_push(lg, c, a);
        let i = choose|i: int| #![trigger c[i]] 0 <= i < c.len() && lit_holds(c[i].lit, a);
        assert(c[i] == c[i]);
    }
}
pub proof fn lemma_pair_new(lg: Log, c: Seq<Predicate>, x: WeightedLiteral, y: WeightedLiteral, k: int, map: Map<u64, Literal>)
    requires c[0].lit == (Literal { var: x.literal.var, positive: !x.literal.positive }), c[1].lit == (Literal { var: y.literal.var, positive: !y.literal.positive }),
             x.weight + y.weight <= k ==> c.len() == 3 && x.weight + y.weight <= u64::MAX && map.dom().contains((x.weight + y.weight) as u64) && c[2].lit == map[(x.weight + y.weight) as u64],
             x.weight + y.weight > k ==> c.len() == 2,
    ensures pair_ok(lg.push(c), x, y, k, map)
{
    reveal(pair_ok);
    let l2 = lg.push(c);
    if x.weight + y.weight <= k {
        assert forall|a: Asg| #![trigger sat(l2, a)] sat(l2, a) && lit_holds(x.literal, a) && lit_holds(y.literal, a) implies lit_holds(map[(x.weight + y.weight) as u64], a) by {
            lemma_sat_push(lg, c, a);
            let i = choose|i: int| #![trigger c[i]] 0 <= i < c.len() && lit_holds(c[i].lit, a);
            assert(c[i] == c[i]);
        }
    } else {
        assert forall|a: Asg| #![trigger sat(l2, a)] sat(l2, a) implies !(lit_holds(x.literal, a) && lit_holds(y.literal, a)) by {
            lemma_sat_push(lg, c, a);
            let i = choose|i: int| #![trigger c[i]] 0 <= i < c.len() && lit_holds(c[i].lit, a);
            assert(c[i] == c[i]);
        }
    }
}
pub proof fn lemma_forbid_new(lg: Log, c: Seq<Predicate>, l: Literal)
    requires c.len() == 1, c[0].lit == (Literal { var: l.var, positive: !l.positive })
    ensures forbidden(lg.push(c), l)
{
    reveal(forbidden);
    let l2 = lg.push(c);
    assert forall|a: Asg| #![trigger sat(l2, a)] sat(l2, a) implies !lit_holds(l, a) by {
        lemma_sat_push(lg, c, a);
        let i = choose|i: int| #![trigger c[i]] 0 <= i < c.len() && lit_holds(c[i].lit, a);
        assert(c[i] == c[i]);
    }
}
// @C15 a root that tracks the sum and whose outputs are all within k: no assignment of the clause set exceeds k
pub proof fn lemma_root_bound(log: Log, all: Seq<WeightedLiteral>, root: Seq<WeightedLiteral>, k: int)
    requires tracks(log, all, root), forall|i: int| #![trigger root[i]] 0 <= i < root.len() ==> root[i].weight <= k, k >= 0
    ensures forall|a: Asg| #![trigger sat(log, a)] sat(log, a) ==> wsum(all, a) <= k
{
    reveal(tracks);
    assert forall|a: Asg| #![trigger sat(log, a)] sat(log, a) implies wsum(all, a) <= k by {
        if wsum(all, a) > 0 {
            let i = choose|i: int| #![trigger root[i]] 0 <= i < root.len() && root[i].weight == wsum(all, a) && lit_holds(root[i].literal, a);
            assert(root[i].weight <= k);
        }
    }
}
// @C15 every output from `cut` on is forbidden and the outputs below `cut` are within new_k
pub proof fn lemma_strengthened(log: Log, all: Seq<WeightedLiteral>, root: Seq<WeightedLiteral>, cut: int, new_k: int)
    requires tracks(log, all, root), node_wf(root, B), 0 <= cut <= root.len(), new_k >= 0,
             forall|j: int| #![trigger root[j]] cut <= j < root.len() ==> forbidden(log, root[j].literal),
             cut > 0 ==> root[cut - 1].weight <= new_k,
    ensures forall|a: Asg| #![trigger sat(log, a)] sat(log, a) ==> wsum(all, a) <= new_k
{
    reveal(tracks); reveal(forbidden);
    assert forall|a: Asg| #![trigger sat(log, a)] sat(log, a) implies wsum(all, a) <= new_k by {
        if wsum(all, a) > 0 {
            let q = choose|q: int| #![trigger root[q]] 0 <= q < root.len() && root[q].weight == wsum(all, a) && lit_holds(root[q].literal, a);
            if q >= cut { assert(forbidden(log, root[q].literal)); }
            else if q < cut - 1 { assert(root[q].weight < root[cut - 1].weight); }
        }
    }
}
impl Layer {
//@@EXTRACT layer@@
}
impl GeneralisedTotaliserEncoder {
    pub open spec fn root(&self) -> Seq<WeightedLiteral> { self.layers@.last().nodes@[0]@ }
    // the objective literals: the one-literal nodes of the bottom layer, in order
    pub open spec fn leaves(&self) -> Seq<WeightedLiteral> { flat(nodes_view(self.layers@[0])) }
    // what the encoder guarantees between calls: a single root node that tracks the weighted sum of the leaves
    pub open spec fn enc_ok(&self, log: Log) -> bool {
        &&& self.layers@.len() >= 1 && self.layers@.last().nodes@.len() == 1
        &&& node_wf(self.root(), B) && tracks(log, self.leaves(), self.root())
        &&& self.num_clauses_added <= log.len()
    }
//@@EXTRACT gte0@@
//@@EXTRACT gte@@
}
} // verus!
fn main() {}
