"""Running Verus on a generated unit file and classifying the outcome (DESIGN.md 2.1 step 4, 2.6)."""
import json
import os
import re

from .common import BUILD, Undecided, log, read, rmtree, run, scratch, sha, write
from .extract import G_CLOSE, G_OPEN, Unit

VERIF_KINDS = [
    ("precondition not satisfied", "precondition"),
    ("postcondition not satisfied", "postcondition"),
    ("possible arithmetic underflow/overflow", "overflow"),
    ("possible division by zero", "overflow"),
    ("possible bit shift underflow/overflow", "overflow"),
    ("assertion failed", "assert"),
    ("requires not satisfied", "assert"),      # the `requires` of an `assert ... by(...) requires ...` proof step
    ("invariant not satisfied", "invariant"),
    ("decreases not satisfied", "decreases"),
    ("loop invariant", "invariant"),
    ("possible truncation", "overflow"),
    ("precondition not met", "precondition"),     # e.g. `index in bounds for this access` on slices
    ("recommendation not met", "recommends"),
    ("cannot prove termination", "decreases"),
    ("unable to prove assertion safety", "assert"),
    ("unable to prove", "other"),
    ("constructed value may fail to meet its declared type invariant", "other"),
    ("cannot show invariant holds", "invariant"),
    ("index out of bounds", "precondition"),
]
RESOURCE_MSGS = ("Resource limit (rlimit) exceeded", "rlimit", "timed out", "solver timeout")
TAG_RE = re.compile(r"@(C\d\d)\b")


class Failure:
    def __init__(self, unit, fn, kind, anchor, clause, tags, rendered, repo_file, repo_line):
        self.unit, self.fn, self.kind = unit, fn, kind
        self.anchor, self.clause, self.tags = anchor, clause, tags
        self.rendered, self.repo_file, self.repo_line = rendered, repo_file, repo_line

    @property
    def obligation(self):
        a = self.anchor
        if self.clause and self.kind in ("precondition", "postcondition", "invariant"):
            a = f"{a} :: {self.clause}" if a else self.clause
        return f"{self.unit}/{self.fn}/{self.kind}@{a}"

    @property
    def expr_hash(self):
        return sha(_norm(self.anchor) + "|" + _norm(self.clause))[:12]


def _norm(s):
    return re.sub(r"\s+", " ", s or "").strip()


def _clip(s, n=110):
    s = _norm(s)
    return s if len(s) <= n else s[: n - 3] + "..."


def _span_text(sp):
    ts = sp.get("text") or []
    if not ts:
        return ""
    if len(ts) == 1:
        t = ts[0]
        return t["text"][t["highlight_start"] - 1: t["highlight_end"] - 1]
    parts = []
    for i, t in enumerate(ts):
        if i == 0:
            parts.append(t["text"][t["highlight_start"] - 1:])
        elif i == len(ts) - 1:
            parts.append(t["text"][: t["highlight_end"] - 1])
        else:
            parts.append(t["text"])
    return " ".join(parts)


def _outer_span(sp):
    """Follow macro expansion to the span in the generated file where the macro was invoked."""
    while sp.get("expansion") and sp["expansion"].get("span"):
        sp = sp["expansion"]["span"]
    return sp


class UnitResult:
    def __init__(self, unit):
        self.unit = unit
        self.verified = 0
        self.errors = 0
        self.failures = []       # Failure
        self.undecided = []      # str
        self.smt_ms = 0
        self.total_ms = 0
        self.functions = []
        self.trusted_scan = []
        self.canaries_failed_as_required = 0
        self.canaries_total = 0
        self.gen_path = None
        self.meta = None
        self.fn_breakdown = []
        self.cmd = ""


def _tags_for_line(lines, ln, ln_end=None):
    """Property tags on generated-file lines `ln..ln_end` (1-based) or on the comment-only lines directly above."""
    tags = set()
    for k in range(ln, (ln_end or ln) + 1):
        if 0 < k <= len(lines):
            tags |= set(TAG_RE.findall(lines[k - 1]))
    if tags:
        return tags
    k = ln - 2
    while k >= 0 and lines[k].strip().startswith("//"):
        tags |= set(TAG_RE.findall(lines[k]))
        k -= 1
    return tags


def scan_trusted(text):
    out = []
    pats = [r"#\[verifier::external_body\]", r"\bassume_specification\b", r"\bassume\s*\(", r"\badmit\s*\(",
            r"#\[verifier::external[a-z_]*\]", r"#\[verifier::external_trait_specification\]",
            r"#\[verifier::external_type_specification\]", r"#\[verifier::exec_allows_no_decreases_clause\]",
            r"#\[verifier::accept_recursive_types", r"#\[verifier::reject_recursive_types"]
    lines = text.split("\n")
    for i, l in enumerate(lines):
        if l.strip().startswith("//"):
            continue
        for p in pats:
            if re.search(p, l):
                # name the item that follows
                nxt = ""
                for j in range(i, min(i + 6, len(lines))):
                    m = re.search(r"\b(fn|struct|trait|enum|type)\s+([A-Za-z_0-9]+)", lines[j])
                    if m:
                        nxt = m.group(2)
                        break
                    m = re.search(r"assume_specification\s*(<[^>]*>)?\s*\[([^\]]+)\]", lines[j])
                    if m:
                        nxt = m.group(2).strip()
                        break
                out.append((re.sub(r"\\[bs]\*?|\\", "", p).strip("#[]()"), nxt, i + 1))
                break
    return out


def run_verus(path, cwd, extra=None, timeout=900):
    cmd = ["verus", os.path.basename(path), "--multiple-errors", "60", "--output-json", "--time",
           "--error-format=json"] + (extra or [])
    rc, out, err, wall = run(cmd, cwd=cwd, timeout=timeout)
    diags = []
    for l in err.split("\n"):
        l = l.strip()
        if l.startswith("{") and '"$message_type"' in l:
            try:
                diags.append(json.loads(l))
            except Exception:
                pass
    js = None
    try:
        js = json.loads(out)
    except Exception:
        pass
    return rc, js, diags, err, wall, " ".join(cmd)


def verify_unit(name, root=None, canaries=True, keep=True, isolate_retry=True):
    unit = Unit(name, root)
    res = UnitResult(unit)
    text, meta = unit.generate()
    res.meta = meta
    res.functions = [f.key for f in meta["functions"]]
    res.trusted_scan = scan_trusted(text)
    for what, nm, ln in res.trusted_scan:
        if what.startswith("assume(") or what.startswith("admit(") or what in ("assume", "admit"):
            # only allowed inside spec/lemmas (never); refuse
            raise Undecided(f"unit {name}: forbidden `{what}` at generated line {ln}")
    work = scratch("verus-" + name)
    try:
        gen = os.path.join(work, f"{name}.rs")
        write(gen, text)
        if keep:
            write(os.path.join(BUILD, f"{name}.rs"), text)
            res.gen_path = os.path.join(BUILD, f"{name}.rs")
        extra = []
        if unit.rlimit:
            extra += ["--rlimit", str(unit.rlimit)]
        rc, js, diags, err, wall, cmd = run_verus(gen, work, extra)
        res.cmd = cmd
        _classify(res, text, meta, js, diags, err, rc)
        if any(x.startswith("solver resource limit") for x in res.undecided) and not res.failures:
            # DESIGN 2.1 step 4: a solver limit is retried once with a larger rlimit before the run is undecided
            big = 4 * (unit.rlimit or 10)
            rc, js, diags, err, wall, cmd = run_verus(gen, work, ["--rlimit", str(big)], timeout=1800)
            res2 = UnitResult(unit)
            res2.cmd = cmd + "   (retry after rlimit)"
            _classify(res2, text, meta, js, diags, err, rc)
            res2.meta, res2.functions, res2.trusted_scan, res2.gen_path = res.meta, res.functions, res.trusted_scan, res.gen_path
            res = res2
        # instability guard: a verification failure is only reported if it survives a re-run with a larger rlimit
        if res.failures and isolate_retry:
            rc2, js2, diags2, err2, _, _ = run_verus(gen, work, ["--rlimit", str(4 * (unit.rlimit or 10))])
            res2 = UnitResult(unit)
            _classify(res2, text, meta, js2, diags2, err2, rc2)
            ob2 = {f.obligation for f in res2.failures}
            stable = [f for f in res.failures if f.obligation in ob2]
            for f in res.failures:
                if f.obligation not in ob2:
                    res.undecided.append(f"UNSTABLE obligation {f.obligation} (fails at default rlimit, verifies at x4)")
            res.failures = stable
        if canaries and not res.undecided:
            _run_canaries(res, text, meta, work, name)
    finally:
        rmtree(work)
    return res


def _classify(res, text, meta, js, diags, err, rc):
    lines = text.split("\n")
    name = res.unit.name
    fns = meta["functions"]
    if js is None:
        res.undecided.append(f"verus produced no JSON result (rc={rc}): {err.strip()[-400:]}")
        return
    vr = js.get("verification-results", {})
    res.verified = vr.get("verified", 0)
    res.errors = vr.get("errors", 0)
    t = js.get("times-ms", {})
    res.total_ms = t.get("total", 0)
    res.smt_ms = t.get("smt", {}).get("total", 0) if isinstance(t.get("smt"), dict) else 0
    try:
        for m in t["smt"]["smt-run-module-times"]:
            for fb in m.get("function-breakdown", []):
                res.fn_breakdown.append((fb["function"], fb.get("time", 0), fb.get("success", True)))
    except Exception:
        pass
    if vr.get("encountered-vir-error") or (vr.get("encountered-error") and res.errors == 0 and not vr.get("success")):
        msgs = [d["message"] for d in diags if d.get("level") == "error"]
        res.undecided.append("front-end error (unsupported construct / type error / changed interface): "
                             + " | ".join(_clip(m, 200) for m in msgs[:4]))
        return
    for d in diags:
        if d.get("level") != "error":
            continue
        msg = d.get("message", "")
        if msg.startswith("aborting due to") or msg.startswith("could not compile"):
            continue
        if any(x in msg for x in RESOURCE_MSGS):
            res.undecided.append(f"solver resource limit: {_clip(msg, 200)}")
            continue
        kind = None
        for pat, k in VERIF_KINDS:
            if pat in msg:
                kind = k
                break
        if kind is None:
            res.undecided.append(f"unclassified verifier message: {_clip(msg, 200)}")
            continue
        spans = [_outer_span(s) for s in d.get("spans", [])]
        prim = [s for s in d.get("spans", []) if s.get("is_primary")]
        clause_span = None
        for s in d.get("spans", []):
            lab = (s.get("label") or "")
            if "failed precondition" in lab or "failed this postcondition" in lab or "failed this invariant" in lab:
                clause_span = s
        # find the extracted function the error belongs to
        fn = None
        site = None
        cl_outer = _outer_span(clause_span) if clause_span else None
        ordered = [s for s in spans if s is not cl_outer and not (cl_outer and s == cl_outer)]
        ordered += [s for s in spans if cl_outer and s == cl_outer]
        for s in ordered:
            ln = s.get("line_start", 0)
            for ef in fns:
                if ef.gen_line_start <= ln <= ef.gen_line_end:
                    # a span inside ghost text still belongs to the function
                    fn = ef
                    site = s
                    break
            if fn:
                break
        if fn is None:
            # a failing trait default emitted for a handler the impl does not override (IFMISSING): the obligation
            # belongs to that (absent) method
            dflt = None
            for s_ in spans:
                for ln_ in range(s_.get("line_start", 0), min(s_.get("line_end", s_.get("line_start", 0)), s_.get("line_start", 0) + 400) + 1):
                    if ln_ in meta.get("defaults", {}):
                        dflt = meta["defaults"][ln_]
                        break
            if dflt is not None:
                clause = _clip(_span_text(clause_span)) if clause_span else ""
                tags = set()
                if clause_span:
                    tags |= _tags_for_line(lines, clause_span["line_start"], clause_span.get("line_end"))
                if not tags:
                    tags = set(res.unit.properties)
                res.failures.append(Failure(name, dflt[0], kind, dflt[2], clause, sorted(tags),
                                            d.get("rendered", msg), dflt[1], None))
                continue
            where = prim[0]["line_start"] if prim else "?"
            res.undecided.append(f"proof failure outside extracted code (prelude/lemma, generated line {where}): {_clip(msg)}")
            continue
        # anchor: the text of the site inside the function (call site / arithmetic expression / return point)
        site_spans = [s for s in spans if fn.gen_line_start <= s.get("line_start", 0) <= fn.gen_line_end]
        call = None
        for s in site_spans:
            if cl_outer is not None and s == cl_outer:
                continue
            call = s
            break
        if call is None and site_spans:
            call = site_spans[0]
        anchor = _clip(_span_text(call)) if call else ""
        if call is not None:
            for raw in d.get("spans", []):
                if _outer_span(raw) == call and "end of the function body" in (raw.get("label") or ""):
                    anchor = "end of function body"
        clause = _clip(_span_text(clause_span)) if clause_span else ""
        tags = set()
        if clause_span:
            tags |= _tags_for_line(lines, clause_span["line_start"], clause_span.get("line_end"))
        if kind == "overflow":
            tags |= set(res.unit.arith_properties)
        if kind == "precondition" and tags & {"C02", "C17"}:
            # arithmetic units: a bound or reason that is not implied because a computation wrapped is C16's subject too
            tags |= set(res.unit.cfg.get("soundness_also", []))
        if kind in ("assert", "invariant", "decreases") and call:
            tags |= _tags_for_line(lines, call["line_start"])
        if not tags:
            tags = set(res.unit.properties)
        # repo location of the site
        repo_line = None
        if call:
            rel = sum(len(l) + 1 for l in lines[: call["line_start"] - 1]) + call["column_start"] - 1 - fn.gen_char_start
            try:
                off = fn.repo_offset(rel)
                from .extract import locate
                src = locate(fn.relfile, res.unit.root)["src"]
                repo_line = src.count("\n", 0, off) + 1
            except Exception:
                repo_line = fn.repo_line
        res.failures.append(Failure(name, fn.key, kind, anchor, clause, sorted(tags), d.get("rendered", msg),
                                    fn.relfile, repo_line))
    # de-duplicate identical obligations (Verus may report the same clause on several paths)
    seen = {}
    for f in res.failures:
        seen.setdefault(f.obligation, f)
    res.failures = list(seen.values())
    if res.errors > 0 and not res.failures and not res.undecided:
        res.undecided.append("verus reported errors that could not be parsed")


def _run_canaries(res, text, meta, work, name):
    """Vacuity guard: with `assert(false)` injected at the start of every extracted function body each
    function must FAIL.  A function that still verifies has a contradictory precondition / prelude."""
    fns = [f for f in meta["functions"] if "body_open" in f.it]
    if not fns:
        return
    # insert from the back so offsets stay valid
    t = text
    marks = []
    for ef in sorted(fns, key=lambda f: -f.gen_char_start):
        # position just after the body's opening brace in generated text
        rel_repo = ef.it["body_open"] + 1
        gen_rel = None
        for g, r, n in ef.segments:
            if r <= rel_repo <= r + n:
                gen_rel = g + (rel_repo - r)
        if gen_rel is None:
            continue
        pos = ef.gen_char_start + gen_rel
        inj = f" proof {{ assert(false); /*canary:{ef.key}*/ }} "
        t = t[:pos] + inj + t[pos:]
        marks.append(ef.key)
    can = os.path.join(work, f"{name}_canary.rs")
    write(can, t)
    rc, js, diags, err, wall, _ = run_verus(can, work)
    failed = set()
    for d in diags:
        if d.get("level") != "error" or "assertion failed" not in d.get("message", ""):
            continue
        for s in d.get("spans", []):
            for tx in s.get("text") or []:
                m = re.search(r"/\*canary:(.*?)\*/", tx["text"])
                if m:
                    failed.add(m.group(1))
    res.canaries_total = len(marks)
    res.canaries_failed_as_required = len(failed & set(marks))
    if js is None or js.get("verification-results", {}).get("encountered-vir-error"):
        res.undecided.append("canary file did not compile")
        return
    for k in marks:
        if k not in failed:
            res.undecided.append(f"VACUOUS: `assert(false)` at the start of {k} was not refuted "
                                 f"(contradictory precondition or prelude)")
