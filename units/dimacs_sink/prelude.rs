#![feature(allocator_api)]
use vstd::prelude::*;
use std::num::NonZeroI32;
use std::num::NonZeroU32;
#[allow(unused_imports)]
use std::collections::HashSet;
//@@SPEC macros.rs@@
verus! {
#[derive(Clone, Copy, PartialEq, Eq, Structural)]
pub struct Literal { pub code: u32 }
pub uninterp spec fn lit_not(l: Literal) -> Literal;
impl vstd::std_specs::ops::NotSpecImpl for Literal {
    open spec fn obeys_not_spec() -> bool { true }
    open spec fn not_req(self) -> bool { true }
    open spec fn not_spec(self) -> Literal { lit_not(self) }
}
impl std::ops::Not for Literal {
    type Output = Literal;
    #[verifier::external_body]
    fn not(self) -> (r: Literal) { unimplemented!() }
}
// std: the value of a non-zero integer and the operations used by the sink
pub open spec fn nz_i32(x: NonZeroI32) -> int { x@ as int }
pub open spec fn nz_u32(x: NonZeroU32) -> int { x@ as int }
pub assume_specification [std::num::NonZero::<i32>::is_positive] (x: NonZeroI32) -> (r: bool)
    ensures r == (nz_i32(x) > 0), nz_i32(x) != 0;
pub assume_specification [std::num::NonZero::<i32>::unsigned_abs] (x: NonZeroI32) -> (r: NonZeroU32)
    ensures nz_u32(r) == (if nz_i32(x) >= 0 { nz_i32(x) } else { -nz_i32(x) });
pub struct SolverDimacsSink { pub variables: Vec<Literal> }
// the solver literal a DIMACS code stands for
pub open spec fn lit_of(vars: Seq<Literal>, code: int) -> Literal {
    if code > 0 { vars[code - 1] } else { lit_not(vars[-code - 1]) }
}
impl SolverDimacsSink {
//@@EXTRACT sink@@
}
} // verus!
fn main() {}
