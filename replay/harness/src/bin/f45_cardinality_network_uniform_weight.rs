//! F45 (C15): CardinalityNetworkEncoder::encode_at_most_k accepts every objective whose soft clauses all carry the SAME
//! weight w (it only asserts that the weights are equal), then drops the weights and reads the weighted bound k of
//! `sum w * x_i <= k` as a bound on the NUMBER of violated soft clauses.  For w > 1 the bound is w times too weak: the
//! upper-bounding search finds a worse "improving" solution and then panics on the non-decreasing k (debug and release),
//! instead of reporting the optimum the generalised totaliser reports.  Exit 1 = reproduced.
use std::io::Write;
use std::process::Command;

fn run(name: &str, model: &str, args: &[&str]) -> (String, String) {
    let repo = std::env::var("PUMPKIN_REPO").unwrap_or_else(|_| "/repo".into());
    let target = std::env::var("CARGO_TARGET_DIR").unwrap_or_else(|_| "/tmp/pumpkin-verif-scratch/replay-target".into());
    let path = std::env::temp_dir().join(name);
    std::fs::File::create(&path).unwrap().write_all(model.as_bytes()).unwrap();
    let out = Command::new("cargo")
        .args(["run", "--offline", "-q", "--manifest-path", &format!("{repo}/Cargo.toml"), "-p", "pumpkin-solver", "--bin", "pumpkin-solver", "--"])
        .args(args).arg(&path)
        .env("CARGO_TARGET_DIR", format!("{target}-bin")).env("RUST_BACKTRACE", "0")
        .output().expect("cannot run cargo");
    (String::from_utf8_lossy(&out.stdout).to_string(), String::from_utf8_lossy(&out.stderr).to_string())
}

fn verdict(so: &str) -> (Option<u64>, bool) {
    let last_o = so.lines().filter_map(|l| l.strip_prefix("o ")).filter_map(|v| v.trim().parse::<u64>().ok()).last();
    (last_o, so.lines().any(|l| l.trim() == "s OPTIMUM FOUND"))
}

fn main() {
    // hard: (x1 or x2), (x3 or x4); soft, weight 3 each: -x1, -x2, -x3, -x4.  Optimum: two soft clauses violated = 6.
    let model = "p wcnf 4 6 100\n100 1 2 0\n100 3 4 0\n3 -1 0\n3 -2 0\n3 -3 0\n3 -4 0\n";
    let (gte, _) = run("pv_f45.wcnf", model, &["--upper-bound-encoding", "generalized-totalizer"]);
    let (cne, cne_err) = run("pv_f45.wcnf", model, &["--upper-bound-encoding", "cardinality-network"]);
    let (g, c) = (verdict(&gte), verdict(&cne));
    println!("generalized-totalizer: last o = {:?}, optimum reported = {}", g.0, g.1);
    println!("cardinality-network:   last o = {:?}, optimum reported = {}", c.0, c.1);
    if g == (Some(6), true) && c == (Some(6), true) {
        println!("ok: both encodings report the optimum 6");
    } else {
        let panic = cne_err.lines().find(|l| l.contains("panicked") || l.contains("strenthened")).unwrap_or("");
        println!("REPRODUCED: 4 soft unit clauses of weight 3, optimum 6: the encodings disagree {panic}");
        std::process::exit(1);
    }
}
