//! F44 (C16): EqualConstraint::post / implied_by post the second half of `sum == rhs` as `-(sum) <= -rhs` with `-self.rhs`
//! computed in i32: for rhs = i32::MIN debug builds panic, release builds wrap to i32::MIN and post `-(sum) <= i32::MIN`,
//! i.e. sum >= 2^31, which no i32 assignment satisfies: a satisfiable model is reported unsatisfiable.
//! (x, y around -2^30, so that the negated views themselves are representable.)  Exit 1 = reproduced.
use pumpkin_solver::constraints;
use pumpkin_solver::constraints::Constraint;
use pumpkin_solver::results::ProblemSolution;
use pumpkin_solver::results::SatisfactionResult;
use pumpkin_solver::termination::Indefinite;
use pumpkin_solver::Solver;

fn main() {
    let r = std::panic::catch_unwind(|| {
        let mut solver = Solver::default();
        let half = -(1i32 << 30);
        let x = solver.new_bounded_integer(half - 5, half + 5);
        let y = solver.new_bounded_integer(half - 5, half + 5);
        // x + y == i32::MIN has the solutions x + y = -2^31, e.g. x = y = -2^30
        if solver.add_constraint(constraints::equals(vec![x, y], i32::MIN)).post().is_err() {
            return "unsatisfiable (reported when the constraint was posted)".to_string();
        }
        let mut brancher = solver.default_brancher();
        match solver.satisfy(&mut brancher, &mut Indefinite) {
            SatisfactionResult::Satisfiable(s) => format!("satisfiable x={} y={}", s.get_integer_value(x), s.get_integer_value(y)),
            SatisfactionResult::Unsatisfiable => "unsatisfiable".to_string(),
            SatisfactionResult::Unknown => "unknown".to_string(),
        }
    });
    let what = "x, y in [-2^30 - 5, -2^30 + 5]; x + y == i32::MIN";
    match r {
        Ok(v) if v.starts_with("satisfiable") => println!("ok: {what}: {v}"),
        Ok(v) => { println!("REPRODUCED: {what}: {v}"); std::process::exit(1); }
        Err(_) => { println!("REPRODUCED: {what}: panic (arithmetic overflow negating the right-hand side)"); std::process::exit(1); }
    }
}
