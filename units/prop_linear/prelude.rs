#![feature(allocator_api)]
use vstd::prelude::*;
//@@SPEC macros.rs@@
//@@EXTRACT macro_predicate@@
verus! {
//@@SPEC vocab.rs@@
//@@SPEC std_saturating.rs@@
//@@SPEC contracts/integer_variable_consumer.rs@@
//@@SPEC prop_ctx.rs@@
//@@SPEC prop_ctx_stateful.rs@@
//@@SPEC std_option_extra.rs@@
broadcast use {conv_axioms::axiom_from_empty_domain, seq_lemmas::lemma_seq_holds_push};

pub assume_specification [i64::is_positive] (x: i64) -> (r: bool) ensures r == (x > 0);

// A-VIEWRANGE: the value of a variable / view is an i32
#[verifier::external_body]
pub proof fn axiom_eval_in_i32<V: IntegerVariable>(v: &V, a: Asg)
    ensures i32::MIN <= v.eval(a) <= i32::MAX {}

pub struct LinearLessOrEqualPropagator<Var> {
    pub x: Box<[Var]>,
    pub c: i32,
    pub lower_bound_left_hand_side: TrailedInt,
    pub current_bounds: Box<[TrailedInt]>,
}
// the mathematical constraint
pub open spec fn sum_eval<Var: IntegerVariable>(xs: Seq<Var>, a: Asg) -> int decreases xs.len() {
    if xs.len() == 0 { 0 } else { sum_eval(xs.drop_last(), a) + xs.last().eval(a) }
}
pub open spec fn lin_holds<Var: IntegerVariable>(p: &LinearLessOrEqualPropagator<Var>, a: Asg) -> bool { sum_eval(p.x@, a) <= p.c }
// sum of the lower bounds in a store
pub open spec fn sum_lb<Var: IntegerVariable>(live: Live, xs: Seq<Var>) -> int decreases xs.len() {
    if xs.len() == 0 { 0 } else { sum_lb(live, xs.drop_last()) + store_lb(live, &xs.last()) }
}
// an assignment whose values are at least the lower bounds of `live`, except possibly at index `skip`
pub open spec fn above_lbs<Var: IntegerVariable>(live: Live, xs: Seq<Var>, a: Asg, skip: int) -> bool {
    forall|j: int| #![trigger xs[j]] 0 <= j < xs.len() && j != skip ==> xs[j].eval(a) >= store_lb(live, &xs[j])
}
pub proof fn lemma_sum_above<Var: IntegerVariable>(live: Live, xs: Seq<Var>, a: Asg, skip: int)
    requires above_lbs(live, xs, a, skip)
    ensures 0 <= skip < xs.len() ==> sum_eval(xs, a) >= sum_lb(live, xs) - store_lb(live, &xs[skip]) + xs[skip].eval(a),
            !(0 <= skip < xs.len()) ==> sum_eval(xs, a) >= sum_lb(live, xs),
    decreases xs.len()
{
    if xs.len() > 0 {
        let pre = xs.drop_last();
        assert forall|j: int| #![trigger pre[j]] 0 <= j < pre.len() && j != skip implies pre[j].eval(a) >= store_lb(live, &pre[j]) by { assert(pre[j] == xs[j]); }
        lemma_sum_above(live, pre, a, skip);
        if 0 <= skip < pre.len() { assert(pre[skip] == xs[skip]); }
        if skip != xs.len() - 1 { assert(xs[xs.len() - 1].eval(a) >= store_lb(live, &xs[xs.len() - 1])); }
    }
}
// A-READS: store_lb is a lower bound of every live assignment, attained unless the store is empty (the read contract of the context)
#[verifier::external_body]
pub proof fn lemma_lb_is_lower<V: IntegerVariable>(live: Live, v: &V, a: Asg)
    requires live(a)
    ensures v.eval(a) >= store_lb(live, v) {}
#[verifier::external_body]
pub proof fn lemma_lb_attained<V: IntegerVariable>(live: Live, v: &V)
    requires !live_empty(live)
    ensures exists|a: Asg| #![trigger live(a)] live(a) && v.eval(a) == store_lb(live, v) {}
// lower bounds only grow when the store shrinks
pub open spec fn lbs_grew<Var: IntegerVariable>(l0: Live, l1: Live, xs: Seq<Var>) -> bool {
    forall|j: int| #![trigger xs[j]] 0 <= j < xs.len() ==> store_lb(l1, &xs[j]) >= store_lb(l0, &xs[j])
}
pub proof fn lemma_sum_lb_mono<Var: IntegerVariable>(l0: Live, l1: Live, xs: Seq<Var>)
    requires lbs_grew(l0, l1, xs)
    ensures sum_lb(l1, xs) >= sum_lb(l0, xs)
    decreases xs.len()
{
    if xs.len() > 0 {
        let pre = xs.drop_last();
        assert forall|j: int| #![trigger pre[j]] 0 <= j < pre.len() implies store_lb(l1, &pre[j]) >= store_lb(l0, &pre[j]) by { assert(pre[j] == xs[j]); }
        lemma_sum_lb_mono(l0, l1, pre);
        assert(store_lb(l1, &xs[xs.len() - 1]) >= store_lb(l0, &xs[xs.len() - 1]));
    }
}

impl<Var: IntegerVariable> LinearLessOrEqualPropagator<Var> {
//@@EXTRACT lin0@@
//@@EXTRACT lin@@
}
} // verus!
fn main() {}
