// m1 = the assignments of m0 whose cost is at most b
pub open spec fn cost_cut(m0: Model, m1: Model, c: spec_fn(Asg) -> int, b: int) -> bool {
    forall|a: Asg| #![trigger m1(a)] #![trigger m0(a)] m1(a) <==> (m0(a) && c(a) <= b)
}
