//! F46 (C10): `constraints::not_equals(vec![], rhs)` (the sum of no terms differs from rhs; trivially true for rhs != 0):
//! LinearNotEqualPropagator::propagate computed `self.terms.len() - 1` in usize: with overflow checks (debug / test
//! builds) the first propagation panicked with `attempt to subtract with overflow`; release builds wrapped and answered
//! correctly.  Exit 1 = reproduced.
use pumpkin_solver::constraints;
use pumpkin_solver::constraints::Constraint;
use pumpkin_solver::results::SatisfactionResult;
use pumpkin_solver::termination::Indefinite;
use pumpkin_solver::variables::DomainId;
use pumpkin_solver::Solver;

fn main() {
    let mut bad = false;
    for rhs in [5, 0] {
        let r = std::panic::catch_unwind(|| {
            let mut solver = Solver::default();
            let _x = solver.new_bounded_integer(0, 3);
            if solver.add_constraint(constraints::not_equals(Vec::<DomainId>::new(), rhs)).post().is_err() {
                return "unsatisfiable at post".to_string();
            }
            let mut brancher = solver.default_brancher();
            match solver.satisfy(&mut brancher, &mut Indefinite) {
                SatisfactionResult::Satisfiable(_) => "satisfiable".to_string(),
                SatisfactionResult::Unsatisfiable => "unsatisfiable".to_string(),
                SatisfactionResult::Unknown => "unknown".to_string(),
            }
        });
        let got = r.unwrap_or_else(|_| "panic".to_string());
        let want = if rhs == 0 { "unsatisfiable at post" } else { "satisfiable" };
        println!("not_equals([], {rhs}): {got} (expected: {want})");
        if got != want { bad = true; }
    }
    if bad { println!("REPRODUCED: a linear disequality without terms is not handled"); std::process::exit(1); }
    println!("ok");
}
