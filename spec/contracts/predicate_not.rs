// Contract of `impl Not for Predicate` (one text: proved in unit `predicate`, assumed by the consumers).
// The precondition is the honest one: `[x >= i32::MIN]` and `[x <= i32::MAX]` have no representable negation.
pub open spec fn pred_negatable(p: Predicate) -> bool {
    match p {
        Predicate::LowerBound { domain_id, lower_bound } => lower_bound > i32::MIN,
        Predicate::UpperBound { domain_id, upper_bound } => upper_bound < i32::MAX,
        _ => true,
    }
}
pub open spec fn pred_negation(p: Predicate) -> Predicate {
    match p {
        Predicate::LowerBound { domain_id, lower_bound } => Predicate::UpperBound { domain_id, upper_bound: (lower_bound - 1) as i32 },
        Predicate::UpperBound { domain_id, upper_bound } => Predicate::LowerBound { domain_id, lower_bound: (upper_bound + 1) as i32 },
        Predicate::NotEqual { domain_id, not_equal_constant } => Predicate::Equal { domain_id, equality_constant: not_equal_constant },
        Predicate::Equal { domain_id, equality_constant } => Predicate::NotEqual { domain_id, not_equal_constant: equality_constant },
    }
}
impl vstd::std_specs::ops::NotSpecImpl for Predicate {
    open spec fn obeys_not_spec() -> bool { true }
    open spec fn not_req(self) -> bool { pred_negatable(self) }
    open spec fn not_spec(self) -> Predicate { pred_negation(self) }
}
// semantic content of the negation (spec-level lemma, proved here once)
pub proof fn lemma_negation_is_complement(p: Predicate)
    requires pred_negatable(p)
    ensures forall|a: Asg| #[trigger] pred_holds(pred_negation(p), a) <==> !pred_holds(p, a),
            pred_negatable(pred_negation(p)), pred_negation(pred_negation(p)) == p,
{ }
// a predicate that some i32-valued assignment falsifies has a representable negation
pub open spec fn pred_domain(p: Predicate) -> int {
    match p {
        Predicate::LowerBound { domain_id, .. } => domain_id.id as int,
        Predicate::UpperBound { domain_id, .. } => domain_id.id as int,
        Predicate::NotEqual { domain_id, .. } => domain_id.id as int,
        Predicate::Equal { domain_id, .. } => domain_id.id as int,
    }
}
pub proof fn lemma_negatable_if_falsified_by_i32(p: Predicate, a: Asg)
    requires !pred_holds(p, a), i32::MIN <= a(pred_domain(p)) <= i32::MAX
    ensures pred_negatable(p)
{ }
