#![feature(allocator_api)]
use vstd::prelude::*;
use std::num::NonZeroI32;
use std::num::NonZeroU32;
//@@SPEC macros.rs@@
verus! {
pub type Asg = spec_fn(int) -> bool;
pub type Model = spec_fn(Asg) -> bool;
pub type Root = spec_fn(Literal) -> Option<bool>;
#[derive(Clone, Copy, PartialEq, Eq, Structural)]
pub struct Literal { pub var: u32, pub positive: bool }
pub open spec fn lit_true(l: Literal, a: Asg) -> bool { if l.positive { a(l.var as int) } else { !a(l.var as int) } }
impl vstd::std_specs::ops::NotSpecImpl for Literal {
    open spec fn obeys_not_spec() -> bool { true }
    open spec fn not_req(self) -> bool { true }
    open spec fn not_spec(self) -> Literal { Literal { var: self.var, positive: !self.positive } }
}
impl std::ops::Not for Literal {
    type Output = Literal;
    fn not(self) -> (r: Literal) { Literal { var: self.var, positive: !self.positive } }
}
#[derive(Clone, Copy)]
pub struct Predicate { pub lit: Literal }
impl Literal {
    pub fn get_true_predicate(&self) -> (r: Predicate) ensures r.lit == *self { Predicate { lit: *self } }
}
pub open spec fn some_true(c: Seq<Literal>, a: Asg) -> bool { exists|i: int| #![trigger c[i]] 0 <= i < c.len() && lit_true(c[i], a) }
pub open spec fn some_pred_true(c: Seq<Predicate>, a: Asg) -> bool { exists|i: int| #![trigger c[i]] 0 <= i < c.len() && lit_true(c[i].lit, a) }
pub open spec fn preds_of(v: Vec<Predicate>, src: Seq<Literal>, upto: int) -> bool {
    v@.len() == upto && forall|i: int| #![trigger v@[i]] 0 <= i < upto ==> v@[i].lit == src[i]
}
pub enum ConstraintOperationError { InfeasibleClause }
pub struct Solver { pub model: Ghost<Model>, pub root: Ghost<Root> }
impl Solver {
    // a root value is shared by every assignment of the model
    pub open spec fn wf(&self) -> bool {
        forall|l: Literal, a: Asg| #![trigger (self.root@)(l), (self.model@)(a)] (self.root@)(l) is Some && (self.model@)(a) ==> lit_true(l, a) == (self.root@)(l)->Some_0
    }
    #[verifier::external_body]
    pub fn get_literal_value(&self, literal: Literal) -> (r: Option<bool>) ensures r == (self.root@)(literal) { unimplemented!() }
    #[verifier::external_body]
    pub fn new_literal(&mut self) -> (r: Literal) ensures final(self).model == old(self).model, final(self).root == old(self).root { unimplemented!() }
    #[verifier::external_body]
    pub fn add_clause(&mut self, clause: Vec<Predicate>) -> (r: Result<(), ConstraintOperationError>)
        ensures forall|a: Asg| #![trigger (final(self).model@)(a)] (final(self).model@)(a) <==> ((old(self).model@)(a) && some_pred_true(clause@, a)),
    { unimplemented!() }
}
// basic_types::Function by the contract of unit function, read as a cost function
pub struct Function { pub f: Ghost<spec_fn(Asg) -> int> }
impl Function {
    pub open spec fn cost(&self, a: Asg) -> int { (self.f@)(a) }
    #[verifier::external_body]
    pub fn add_weighted_literal(&mut self, literal: Literal, weight: u64)
        ensures forall|a: Asg| #![trigger final(self).cost(a)] final(self).cost(a) == old(self).cost(a) + (if lit_true(literal, a) { 0int } else { weight as int }),
    { unimplemented!() }
    #[verifier::external_body]
    pub fn add_constant_term(&mut self, value: u64)
        ensures forall|a: Asg| #![trigger final(self).cost(a)] final(self).cost(a) == old(self).cost(a) + value,
    { unimplemented!() }
}
pub struct SolverDimacsSink { pub solver: Solver, pub objective: Function, pub variables: Vec<Literal>, pub is_inconsistent: bool }
pub uninterp spec fn mapped(vars: Seq<Literal>, clause: Seq<NonZeroI32>) -> Seq<Literal>;
impl SolverDimacsSink {
    #[verifier::external_body]
    fn mapped_clause(&self, clause: &[NonZeroI32]) -> (r: Vec<Literal>) ensures r@ == mapped(self.variables@, clause@) { unimplemented!() }
    pub open spec fn root_true(&self, c: Seq<Literal>, upto: int) -> bool {
        exists|j: int| #![trigger c[j]] 0 <= j < upto && (self.solver.root@)(c[j]) == Some(true)
    }
}
// (the method of `impl DimacsSink for SolverDimacsSink`, placed in an inherent impl so that it can carry a precondition)
impl SolverDimacsSink {
//@@EXTRACT soft@@
}
} // verus!
fn main() {}
