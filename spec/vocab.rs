// Shared semantic vocabulary (DESIGN.md 2.4).  Hand-written mirror types of the repository's
// DomainId / Predicate / PropositionalConjunction / Inconsistency (field-for-field), plus their meaning.
// Layout: types at the root (derive(Structural) must not sit in a sub-module in this Verus), meaning in
// `vocab_sem`, broadcast lemmas / axioms in their own modules (a module's single `broadcast use` may not
// depend on lemmas whose bodies depend on that module).
pub type Asg = spec_fn(int) -> int;    // a total assignment: domain id |-> value
pub type Live = spec_fn(Asg) -> bool;  // the assignments compatible with the current domains
pub type Model = spec_fn(Asg) -> bool; // the meaning of a constraint / of everything posted so far

#[derive(Clone, Copy, PartialEq, Eq, Structural)]
pub struct DomainId {
    pub id: u32,
}

#[derive(Clone, Copy, PartialEq, Eq, Structural)]
pub enum Predicate {
    LowerBound {
        domain_id: DomainId,
        lower_bound: i32,
    },
    UpperBound {
        domain_id: DomainId,
        upper_bound: i32,
    },
    NotEqual {
        domain_id: DomainId,
        not_equal_constant: i32,
    },
    Equal {
        domain_id: DomainId,
        equality_constant: i32,
    },
}

pub struct PropositionalConjunction {
    pub predicates_in_conjunction: Vec<Predicate>,
}

pub struct EmptyDomain;
#[verifier::external]
impl std::fmt::Debug for EmptyDomain { fn fmt(&self, f: &mut std::fmt::Formatter<'_>) -> std::fmt::Result { Ok(()) } }
pub enum Inconsistency {
    EmptyDomain,
    Conflict(PropositionalConjunction),
}
pub type PropagationStatusCP = Result<(), Inconsistency>;

// The abstract solver store: which total assignments are still possible.
pub struct Assignments {
    pub live: Ghost<Live>,
    // abstract identity of the concrete store (domains, trail): reads are functions of it
    pub state: Ghost<int>,
}

pub mod vocab_sem { use vstd::prelude::*; use super::{Asg, Live, DomainId, Predicate, PropositionalConjunction};
pub open spec fn pred_holds(p: Predicate, a: Asg) -> bool {
    match p {
        Predicate::LowerBound { domain_id, lower_bound } => a(domain_id.id as int) >= lower_bound,
        Predicate::UpperBound { domain_id, upper_bound } => a(domain_id.id as int) <= upper_bound,
        Predicate::NotEqual { domain_id, not_equal_constant } => a(domain_id.id as int) != not_equal_constant,
        Predicate::Equal { domain_id, equality_constant } => a(domain_id.id as int) == equality_constant,
    }
}
pub open spec fn seq_holds(s: Seq<Predicate>, a: Asg) -> bool {
    forall|i: int| 0 <= i < s.len() ==> pred_holds(#[trigger] s[i], a)
}
pub open spec fn seq_some_holds(s: Seq<Predicate>, a: Asg) -> bool {
    exists|i: int| 0 <= i < s.len() && pred_holds(#[trigger] s[i], a)
}
pub open spec fn conj_holds(c: PropositionalConjunction, a: Asg) -> bool {
    seq_holds(c.predicates_in_conjunction@, a)
}
pub open spec fn entails(live: Live, c: PropositionalConjunction) -> bool {
    forall|a: Asg| #[trigger] live(a) ==> conj_holds(c, a)
}
pub open spec fn live_empty(l: Live) -> bool { forall|a: Asg| !#[trigger] l(a) }
}
pub use vocab_sem::*;

impl DomainId {
    pub open spec fn val(self, a: Asg) -> int { a(self.id as int) }
}
// the conversions of the real type (From<Vec<Predicate>> through the blanket `impl<T: Into<Vec<Predicate>>> From<T>`,
// From<Predicate>): both wrap the given predicates
impl vstd::std_specs::convert::FromSpecImpl<Vec<Predicate>> for PropositionalConjunction {
    open spec fn obeys_from_spec() -> bool { true }
    open spec fn from_spec(v: Vec<Predicate>) -> Self { PropositionalConjunction { predicates_in_conjunction: v } }
}
impl From<Vec<Predicate>> for PropositionalConjunction {
    fn from(v: Vec<Predicate>) -> (r: Self) { PropositionalConjunction { predicates_in_conjunction: v } }
}

impl vstd::std_specs::convert::FromSpecImpl<EmptyDomain> for Inconsistency {
    open spec fn obeys_from_spec() -> bool { true }
    open spec fn from_spec(e: EmptyDomain) -> Self { Inconsistency::EmptyDomain }
}
impl From<EmptyDomain> for Inconsistency {
    fn from(e: EmptyDomain) -> (r: Self) { Inconsistency::EmptyDomain }
}
impl vstd::std_specs::convert::FromSpecImpl<PropositionalConjunction> for Inconsistency {
    open spec fn obeys_from_spec() -> bool { true }
    open spec fn from_spec(e: PropositionalConjunction) -> Self { Inconsistency::Conflict(e) }
}
impl From<PropositionalConjunction> for Inconsistency {
    fn from(e: PropositionalConjunction) -> (r: Self) { Inconsistency::Conflict(e) }
}

// `?` on a Result<_, EmptyDomain> inside a function returning PropagationStatusCP converts the error with
// `From::from` (Rust semantics).  vstd models that conversion by the uninterpreted `spec_from`; this axiom
// links it to the `From<EmptyDomain> for Inconsistency` impl above.  (trusted: language semantics of `?`)
pub mod conv_axioms { use vstd::prelude::*; use super::{EmptyDomain, Inconsistency, PropositionalConjunction};
#[verifier::external_body]
pub broadcast proof fn axiom_from_empty_domain(e: EmptyDomain, r: Inconsistency)
    ensures #[trigger] vstd::std_specs::control_flow::spec_from::<Inconsistency, EmptyDomain>(e, r) ==> r == Inconsistency::EmptyDomain
{}
// the same for `?` on a Result<_, PropositionalConjunction> (From<PropositionalConjunction> for Inconsistency wraps the conjunction)
#[verifier::external_body]
pub broadcast proof fn axiom_from_conjunction(e: PropositionalConjunction, r: Inconsistency)
    ensures #[trigger] vstd::std_specs::control_flow::spec_from::<Inconsistency, PropositionalConjunction>(e, r) ==> r == Inconsistency::Conflict(e)
{}
}

pub mod seq_lemmas { use vstd::prelude::*; use super::{Asg, Predicate}; use super::vocab_sem::*;
// a conjunction extended by one predicate
pub broadcast proof fn lemma_seq_holds_push(s: Seq<Predicate>, p: Predicate, a: Asg)
    ensures #[trigger] seq_holds(s.push(p), a) <==> (seq_holds(s, a) && pred_holds(p, a))
{
    if seq_holds(s, a) && pred_holds(p, a) {
        assert forall|i: int| 0 <= i < s.push(p).len() implies pred_holds(#[trigger] s.push(p)[i], a) by {
            if i < s.len() { assert(s.push(p)[i] == s[i]); }
        }
    }
    if seq_holds(s.push(p), a) {
        assert(pred_holds(s.push(p)[s.len() as int], a));
        assert forall|i: int| 0 <= i < s.len() implies pred_holds(#[trigger] s[i], a) by {
            assert(s.push(p)[i] == s[i]);
        }
    }
}
}
