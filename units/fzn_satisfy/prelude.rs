#![feature(allocator_api)]
use vstd::prelude::*;
//@@SPEC macros.rs@@
verus! {
pub struct Solution { pub id: u64 }
pub struct SolutionReference<'a> { pub s: &'a Solution }
impl Solution { #[verifier::external_body] pub fn as_reference(&self) -> (r: SolutionReference<'_>) { unimplemented!() } }
pub struct Output { pub x: u8 }
#[derive(Clone, Copy)]
pub struct FlatZincOptions { pub free_search: bool, pub all_solutions: bool }
pub trait Brancher { }
pub trait TerminationCondition { }
// the status lines of the FlatZinc output protocol (ghost) and what the solver answered (ghost)
#[derive(PartialEq, Eq, Structural, Clone, Copy)]
pub enum Marker { Complete, Unsat, Unknown }
macro_rules! pv_emit { ($l:ident, $m:ident) => { verus_exec_expr!{ { proof { $l = $l.push(Marker::$m); } } } } }
#[derive(PartialEq, Eq, Structural, Clone, Copy)]
pub enum Ans { Solution, Finished, Unknown, Unsatisfiable }
// `script` is the (ghost, prophetic) sequence of answers the solver gives from now on, `pos` how many it has given
pub struct Solver { pub out: Ghost<Seq<Marker>>, pub script: Ghost<Seq<Ans>>, pub pos: Ghost<nat> }
//@@EXTRACT s_iterated@@
//@@EXTRACT s_satres@@
pub open spec fn ans_of_iterated<B>(r: IteratedSolution<'_, B>) -> Ans {
    match r { IteratedSolution::Solution(..) => Ans::Solution, IteratedSolution::Finished => Ans::Finished, IteratedSolution::Unknown => Ans::Unknown, IteratedSolution::Unsatisfiable => Ans::Unsatisfiable }
}
pub open spec fn ans_of_sat(r: SatisfactionResult) -> Ans {
    match r { SatisfactionResult::Satisfiable(_) => Ans::Solution, SatisfactionResult::Unsatisfiable => Ans::Unsatisfiable, SatisfactionResult::Unknown => Ans::Unknown }
}
// Stub: the real iterator holds `&mut Solver`; the stub holds the solver's ghost state by value (`shadow`), because the
// installed Verus cannot carry a fact about a reborrowed `&mut` parameter through a loop in which the reborrow ends.
// The lifetime of the borrow is kept, so the borrow checker still sees the real aliasing.
pub struct SolutionIterator<'solver, 'brancher, 'termination, B, T> { pub shadow: Solver, pub brancher: &'brancher mut B, pub termination: &'termination mut T, pub budget: Ghost<nat>, pub ph: core::marker::PhantomData<&'solver mut Solver> }
impl<'solver, 'brancher, 'termination, B: Brancher, T: TerminationCondition> SolutionIterator<'solver, 'brancher, 'termination, B, T> {
    // every call gives the next answer of the script; a solution is given finitely often (the model has finitely many)
    #[verifier::external_body]
    pub fn next_solution(&mut self) -> (r: IteratedSolution<'_, B>)
        ensures ans_of_iterated(r) == old(self).shadow.script@[old(self).shadow.pos@ as int],
                final(self).shadow.pos@ == old(self).shadow.pos@ + 1, final(self).shadow.script == old(self).shadow.script, final(self).shadow.out == old(self).shadow.out,
                r is Solution ==> final(self).budget@ < old(self).budget@,
                r matches IteratedSolution::Solution(_, s, _) ==> s.out == old(self).shadow.out,
    { unimplemented!() }
}
impl Solver {
    #[verifier::external_body]
    pub fn get_solution_iterator<'this, 'brancher, 'termination, B: Brancher, T: TerminationCondition>(&'this mut self, brancher: &'brancher mut B, termination: &'termination mut T)
        -> (r: SolutionIterator<'this, 'brancher, 'termination, B, T>)
        ensures r.shadow == *old(self), *final(self) == *old(self),   // the solver's ghost state other than `out` is not observed after the iteration
    { unimplemented!() }
    #[verifier::external_body]
    pub fn satisfy<B: Brancher, T: TerminationCondition>(&mut self, brancher: &mut B, termination: &mut T) -> (r: SatisfactionResult)
        ensures ans_of_sat(r) == old(self).script@[old(self).pos@ as int], final(self).pos@ == old(self).pos@ + 1, final(self).script == old(self).script, final(self).out == old(self).out,
    { unimplemented!() }
    #[verifier::external_body]
    pub fn log_statistics(&self) { unimplemented!() }
}
#[verifier::external_body]
pub fn solution_callback<B: Brancher>(brancher: &B, instance_objective_function: Option<u32>, options_all_solutions: bool, outputs: &[Output], solver: &Solver, solution: SolutionReference) { unimplemented!() }

// The status lines a satisfaction run adds to the output, as a function of what the solver answers (script, from pos0):
//   * a single-solution run consumes one answer: Unsatisfiable -> the unsatisfiable marker, Unknown -> the unknown marker,
//     a solution -> no status line;
//   * an all-solutions run (-a) consumes answers up to the first one (index n) that is not a solution: Finished -> the
//     completeness line, Unsatisfiable -> the unsatisfiable marker, Unknown (interrupted) -> no status line at all.
pub open spec fn status_ok(out0: Seq<Marker>, out1: Seq<Marker>, script: Seq<Ans>, pos0: int, all: bool) -> bool {
    if all {
        exists|n: int| #![trigger script[n]] n >= pos0 && script[n] != Ans::Solution
            && (forall|k: int| #![trigger script[k]] pos0 <= k < n ==> script[k] == Ans::Solution)
            && match script[n] {
                Ans::Finished => out1 == out0.push(Marker::Complete),
                Ans::Unsatisfiable => out1 == out0.push(Marker::Unsat),
                _ => out1 == out0,
            }
    } else {
        match script[pos0] {
            Ans::Solution => out1 == out0,
            Ans::Finished => out1 == out0,   // not an answer of Solver::satisfy
            Ans::Unsatisfiable => out1 == out0.push(Marker::Unsat),
            Ans::Unknown => out1 == out0.push(Marker::Unknown),
        }
    }
}

//@@EXTRACT sat@@
} // verus!
fn main() {}
