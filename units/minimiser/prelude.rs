use vstd::prelude::*;
//@@SPEC macros.rs@@
verus! {
//@@SPEC vocab.rs@@

#[derive(PartialEq, Eq, Copy, Clone, Structural)]
pub enum Label { Seen, Poison, Removable, Keep }

// finite map / set stubs (A-HASH)
pub struct HashMap<K, V> { pub m: Ghost<Map<K, V>> }
impl HashMap<Predicate, Option<Label>> {
    #[verifier::external_body]
    pub fn get(&self, k: &Predicate) -> (r: Option<&Option<Label>>)
        ensures r is Some == self.m@.dom().contains(*k), r is Some ==> *r->Some_0 == self.m@[*k]
    { unimplemented!() }
    #[verifier::external_body]
    pub fn insert(&mut self, k: Predicate, v: Option<Label>) -> (r: Option<Option<Label>>)
        ensures final(self).m@ == old(self).m@.insert(k, v)
    { unimplemented!() }
}
pub struct HashSet<T> { pub s: Ghost<Set<T>> }
impl<K, V> HashMap<K, V> {
    #[verifier::external_body]
    pub fn clear(&mut self) ensures final(self).m@ == Map::<K, V>::empty() { unimplemented!() }
}
impl<T> HashSet<T> {
    #[verifier::external_body]
    pub fn clear(&mut self) ensures final(self).s@ == Set::<T>::empty() { unimplemented!() }
}
impl HashSet<usize> {
    #[verifier::external_body]
    pub fn contains(&self, k: &usize) -> (r: bool) ensures r == self.s@.contains(*k) { unimplemented!() }
}

// ---- what conflict analysis knows (ghost): the model (all constraints and nogoods), the trail ----
pub type PSet = spec_fn(Predicate) -> bool;
pub struct AssignmentsRef { pub x: u8 }
pub struct ReasonStoreRef { pub x: u8 }
pub struct PropagatorsRef { pub x: u8 }
pub struct ProofLogRef { pub x: u8 }
pub struct StepIdsRef { pub x: u8 }
impl Clone for ReasonStoreRef { fn clone(&self) -> Self { ReasonStoreRef { x: self.x } } }
impl Copy for ReasonStoreRef {}
impl Clone for PropagatorsRef { fn clone(&self) -> Self { PropagatorsRef { x: self.x } } }
impl Copy for PropagatorsRef {}
impl Clone for ProofLogRef { fn clone(&self) -> Self { ProofLogRef { x: self.x } } }
impl Copy for ProofLogRef {}
impl Clone for StepIdsRef { fn clone(&self) -> Self { StepIdsRef { x: self.x } } }
impl Copy for StepIdsRef {}

pub struct Trail { pub model: Ghost<Model>, pub true_now: Ghost<PSet>, pub pos: Ghost<spec_fn(Predicate) -> int>, pub root: Ghost<PSet> }
impl Trail {
    // a predicate true at the root holds in every solution (C01 / C02 at decision level 0)
    pub open spec fn wf(&self) -> bool {
        forall|p: Predicate, a: Asg| #![trigger (self.root@)(p), (self.model@)(a)] (self.root@)(p) && (self.model@)(a) ==> pred_holds(p, a)
    }
}
#[derive(Clone, Copy)]
pub struct TrailView<'a> { pub t: &'a Trail }
impl<'a> TrailView<'a> {
    #[verifier::external_body]
    pub fn is_decision_predicate(&self, predicate: &Predicate) -> (r: bool) { unimplemented!() }
    #[verifier::external_body]
    pub fn get_decision_level_for_predicate(&self, predicate: &Predicate) -> (r: Option<usize>)
        ensures r is Some == (self.t.true_now@)(*predicate), r == Some(0usize) ==> (self.t.root@)(*predicate)
    { unimplemented!() }
}
pub struct CurrentNogood<'a> { pub p: core::marker::PhantomData<&'a ()> }
impl<'a> CurrentNogood<'a> {
    #[verifier::external_body]
    pub fn from(value: &'a [Predicate]) -> Self { unimplemented!() }
}
pub struct MovingAverageStub { pub x: u8 }
impl MovingAverageStub { #[verifier::external_body] pub fn add_term(&mut self, new_term: u64) { unimplemented!() } }
pub struct LearnedClauseStatistics { pub average_number_of_removed_literals_recursive: MovingAverageStub }
pub struct Counters { pub learned_clause_statistics: LearnedClauseStatistics }
pub struct ConflictAnalysisContext<'a> {
    pub counters: Counters,
    pub assignments: TrailView<'a>,
    pub reason_store: ReasonStoreRef,
    pub propagators: PropagatorsRef,
    pub proof_log: ProofLogRef,
    pub unit_nogood_step_ids: StepIdsRef,
}
impl<'a> ConflictAnalysisContext<'a> {
    // TRUSTED (statement of C17 at this interface)
    #[verifier::external_body]
    pub fn get_propagation_reason(predicate: Predicate, assignments: TrailView<'_>, current_nogood: CurrentNogood<'_>,
        reason_store: ReasonStoreRef, propagators: PropagatorsRef, proof_log: ProofLogRef, unit_nogood_step_ids: StepIdsRef,
        reason_buffer: &mut Vec<Predicate>)
        requires (assignments.t.true_now@)(predicate), old(reason_buffer)@.len() == 0,
        ensures
            forall|i: int| #![trigger final(reason_buffer)@[i]] 0 <= i < final(reason_buffer)@.len() ==>
                (assignments.t.true_now@)(final(reason_buffer)@[i]) && (assignments.t.pos@)(final(reason_buffer)@[i]) < (assignments.t.pos@)(predicate),
            forall|a: Asg| #![trigger (assignments.t.model@)(a)] (assignments.t.model@)(a) && seq_holds(final(reason_buffer)@, a) ==> pred_holds(predicate, a),
    { unimplemented!() }
}
pub struct RootExplanationContext<'a> {
    pub propagators: PropagatorsRef,
    pub proof_log: ProofLogRef,
    pub unit_nogood_step_ids: StepIdsRef,
    pub assignments: TrailView<'a>,
    pub reason_store: ReasonStoreRef,
}
#[verifier::external_body]
pub fn explain_root_assignment(context: &mut RootExplanationContext<'_>, predicate: Predicate) { unimplemented!() }

pub open spec fn entailed(m: Model, k: PSet, p: Predicate) -> bool {
    forall|a: Asg| #![trigger m(a)] m(a) && (forall|q: Predicate| #![trigger k(q)] k(q) ==> pred_holds(q, a)) ==> pred_holds(p, a)
}
pub proof fn lemma_entailed_mono(m: Model, k1: PSet, k2: PSet, p: Predicate)
    requires entailed(m, k1, p), forall|q: Predicate| #![trigger k1(q)] k1(q) ==> k2(q)
    ensures entailed(m, k2, p)
{
    assert forall|a: Asg| #![trigger m(a)] m(a) && (forall|q: Predicate| #![trigger k2(q)] k2(q) ==> pred_holds(q, a)) implies pred_holds(p, a) by {
        assert forall|q: Predicate| #![trigger k1(q)] k1(q) implies pred_holds(q, a) by { assert(k2(q)); }
    }
}

pub struct RecursiveMinimiser {
    pub current_depth: usize,
    pub allowed_decision_levels: HashSet<usize>,
    pub label_assignments: HashMap<Predicate, Option<Label>>,
    // ghost: the predicates of the learned nogood that is being minimised (set by initialise_minimisation_data_structures)
    pub orig: Ghost<PSet>,
}
pub type LMap = Map<Predicate, Option<Label>>;
pub open spec fn lab_of(m: LMap, p: Predicate) -> Option<Label> { if m.dom().contains(p) { m[p] } else { None } }
pub open spec fn keep_of(m: LMap) -> PSet { |q: Predicate| lab_of(m, q) == Some(Label::Keep) }
pub open spec fn inv_of(m: LMap, orig: PSet, t: &Trail) -> bool {
    &&& t.wf()
    // no entry stores `None`
    &&& forall|p: Predicate| #![trigger m[p]] m.dom().contains(p) ==> m[p] is Some
    // Seen and Keep are only given to predicates of the learned nogood
    &&& forall|p: Predicate| #![trigger lab_of(m, p)] (lab_of(m, p) == Some(Label::Seen) || lab_of(m, p) == Some(Label::Keep)) ==> orig(p)
    // @C02 a removable predicate is implied by the model together with the predicates that are kept
    &&& forall|p: Predicate| #![trigger lab_of(m, p)] lab_of(m, p) == Some(Label::Removable) ==> entailed(t.model@, keep_of(m), p)
}
// labels only grow: computed labels are final, nothing becomes Seen, and only predicates at or before `bound` on the trail change
pub open spec fn grown_of(m: LMap, from: LMap, t: &Trail, bound: int) -> bool {
    forall|p: Predicate| #![trigger lab_of(m, p)] #![trigger lab_of(from, p)]
        (lab_of(from, p) == Some(Label::Keep) || lab_of(from, p) == Some(Label::Removable) || lab_of(from, p) == Some(Label::Poison) ==> lab_of(m, p) == lab_of(from, p))
        && (lab_of(m, p) == Some(Label::Seen) ==> lab_of(from, p) == Some(Label::Seen))
        && (lab_of(m, p) != lab_of(from, p) ==> (t.pos@)(p) <= bound)
        && (lab_of(from, p) is Some ==> lab_of(m, p) is Some)
}
pub proof fn lemma_grown_keeps_entailment(m: LMap, from: LMap, t: &Trail, bound: int, p: Predicate)
    requires grown_of(m, from, t, bound), entailed(t.model@, keep_of(from), p)
    ensures entailed(t.model@, keep_of(m), p)
{
    assert forall|q: Predicate| #![trigger (keep_of(from))(q)] (keep_of(from))(q) implies (keep_of(m))(q) by { assert(lab_of(from, q) == Some(Label::Keep)); assert(lab_of(m, q) == lab_of(from, q)); }
    lemma_entailed_mono(t.model@, keep_of(from), keep_of(m), p);
}
pub open spec fn justified(m: LMap, t: &Trail, p: Predicate, l: Label) -> bool {
    (lab_of(m, p) is None || lab_of(m, p) == Some(Label::Seen))
    && (l == Label::Poison || (l == Label::Keep && lab_of(m, p) == Some(Label::Seen)) || (l == Label::Removable && entailed(t.model@, keep_of(m), p)))
}
pub proof fn lemma_assign(m: LMap, orig: PSet, t: &Trail, p: Predicate, l: Label)
    requires inv_of(m, orig, t), justified(m, t, p, l)
    ensures inv_of(m.insert(p, Some(l)), orig, t), grown_of(m.insert(p, Some(l)), m, t, (t.pos@)(p))
{
    let m2 = m.insert(p, Some(l));
    assert forall|q: Predicate| #![trigger (keep_of(m))(q)] (keep_of(m))(q) implies (keep_of(m2))(q) by { assert(lab_of(m, q) == Some(Label::Keep)); assert(q != p); assert(lab_of(m2, q) == lab_of(m, q)); }
    assert forall|q: Predicate| #![trigger lab_of(m2, q)] lab_of(m2, q) == Some(Label::Removable) implies entailed(t.model@, keep_of(m2), q) by {
        if q == p { lemma_entailed_mono(t.model@, keep_of(m), keep_of(m2), q); }
        else { assert(lab_of(m, q) == lab_of(m2, q)); lemma_entailed_mono(t.model@, keep_of(m), keep_of(m2), q); }
    }
    assert forall|q: Predicate| #![trigger lab_of(m2, q)] (lab_of(m2, q) == Some(Label::Seen) || lab_of(m2, q) == Some(Label::Keep)) implies orig(q) by {
        if q != p { assert(lab_of(m, q) == lab_of(m2, q)); } else { assert(lab_of(m, p) == Some(Label::Seen)); }
    }
    assert forall|q: Predicate| #![trigger m2[q]] m2.dom().contains(q) implies m2[q] is Some by { if q != p { assert(m.dom().contains(q)); } }
    assert forall|q: Predicate| #![trigger lab_of(m2, q)] #![trigger lab_of(m, q)]
        (lab_of(m, q) == Some(Label::Keep) || lab_of(m, q) == Some(Label::Removable) || lab_of(m, q) == Some(Label::Poison) ==> lab_of(m2, q) == lab_of(m, q))
        && (lab_of(m2, q) == Some(Label::Seen) ==> lab_of(m, q) == Some(Label::Seen))
        && (lab_of(m2, q) != lab_of(m, q) ==> (t.pos@)(q) <= (t.pos@)(p))
        && (lab_of(m, q) is Some ==> lab_of(m2, q) is Some) by { }
}
pub proof fn lemma_grown_trans(m3: LMap, m2: LMap, m1: LMap, t: &Trail, b2: int, b1: int)
    requires grown_of(m3, m2, t, b2), grown_of(m2, m1, t, b1), b2 <= b1
    ensures grown_of(m3, m1, t, b1)
{
    assert forall|p: Predicate| #![trigger lab_of(m3, p)] #![trigger lab_of(m1, p)]
        (lab_of(m1, p) == Some(Label::Keep) || lab_of(m1, p) == Some(Label::Removable) || lab_of(m1, p) == Some(Label::Poison) ==> lab_of(m3, p) == lab_of(m1, p))
        && (lab_of(m3, p) == Some(Label::Seen) ==> lab_of(m1, p) == Some(Label::Seen))
        && (lab_of(m3, p) != lab_of(m1, p) ==> (t.pos@)(p) <= b1)
        && (lab_of(m1, p) is Some ==> lab_of(m3, p) is Some) by {
        let _ = lab_of(m2, p);
    }
}
impl RecursiveMinimiser {
    pub open spec fn lm(&self) -> LMap { self.label_assignments.m@ }
    pub open spec fn lab(&self, p: Predicate) -> Option<Label> { lab_of(self.label_assignments.m@, p) }
    pub open spec fn inv(&self, t: &Trail) -> bool { inv_of(self.label_assignments.m@, self.orig@, t) }
    pub open spec fn grown(&self, from: &RecursiveMinimiser, t: &Trail, bound: int) -> bool {
        self.orig == from.orig && self.allowed_decision_levels == from.allowed_decision_levels
        && grown_of(self.label_assignments.m@, from.label_assignments.m@, t, bound)
    }
    // TRUSTED (`for &predicate in nogood` is outside the Verus subset): labels exactly the predicates of the learned nogood
    #[verifier::external_body]
    fn initialise_minimisation_data_structures(&mut self, nogood: &Vec<Predicate>, assignments: TrailView<'_>)
        requires old(self).current_depth == 0, assignments.t.wf(), old(self).label_assignments.m@ == Map::<Predicate, Option<Label>>::empty()
        ensures final(self).current_depth == 0, final(self).inv(assignments.t),
                forall|p: Predicate| #![trigger (final(self).orig@)(p)] (final(self).orig@)(p) == nogood@.contains(p),
                forall|i: int| #![trigger nogood@[i]] 0 <= i < nogood@.len() ==>
                    final(self).lab(nogood@[i]) == Some(Label::Seen) || final(self).lab(nogood@[i]) == Some(Label::Keep),
    { unimplemented!() }
//@@EXTRACT rm@@
}
} // verus!
fn main() {}
