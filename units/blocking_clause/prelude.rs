#![feature(allocator_api)]
use vstd::prelude::*;
//@@SPEC macros.rs@@
//@@EXTRACT macro_predicate@@
verus! {
//@@SPEC std_saturating.rs@@
pub type Asg = spec_fn(int) -> int;
#[derive(Clone, Copy, PartialEq, Eq, Structural)]
pub struct DomainId { pub id: u32 }
#[derive(Clone, Copy, PartialEq, Eq, Structural)]
pub enum Predicate {
    LowerBound { domain_id: DomainId, lower_bound: i32 },
    UpperBound { domain_id: DomainId, upper_bound: i32 },
    NotEqual { domain_id: DomainId, not_equal_constant: i32 },
    Equal { domain_id: DomainId, equality_constant: i32 },
}
pub open spec fn pred_holds(p: Predicate, a: Asg) -> bool {
    match p {
        Predicate::LowerBound { domain_id, lower_bound } => a(domain_id.id as int) >= lower_bound,
        Predicate::UpperBound { domain_id, upper_bound } => a(domain_id.id as int) <= upper_bound,
        Predicate::NotEqual { domain_id, not_equal_constant } => a(domain_id.id as int) != not_equal_constant,
        Predicate::Equal { domain_id, equality_constant } => a(domain_id.id as int) == equality_constant,
    }
}
pub open spec fn clause_holds(c: Seq<Predicate>, a: Asg) -> bool { exists|i: int| 0 <= i < c.len() && pred_holds(#[trigger] c[i], a) }
impl DomainId {
    #[verifier::external_body]
    pub fn lower_bound_predicate(&self, bound: i32) -> (p: Predicate) ensures p == (Predicate::LowerBound { domain_id: *self, lower_bound: bound }) { unimplemented!() }
    #[verifier::external_body]
    pub fn upper_bound_predicate(&self, bound: i32) -> (p: Predicate) ensures p == (Predicate::UpperBound { domain_id: *self, upper_bound: bound }) { unimplemented!() }
    #[verifier::external_body]
    pub fn equality_predicate(&self, bound: i32) -> (p: Predicate) ensures p == (Predicate::Equal { domain_id: *self, equality_constant: bound }) { unimplemented!() }
    #[verifier::external_body]
    pub fn disequality_predicate(&self, bound: i32) -> (p: Predicate) ensures p == (Predicate::NotEqual { domain_id: *self, not_equal_constant: bound }) { unimplemented!() }
}
// a solution: the snapshot of the values of the variables 0..n
pub struct Solution { pub asg: Ghost<Asg>, pub n: Ghost<nat> }
impl Solution {
    #[verifier::external_body]
    pub fn pv_domains(&self) -> (r: Vec<DomainId>) ensures r@.len() == self.n@, forall|i: int| #![trigger r@[i]] 0 <= i < r@.len() ==> r@[i].id == i { unimplemented!() }
    #[verifier::external_body]
    pub fn get_integer_value(&self, variable: DomainId) -> (r: i32) requires variable.id < self.n@ ensures r == (self.asg@)(variable.id as int) { unimplemented!() }
}

// some variable below k has another value than in the solution
pub open spec fn differs_below(s: &Solution, a: Asg, k: int) -> bool { exists|i: int| #![trigger a(i)] 0 <= i < k && a(i) != (s.asg@)(i) }
pub proof fn lemma_differs_step(s: &Solution, a: Asg, k: int)
    requires 0 <= k
    ensures differs_below(s, a, k + 1) <==> (differs_below(s, a, k) || a(k) != (s.asg@)(k))
{
    if differs_below(s, a, k + 1) { let i = choose|i: int| #![trigger a(i)] 0 <= i < k + 1 && a(i) != (s.asg@)(i); if i < k { assert(differs_below(s, a, k)); } }
    if differs_below(s, a, k) { let i = choose|i: int| #![trigger a(i)] 0 <= i < k && a(i) != (s.asg@)(i); assert(0 <= i < k + 1); }
}
pub proof fn lemma_clause_push(c: Seq<Predicate>, p: Predicate, a: Asg)
    ensures clause_holds(c.push(p), a) <==> (clause_holds(c, a) || pred_holds(p, a))
{
    let d = c.push(p);
    if clause_holds(d, a) { let i = choose|i: int| 0 <= i < d.len() && pred_holds(#[trigger] d[i], a); if i < c.len() { assert(d[i] == c[i]); } }
    if clause_holds(c, a) { let i = choose|i: int| 0 <= i < c.len() && pred_holds(#[trigger] c[i], a); assert(d[i] == c[i]); }
    if pred_holds(p, a) { assert(d[c.len() as int] == p); }
}
// the assignments that agree with the solution on all of its variables
pub open spec fn same_on_domains(s: &Solution, a: Asg) -> bool { !differs_below(s, a, s.n@ as int) }

//@@EXTRACT gbc@@
} // verus!
fn main() {}
