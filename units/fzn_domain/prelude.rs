#![feature(allocator_api)]
use vstd::prelude::*;
//@@SPEC macros.rs@@
verus! {
//@@SPEC std_minmax.rs@@
broadcast use {std_minmax_axioms::axiom_max_i32, std_minmax_axioms::axiom_min_i32};
pub assume_specification<T> [<[T]>::contains] (s: &[T], x: &T) -> (r: bool)
    where T: std::cmp::PartialEq,
    ensures r == s@.contains(*x);

pub enum Domain {
    IntervalDomain { lb: i32, ub: i32 },
    SparseDomain { values: Vec<i32> },
}
impl Clone for Domain {
    #[verifier::external_body]
    fn clone(&self) -> (r: Self)
        ensures forall|v: int| #![trigger r.has(v)] r.has(v) == self.has(v),
                (r is IntervalDomain) == (*self is IntervalDomain),
                r matches Domain::IntervalDomain { lb, ub } ==> *self == (Domain::IntervalDomain { lb, ub }),
                r matches Domain::SparseDomain { values } ==> (*self matches Domain::SparseDomain { values: v2 } && v2@ == values@),
    { unimplemented!() }
}
impl Domain {
    // the set of values the domain stands for (FlatZinc: `var lb..ub` resp. `var {v1, ..., vn}`)
    pub open spec fn has(&self, v: int) -> bool {
        match self {
            Domain::IntervalDomain { lb, ub } => *lb <= v <= *ub,
            Domain::SparseDomain { values } => i32::MIN <= v <= i32::MAX && values@.contains(v as i32),
        }
    }
//@@EXTRACT dom@@
}
} // verus!
fn main() {}
