use vstd::prelude::*;
verus! {
//@@SPEC lemmas/trunc_div.rs@@

//@@EXTRACT numext_trait@@

//@@EXTRACT numext_impl@@

} // verus!
fn main() {}
