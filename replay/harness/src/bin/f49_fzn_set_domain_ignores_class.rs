//! F49 (C13): a variable declared with a set domain (`var {1,3,5}: x`) was created from the declared set alone: the
//! restriction of a `set_in` constraint (kept in the equivalence class) was lost, and a singleton set (`var {3}: x`) was not
//! registered under its name at all (`the identifier 'x' does not resolve`).  Exit 1 = reproduced.
use std::io::Write;
use std::process::Command;

fn run(name: &str, model: &str, args: &[&str]) -> (String, String) {
    let repo = std::env::var("PUMPKIN_REPO").unwrap_or_else(|_| "/repo".into());
    let target = std::env::var("CARGO_TARGET_DIR").unwrap_or_else(|_| "/tmp/pumpkin-verif-scratch/replay-target".into());
    let path = std::env::temp_dir().join(name);
    std::fs::File::create(&path).unwrap().write_all(model.as_bytes()).unwrap();
    let out = Command::new("cargo")
        .args(["run", "--offline", "-q", "--manifest-path", &format!("{repo}/Cargo.toml"), "-p", "pumpkin-solver", "--bin", "pumpkin-solver", "--"])
        .args(args).arg(&path)
        .env("CARGO_TARGET_DIR", format!("{target}-bin")).env("RUST_BACKTRACE", "0")
        .output().expect("cannot run cargo");
    (String::from_utf8_lossy(&out.stdout).to_string(), String::from_utf8_lossy(&out.stderr).to_string())
}


fn values(so: &str, var: &str) -> Vec<i32> {
    let mut v: Vec<i32> = so.lines().filter_map(|l| l.strip_prefix(&format!("{var} = "))).filter_map(|x| x.trim_end_matches(';').parse().ok()).collect();
    v.sort(); v
}

fn main() {
    let (so1, _) = run("pv_f49a.fzn", "var {1,3,5}: x :: output_var;\nconstraint set_in(x, {1,3});\nsolve satisfy;\n", &["-a"]);
    let (so2, se2) = run("pv_f49b.fzn", "var {3}: x :: output_var;\nvar 1..5: y :: output_var;\nconstraint int_le(y, x);\nsolve satisfy;\n", &["-a"]);
    let a = values(&so1, "x");
    let b = values(&so2, "y");
    println!("var {{1,3,5}}: x; set_in(x, {{1,3}}): x in {a:?} (expected [1, 3])");
    println!("var {{3}}: x; var 1..5: y; int_le(y, x): y in {b:?} (expected [1, 2, 3]) {}", so2.lines().chain(se2.lines()).find(|l| l.contains("error")).unwrap_or(""));
    if a == vec![1, 3] && b == vec![1, 2, 3] && so1.contains("==========") && so2.contains("==========") { println!("ok"); }
    else { println!("REPRODUCED: set-domain declarations ignore their equivalence class"); std::process::exit(1); }
}
