#![feature(allocator_api)]
use vstd::prelude::*;
//@@SPEC macros.rs@@
//@@EXTRACT macro_predicate@@
//@@EXTRACT macro_conjunction@@
verus! {
//@@SPEC vocab.rs@@
//@@SPEC std_saturating.rs@@
//@@SPEC contracts/integer_variable_consumer.rs@@
//@@SPEC prop_ctx.rs@@
broadcast use {conv_axioms::axiom_from_empty_domain, seq_lemmas::lemma_seq_holds_push};

// A-VIEWRANGE
#[verifier::external_body]
pub proof fn axiom_eval_in_i32<V: IntegerVariable>(v: &V, a: Asg)
    ensures i32::MIN <= v.eval(a) <= i32::MAX {}
// A-READS
#[verifier::external_body]
pub proof fn lemma_bounds<V: IntegerVariable>(live: Live, v: &V, a: Asg)
    requires live(a) ensures v.eval(a) >= store_lb(live, v), v.eval(a) <= store_ub(live, v) {}
pub open spec fn witnessed<V: IntegerVariable>(live: Live, var: &V, v: int) -> bool { exists|a: Asg| #![trigger live(a)] live(a) && var.eval(a) == v }
impl<'a> PropagationContextMut<'a> {
    // ReadDomains::iterate_domain, evaluated once: the values of the variable's domain (each is taken in some live assignment)
    #[verifier::external_body]
    pub fn iterate_domain<V: IntegerVariable>(&self, var: &V) -> (r: Vec<i32>)
        ensures forall|k: int| #![trigger r@[k]] 0 <= k < r@.len() ==> witnessed(self.live(), var, r@[k] as int)
    { unimplemented!() }
}

//@@EXTRACT s_elem@@
// the mathematical constraint
pub open spec fn elem_holds<VX: IntegerVariable, VI: IntegerVariable, VE: IntegerVariable>(p: &ElementPropagator<VX, VI, VE>, a: Asg) -> bool {
    0 <= p.index.eval(a) < p.array@.len() && p.array@[p.index.eval(a)].eval(a) == p.rhs.eval(a)
}
pub open spec fn index_in_array<VI: IntegerVariable>(live: Live, index: &VI, n: int) -> bool {
    forall|a: Asg| #![trigger live(a)] live(a) ==> 0 <= index.eval(a) < n
}
// a pending removal: the index value and a reason that (a) holds now and (b) together with the constraint excludes the value
pub open spec fn removal_ok<VI: IntegerVariable>(live: Live, c: Model, index: &VI, e: (i32, PropositionalConjunction)) -> bool {
    &&& forall|a: Asg| #![trigger live(a)] live(a) ==> conj_holds(e.1, a)
    &&& forall|a: Asg| #![trigger conj_holds(e.1, a)] c(a) && conj_holds(e.1, a) ==> index.eval(a) != e.0
}
pub open spec fn removals_ok<VI: IntegerVariable>(live: Live, c: Model, index: &VI, v: Vec<(i32, PropositionalConjunction)>) -> bool {
    forall|k: int| #![trigger v@[k]] 0 <= k < v@.len() ==> removal_ok(live, c, index, v@[k])
}
pub proof fn lemma_removals_shrink<VI: IntegerVariable>(l0: Live, l1: Live, c: Model, index: &VI, v: Vec<(i32, PropositionalConjunction)>)
    requires removals_ok(l0, c, index, v), prop_monotone(l0, l1)
    ensures removals_ok(l1, c, index, v)
{
    assert forall|k: int| #![trigger v@[k]] 0 <= k < v@.len() implies removal_ok(l1, c, index, v@[k]) by { assert(removal_ok(l0, c, index, v@[k])); }
}

impl<VX: IntegerVariable, VI: IntegerVariable, VE: IntegerVariable> ElementPropagator<VX, VI, VE> {
    // NOT under contract (enumerate / filter / fold chain, lazy reasons packed by the bitfield macro): assumed sound
    #[verifier::external_body]
    fn propagate_rhs_bounds_based_on_array(&self, context: &mut PropagationContextMut<'_>) -> (r: PropagationStatusCP)
        ensures
            final(context).constraint == old(context).constraint, final(context).reified == old(context).reified,
            *final(final(context).assignments) == *final(old(context).assignments),
            prop_monotone(old(context).live(), final(context).live()),
            prop_sound(old(context).live(), final(context).live(), old(context).constraint@),
            conflict_ok(final(context).live(), old(context).constraint@, r),
            err_means_infeasible(old(context).live(), old(context).constraint@, r),
            r is Ok && !live_empty(old(context).live()) ==> !live_empty(final(context).live()),
    { unimplemented!() }
//@@EXTRACT el0@@
//@@EXTRACT el@@
}
} // verus!
fn main() {}
