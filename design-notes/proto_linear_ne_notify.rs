use vstd::prelude::*;
use std::rc::Rc;
verus! {
pub struct Assignments { pub g: Ghost<int> }
pub struct StatefulPropagationContext<'a> { pub assignments: &'a Assignments }
pub trait IntegerVariable: Sized { spec fn lb(&self, a: &Assignments) -> int; }
impl<'a> StatefulPropagationContext<'a> {
    #[verifier::external_body]
    pub fn lower_bound<V: IntegerVariable>(&self, var: &V) -> (r: i32) ensures r == var.lb(self.assignments) { unimplemented!() }
}
#[derive(Clone, Copy)] pub struct LocalId { pub id: u32 }
impl LocalId { pub fn unpack(self) -> (r: u32) ensures r == self.id { self.id } }
pub struct OpaqueDomainEvent { pub x: u8 }
pub enum EnqueueDecision { Enqueue, Skip }
pub(crate) struct LinearNotEqualPropagator<Var> {
    terms: Rc<[Var]>,
    rhs: i32,
    number_of_fixed_terms: usize,
    fixed_lhs: i32,
    unfixed_variable_has_been_updated: bool,
    should_recalculate_lhs: bool,
}
impl<Var: IntegerVariable> LinearNotEqualPropagator<Var> {
    fn notify(
        &mut self,
        context: StatefulPropagationContext,
        local_id: LocalId,
        _event: OpaqueDomainEvent,
    ) -> EnqueueDecision {
        // If the updated term is fixed then we update the number of fixed variables
        self.number_of_fixed_terms += 1;
        // We update the value of the left-hand side with the value of the newly fixed variable
        self.fixed_lhs += context.lower_bound(&self.terms[local_id.unpack() as usize]);

        // Either the number of fixed variables is the number of terms - 1 in which case we can
        // propagate if it has not been updated before; if it has been updated then we don't need to
        // remove the value from its domain again.
        let can_propagate = self.number_of_fixed_terms == self.terms.len() - 1
            && !self.unfixed_variable_has_been_updated;
        // Otherwise the number of fixed variables is equal to the number of terms in the following
        // cases:
        // - Either we can report a conflict
        // - Or the sum of the values of the left-hand side is inaccurate and we should recalculate
        let is_conflicting_or_outdated = self.number_of_fixed_terms == self.terms.len()
            && (self.should_recalculate_lhs || self.fixed_lhs == self.rhs);
        if can_propagate || is_conflicting_or_outdated {
            EnqueueDecision::Enqueue
        } else {
            EnqueueDecision::Skip
        }
    }
}
}
fn main(){}
