//! F18 (C18): SparseSet::insert pushed a second copy of an element that was only temporarily removed, after which
//! `indices` could point at the dormant copy and RandomSelector::select_variable spun forever on a fixed variable.
//! Runs the real binary (default brancher = autonomous search over a RandomSelector) on a 4-variable WCNF with
//! optimum 1; the defect shows as a hang after `o 11`.  Exit 1 = reproduced.
use std::io::Write;
use std::process::{Command, Stdio};
use std::time::{Duration, Instant};

fn main() {
    let repo = std::env::var("PUMPKIN_REPO").unwrap_or_else(|_| "/repo".into());
    let wcnf = "p wcnf 4 4 1000\n1000 3 -3 -3 0\n5 1 0\n10 4 3 0\n1 -1 0\n";
    let path = std::env::temp_dir().join("pv_f18.wcnf");
    std::fs::File::create(&path).unwrap().write_all(wcnf.as_bytes()).unwrap();
    let target = std::env::var("CARGO_TARGET_DIR").unwrap_or_else(|_| "/tmp/pumpkin-verif-scratch/replay-target".into());
    // build first so that the watchdog only times the solver
    let st = Command::new("cargo")
        .args(["build", "--offline", "-q", "--manifest-path", &format!("{repo}/Cargo.toml"), "-p", "pumpkin-solver", "--bin", "pumpkin-solver"])
        .env("CARGO_TARGET_DIR", format!("{target}-bin"))
        .status()
        .expect("cannot run cargo");
    assert!(st.success(), "build failed");
    let out_path = std::env::temp_dir().join("pv_f18.out");
    let mut child = Command::new(format!("{target}-bin/debug/pumpkin-solver"))
        .arg(&path)
        .stdout(Stdio::from(std::fs::File::create(&out_path).unwrap()))
        .stderr(Stdio::null())
        .spawn()
        .expect("cannot start solver");
    let start = Instant::now();
    let mut hung = false;
    loop {
        if child.try_wait().unwrap().is_some() {
            break;
        }
        if start.elapsed() > Duration::from_secs(30) {
            let _ = child.kill();
            let _ = child.wait();
            hung = true;
            break;
        }
        std::thread::sleep(Duration::from_millis(50));
    }
    let so = std::fs::read_to_string(&out_path).unwrap_or_default();
    let os: Vec<&str> = so.lines().filter(|l| l.starts_with("o ")).collect();
    let status = so.lines().find(|l| l.starts_with("s "));
    if hung {
        println!("REPRODUCED: 4-variable WCNF (optimum 1): the solver printed {os:?} and then did not finish within 30 s (select_variable spins on a fixed variable)");
        std::process::exit(1);
    }
    if status != Some("s OPTIMUM FOUND") || os.last() != Some(&"o 1") {
        println!("REPRODUCED: 4-variable WCNF (optimum 1): status {status:?}, o-lines {os:?}");
        std::process::exit(1);
    }
    println!("ok: {status:?} {os:?}");
}
