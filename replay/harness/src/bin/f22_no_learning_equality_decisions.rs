//! F22 (C07/C01): ConflictResolver::NoLearning with a value selector that branches on equalities ([x == v]).
//! Reported by a reviewer: after a conflict only the first half ([x >= v]) of the equality decision is negated, so the
//! values above v are never explored.  Exit 1 = reproduced.
use pumpkin_solver::branching::branchers::independent_variable_value_brancher::IndependentVariableValueBrancher;
use pumpkin_solver::branching::value_selection::InDomainMedian;
use pumpkin_solver::branching::variable_selection::InputOrder;
use pumpkin_solver::options::ConflictResolver;
use pumpkin_solver::options::SolverOptions;
use pumpkin_solver::predicate;
use pumpkin_solver::termination::Indefinite;
use pumpkin_solver::Solver;

use pumpkin_solver::results::solution_iterator::IteratedSolution;

fn run(resolver: ConflictResolver) -> usize {
    let mut solver = Solver::with_options(SolverOptions { conflict_resolver: resolver, ..Default::default() });
    let x = solver.new_bounded_integer(0, 5);
    let y = solver.new_bounded_integer(0, 5);
    let _ = solver.add_clause([predicate![x == 5], predicate![y == 5]]);
    let mut brancher = IndependentVariableValueBrancher::new(InputOrder::new(&[x, y]), InDomainMedian);
    let mut termination = Indefinite;
    let mut it = solver.get_solution_iterator(&mut brancher, &mut termination);
    let mut n = 0;
    loop {
        match it.next_solution() {
            IteratedSolution::Solution(..) => n += 1,
            _ => break,
        }
        if n > 100 { break; }
    }
    n
}

fn main() {
    // x, y in 0..5 with (x == 5 or y == 5): 11 solutions
    let uip = run(ConflictResolver::UIP);
    let nl = run(ConflictResolver::NoLearning);
    if uip == 11 && nl == 11 {
        println!("ok: 11 solutions under both resolvers");
    } else {
        println!("REPRODUCED: x, y in 0..5, [x==5] or [y==5] has 11 solutions; InputOrder + InDomainMedian enumerates {uip} with UIP and {nl} with NoLearning");
        std::process::exit(1);
    }
}
