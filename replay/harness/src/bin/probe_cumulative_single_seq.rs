//! one-off probe (generate_sequence = true): prints solution counts per propagation method for an instance given on the command line:
//! <cap> then triples lb ub dur usage ...
use pumpkin_solver::constraints;
use pumpkin_solver::options::*;
use pumpkin_solver::results::solution_iterator::IteratedSolution;
use pumpkin_solver::termination::Indefinite;
use pumpkin_solver::Solver;
fn main() {
    let a: Vec<i32> = std::env::args().skip(1).map(|s| s.parse().unwrap()).collect();
    let cap = a[0];
    let tasks: Vec<&[i32]> = a[1..].chunks(4).collect();
    let methods = [CumulativePropagationMethod::TimeTablePerPoint, CumulativePropagationMethod::TimeTablePerPointIncremental,
        CumulativePropagationMethod::TimeTablePerPointIncrementalSynchronised, CumulativePropagationMethod::TimeTableOverInterval,
        CumulativePropagationMethod::TimeTableOverIntervalIncremental, CumulativePropagationMethod::TimeTableOverIntervalIncrementalSynchronised];
    for (mi, m) in methods.iter().enumerate() {
        let mm = *m; let tasks2: Vec<Vec<i32>> = tasks.iter().map(|t| t.to_vec()).collect();
        let r = std::panic::catch_unwind(move || {
            let mut solver = Solver::default();
            let vars: Vec<_> = tasks2.iter().map(|t| solver.new_bounded_integer(t[0], t[1])).collect();
            let opts = CumulativeOptions::new(false, CumulativeExplanationType::Naive, true, mm, false);
            if solver.add_constraint(constraints::cumulative_with_options(vars, tasks2.iter().map(|t| t[2]).collect::<Vec<_>>(), tasks2.iter().map(|t| t[3]).collect::<Vec<_>>(), cap, opts)).post().is_err() { return 0usize; }
            let mut brancher = solver.default_brancher();
            let mut termination = Indefinite;
            let mut it = solver.get_solution_iterator(&mut brancher, &mut termination);
            let mut n = 0;
            loop { match it.next_solution() { IteratedSolution::Solution(..) => n += 1, _ => break } if n > 1000 { break; } }
            n
        });
        println!("method {mi}: {r:?}");
    }
}
