//! F33 (C18): DynamicVariableSelector (the boxed wrapper the FlatZinc front-end uses for every variable selection
//! strategy) forwards on_conflict / on_unassign_integer / on_appearance_in_conflict_predicate to the wrapped
//! selector but NOT on_backtrack.  ProportionalDomainSize forgets the variables it sees fixed and brings them back
//! only in on_backtrack: wrapped in a DynamicVariableSelector it returns None while variables it is responsible
//! for are unfixed, and the solver reports a "solution" with unfixed variables.  Exit 1 = reproduced.
use pumpkin_solver::branching::branchers::independent_variable_value_brancher::IndependentVariableValueBrancher;
use pumpkin_solver::branching::value_selection::InDomainMin;
use pumpkin_solver::branching::variable_selection::DynamicVariableSelector;
use pumpkin_solver::branching::variable_selection::ProportionalDomainSize;
use pumpkin_solver::predicate;
use pumpkin_solver::results::ProblemSolution;
#[allow(unused_imports)]
use pumpkin_solver::results::SatisfactionResult;
use pumpkin_solver::termination::Indefinite;
use pumpkin_solver::variables::DomainId;
use pumpkin_solver::Solver;

fn model(solver: &mut Solver) -> Vec<DomainId> {
    let mut variables = Vec::new();
    for _ in 0..6 {
        variables.push(solver.new_bounded_integer(0, 9));
    }
    // gadgets (s \/ t), (s \/ ~t): the decision [s <= 0] leads to a conflict and a backtrack to the root
    for _ in 0..6 {
        let s = solver.new_bounded_integer(0, 1);
        let t = solver.new_bounded_integer(0, 1);
        solver.add_clause([predicate!(s >= 1), predicate!(t >= 1)]).unwrap();
        solver.add_clause([predicate!(s >= 1), predicate!(t <= 0)]).unwrap();
        variables.push(s);
        variables.push(t);
    }
    variables
}

fn unfixed(solver_solution: &pumpkin_solver::results::Solution, variables: &[DomainId]) -> Vec<usize> {
    (0..variables.len())
        .filter(|&i| {
            let v = variables[i];
            (0..=9).filter(|&value| solver_solution.is_predicate_satisfied(predicate!(v == value))).count() != 1
        })
        .collect()
}

fn main() {
    // reference: the selector used directly
    let direct = {
        let mut solver = Solver::default();
        let variables = model(&mut solver);
        let mut brancher = IndependentVariableValueBrancher::new(ProportionalDomainSize::new(&variables), InDomainMin);
        match solver.satisfy(&mut brancher, &mut Indefinite) {
            SatisfactionResult::Satisfiable(s) => unfixed(&s, &variables),
            _ => panic!("satisfiable model"),
        }
    };
    let wrapped = {
        let mut solver = Solver::default();
        let variables = model(&mut solver);
        let selector: DynamicVariableSelector<DomainId> = DynamicVariableSelector::new(Box::new(ProportionalDomainSize::new(&variables)));
        let mut brancher = IndependentVariableValueBrancher::new(selector, InDomainMin);
        match solver.satisfy(&mut brancher, &mut Indefinite) {
            SatisfactionResult::Satisfiable(s) => unfixed(&s, &variables),
            _ => panic!("satisfiable model"),
        }
    };
    println!("unfixed variables in the reported solution: direct use {direct:?}, inside DynamicVariableSelector {wrapped:?}");
    if !wrapped.is_empty() || !direct.is_empty() {
        println!("REPRODUCED: ProportionalDomainSize inside a DynamicVariableSelector: the reported solution leaves variables {wrapped:?} unfixed (on_backtrack is not forwarded)");
        std::process::exit(1);
    }
    println!("ok: every variable is fixed in both reported solutions");
}
