#![feature(allocator_api)]
use vstd::prelude::*;
//@@SPEC macros.rs@@
//@@EXTRACT macro_predicate@@
verus! {
//@@SPEC vocab.rs@@
//@@EXTRACT pc_trait@@
//@@EXTRACT pc_dom@@
pub type Tag = Option<std::num::NonZero<u32>>;
pub type StepId = std::num::NonZero<u64>;
pub type Dom = spec_fn(int) -> bool;
// the constraint a tag stands for
pub uninterp spec fn tag_model(t: Tag) -> Model;
#[derive(Clone, Copy, PartialEq, Eq, Structural)]
pub struct PropagatorId { pub v: u32 }
#[derive(Clone, Copy, PartialEq, Eq, Structural)]
pub struct ReasonRef { pub v: u32 }
#[derive(Clone, Copy)]
pub struct ConstraintProgrammingTrailEntry {
    pub predicate: Predicate,
    pub old_lower_bound: i32,
    pub old_upper_bound: i32,
    pub reason: Option<ReasonRef>,
}
// ---- a predicate as a set of values of its variable ----
pub open spec fn var_of(p: Predicate) -> int {
    match p {
        Predicate::LowerBound { domain_id, .. } => domain_id.id as int,
        Predicate::UpperBound { domain_id, .. } => domain_id.id as int,
        Predicate::NotEqual { domain_id, .. } => domain_id.id as int,
        Predicate::Equal { domain_id, .. } => domain_id.id as int,
    }
}
pub open spec fn sat(p: Predicate, d: int) -> bool {
    match p {
        Predicate::LowerBound { lower_bound, .. } => d >= lower_bound,
        Predicate::UpperBound { upper_bound, .. } => d <= upper_bound,
        Predicate::NotEqual { not_equal_constant, .. } => d != not_equal_constant,
        Predicate::Equal { equality_constant, .. } => d == equality_constant,
    }
}
impl Predicate {
    #[verifier::external_body]
    pub fn get_domain(&self) -> (r: DomainId) ensures r.id as int == var_of(*self) { unimplemented!() }
    #[verifier::external_body]
    pub fn get_right_hand_side(&self) -> (r: i32)
        ensures r == (match *self { Predicate::LowerBound { lower_bound, .. } => lower_bound, Predicate::UpperBound { upper_bound, .. } => upper_bound,
                                    Predicate::NotEqual { not_equal_constant, .. } => not_equal_constant, Predicate::Equal { equality_constant, .. } => equality_constant })
    { unimplemented!() }
}
pub open spec fn rhs_of(p: Predicate) -> i32 {
    match p { Predicate::LowerBound { lower_bound, .. } => lower_bound, Predicate::UpperBound { upper_bound, .. } => upper_bound,
              Predicate::NotEqual { not_equal_constant, .. } => not_equal_constant, Predicate::Equal { equality_constant, .. } => equality_constant }
}
#[verifier::external]
impl std::fmt::Display for Predicate { fn fmt(&self, f: &mut std::fmt::Formatter<'_>) -> std::fmt::Result { Ok(()) } }
// ---- the ghost history of the trail: functions of the store identity ----
pub uninterp spec fn tp_of(state: int, p: Predicate) -> Option<usize>;
pub uninterp spec fn entry_of(state: int, pos: int) -> ConstraintProgrammingTrailEntry;
pub uninterp spec fn dom_before(state: int, pos: int) -> Dom;      // domain of the entry's variable before / after the entry
pub uninterp spec fn dom_after(state: int, pos: int) -> Dom;
pub uninterp spec fn initial(state: int, p: Predicate) -> bool;
// A-TRAIL for one predicate
pub open spec fn became_true(state: int, pred: Predicate) -> bool {
    tp_of(state, pred) matches Some(p) && {
        let e = entry_of(state, p as int).predicate; let d0 = dom_before(state, p as int); let d1 = dom_after(state, p as int);
        &&& var_of(e) == var_of(pred) && !(e is Equal)
        &&& forall|d: int| #![trigger d1(d)] d1(d) <==> d0(d) && sat(e, d)
        &&& exists|d: int| #![trigger d1(d)] d1(d)
        &&& forall|d: int| #![trigger d1(d)] d1(d) ==> sat(pred, d)
        &&& exists|d: int| #![trigger d0(d)] d0(d) && !sat(pred, d)
        &&& forall|d: int| #![trigger d0(d)] d0(d) ==> i32::MIN <= d <= i32::MAX
    }
}
impl Assignments {
    #[verifier::external_body]
    pub fn is_initial_bound(&self, predicate: Predicate) -> (r: bool) ensures r == initial(self.state@, predicate) { unimplemented!() }
    #[verifier::external_body]
    pub fn get_trail_position(&self, predicate: &Predicate) -> (r: Option<usize>) ensures r == tp_of(self.state@, *predicate) { unimplemented!() }
    #[verifier::external_body]
    pub fn get_trail_entry(&self, index: usize) -> (r: ConstraintProgrammingTrailEntry) ensures r == entry_of(self.state@, index as int) { unimplemented!() }
}
// ---- the reason buffer (D25) ----
pub struct PvBuf<T> { pub items: Ghost<Seq<T>> }
impl<T> PvBuf<T> {
    #[verifier::external_body]
    pub fn pv_push(&mut self, x: T) ensures final(self).items@ == old(self).items@.push(x) { unimplemented!() }
    #[verifier::external_body]
    pub fn as_ref(&self) -> (r: &[T]) ensures r@ == self.items@ { unimplemented!() }
}
pub struct PvCopied { pub items: Ghost<Seq<Predicate>> }
pub trait PvItems { spec fn pv_items(&self) -> Seq<Predicate>; }
impl PvItems for &[Predicate] { open spec fn pv_items(&self) -> Seq<Predicate> { (*self)@ } }
#[verifier::external_body]
pub fn pv_iter_copied<C: PvItems>(c: &C) -> (r: PvCopied) ensures r.items@ == c.pv_items() { unimplemented!() }
// ---- stores ----
pub struct CurrentNogood<'a> { pub x: &'a u8 }
pub struct ExplanationContext<'a> { pub assignments: &'a Assignments }
impl<'a> ExplanationContext<'a> {
    #[verifier::external_body]
    pub fn new(assignments: &'a Assignments, current_nogood: CurrentNogood<'a>) -> (r: Self) ensures r.assignments == assignments { unimplemented!() }
}
pub struct PropagatorStore { pub tags: Ghost<Map<int, Tag>> }
impl PropagatorStore {
    #[verifier::external_body]
    pub fn get_tag(&self, id: PropagatorId) -> (r: Tag) ensures r == self.tags@[id.v as int] { unimplemented!() }
}
pub uninterp spec fn prop_of(r: ReasonRef) -> PropagatorId;
pub uninterp spec fn reason_of(state: int, r: ReasonRef) -> Seq<Predicate>;
pub struct ReasonStore { pub x: u8 }
impl ReasonStore {
    #[verifier::external_body]
    pub fn get_propagator(&self, reason_ref: ReasonRef) -> (r: PropagatorId) ensures r == prop_of(reason_ref) { unimplemented!() }
    // the stored (or lazily computed) reason is appended; A-EXPL: the reference is not stale
    #[verifier::external_body]
    pub fn get_or_compute(&mut self, reference: ReasonRef, context: ExplanationContext<'_>, propagators: &mut PropagatorStore, destination_buffer: &mut PvBuf<Predicate>) -> (r: bool)
        ensures r, final(destination_buffer).items@ == old(destination_buffer).items@ + reason_of(context.assignments.state@, reference),
                final(propagators).tags == old(propagators).tags,
    { unimplemented!() }
}
pub struct ProofLog {
    pub log: Ghost<Seq<(Tag, Seq<Predicate>, Option<Predicate>)>>,
    pub hints: Ghost<Seq<StepId>>,
}
impl ProofLog {
    #[verifier::external_body]
    pub fn log_inference(&mut self, constraint_tag: Tag, premises: PvCopied, propagated: Option<Predicate>) -> (r: Result<std::num::NonZero<u64>, ()>)
        ensures final(self).log@ == old(self).log@.push((constraint_tag, premises.items@, propagated)), final(self).hints == old(self).hints
    { unimplemented!() }
    #[verifier::external_body]
    pub fn add_propagation(&mut self, step_id: StepId)
        ensures final(self).hints@ == old(self).hints@.push(step_id), final(self).log == old(self).log
    { unimplemented!() }
}
pub struct HashMap<K, V> { pub m: Ghost<Map<K, V>> }
impl<K, V> HashMap<K, V> {
    #[verifier::external_body]
    pub fn get(&self, k: &K) -> (r: Option<&V>)
        ensures r is Some == self.m@.dom().contains(*k), r matches Some(v) ==> *v == self.m@[*k]
    { unimplemented!() }
}
pub struct ConstraintSatisfactionSolver;
impl ConstraintSatisfactionSolver {
    #[verifier::external_body]
    pub fn get_nogood_propagator_id() -> (r: PropagatorId) ensures r == nogood_propagator() { unimplemented!() }
}
pub uninterp spec fn nogood_propagator() -> PropagatorId;
// a logged inference `premises -> propagated` follows from the constraint of its tag
pub open spec fn inference_ok(e: (Tag, Seq<Predicate>, Option<Predicate>)) -> bool {
    match e.2 {
        Some(q) => forall|a: Asg| #![trigger (tag_model(e.0))(a)] (tag_model(e.0))(a) && seq_holds(e.1, a) ==> pred_holds(q, a),
        None => forall|a: Asg| #![trigger (tag_model(e.0))(a)] (tag_model(e.0))(a) ==> !seq_holds(e.1, a),
    }
}
pub open spec fn entry_for(state: int, pred: Predicate) -> ConstraintProgrammingTrailEntry { entry_of(state, tp_of(state, pred)->Some_0 as int) }
pub open spec fn on_trail(state: int, pred: Predicate) -> bool { tp_of(state, pred) is Some && entry_for(state, pred).predicate == pred }
// the unit-nogood branch is taken
pub open spec fn unit_branch(state: int, pred: Predicate, buffer_len: nat) -> bool {
    on_trail(state, pred) && entry_for(state, pred).reason is Some && prop_of(entry_for(state, pred).reason->Some_0) == nogood_propagator()
        && reason_of(state, entry_for(state, pred).reason->Some_0).len() == 0 && buffer_len == 0
}
// A-EXPL for the entry that carries the predicate
pub open spec fn explained(state: int, tags: Map<int, Tag>, pred: Predicate) -> bool {
    on_trail(state, pred) ==> (entry_for(state, pred).reason is Some && {
        let rr = entry_for(state, pred).reason->Some_0;
        let tag = tags[prop_of(rr).v as int];
        forall|a: Asg| #![trigger (tag_model(tag))(a)] (tag_model(tag))(a) && seq_holds(reason_of(state, rr), a) ==> pred_holds(pred, a)
    })
}
pub struct ConflictAnalysisContext<'a> { pub x: &'a u8 }
impl ConflictAnalysisContext<'_> {
//@@EXTRACT cac@@
}
} // verus!
fn main() {}
