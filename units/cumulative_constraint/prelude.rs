#![feature(allocator_api)]
use vstd::prelude::*;
//@@SPEC macros.rs@@
verus! {
use std::num::NonZero;
pub type Var = u32;
#[derive(Clone, Copy, PartialEq, Eq, Structural)]
pub struct Literal { pub id: u32 }
pub struct ConstraintOperationError;
pub struct ArgTask<V> { pub start_time: V, pub processing_time: i32, pub resource_usage: i32 }
#[derive(Clone, Copy, PartialEq, Eq, Structural)]
pub struct CumulativePropagatorOptions { pub x: u8 }
#[derive(Clone, Copy, PartialEq, Eq, Structural)]
pub enum CumulativePropagationMethod { TimeTablePerPoint, TimeTablePerPointIncremental, TimeTablePerPointIncrementalSynchronised, TimeTableOverInterval, TimeTableOverIntervalIncremental, TimeTableOverIntervalIncrementalSynchronised }
#[derive(Clone, Copy)]
pub struct CumulativeOptions { pub propagation_method: CumulativePropagationMethod, pub propagator_options: CumulativePropagatorOptions }
// what has been posted: (reification literal or none, tag, the tasks, the capacity, the propagator options)
pub struct Posting { pub reif: Option<Literal>, pub tag: Option<NonZero<u32>>, pub tasks: Seq<ArgTask<Var>>, pub capacity: int, pub options: CumulativePropagatorOptions }
pub struct Solver { pub posted: Ghost<Seq<Posting>> }
macro_rules! propagator_stub {
    ($name:ident $(, $cg:ident)?) => {
        verus! {
        pub struct $name<V $(, const $cg: bool)?> { pub tasks: Ghost<Seq<ArgTask<V>>>, pub capacity: i32, pub options: CumulativePropagatorOptions }
        impl<$(const $cg: bool)?> $name<Var $(, $cg)?> {
            #[verifier::external_body]
            pub fn new(arg_tasks: &[ArgTask<Var>], capacity: i32, options: CumulativePropagatorOptions) -> (r: Self)
                ensures r.tasks@ == arg_tasks@, r.capacity == capacity, r.options == options
            { unimplemented!() }
            #[verifier::external_body]
            pub fn post(self, solver: &mut Solver, tag: Option<NonZero<u32>>) -> (r: Result<(), ConstraintOperationError>)
                ensures final(solver).posted@ == old(solver).posted@.push(Posting { reif: None, tag, tasks: self.tasks@, capacity: self.capacity as int, options: self.options })
            { unimplemented!() }
            #[verifier::external_body]
            pub fn implied_by(self, solver: &mut Solver, reification_literal: Literal, tag: Option<NonZero<u32>>) -> (r: Result<(), ConstraintOperationError>)
                ensures final(solver).posted@ == old(solver).posted@.push(Posting { reif: Some(reification_literal), tag, tasks: self.tasks@, capacity: self.capacity as int, options: self.options })
            { unimplemented!() }
        }
        }
    };
}
propagator_stub!(TimeTablePerPointPropagator);
propagator_stub!(TimeTablePerPointIncrementalPropagator, SYNCHRONISE);
propagator_stub!(TimeTableOverIntervalPropagator);
propagator_stub!(TimeTableOverIntervalIncrementalPropagator, SYNCHRONISE);
pub struct CumulativeConstraint<V> { pub tasks: Vec<ArgTask<V>>, pub resource_capacity: i32, pub options: CumulativeOptions }
pub trait Constraint: Sized {
    spec fn what(&self, reif: Option<Literal>, tag: Option<NonZero<u32>>) -> Posting;
    // @C09 @C08 posting adds exactly this constraint, unconditionally
    fn post(self, solver: &mut Solver, tag: Option<NonZero<u32>>) -> (r: Result<(), ConstraintOperationError>)
        ensures final(solver).posted@ == old(solver).posted@.push(self.what(None, tag));
    // @C09 half-reification adds exactly this constraint under the literal: r -> c, never c alone
    fn implied_by(self, solver: &mut Solver, reification_literal: Literal, tag: Option<NonZero<u32>>) -> (r: Result<(), ConstraintOperationError>)
        ensures final(solver).posted@ == old(solver).posted@.push(self.what(Some(reification_literal), tag));
}
impl Constraint for CumulativeConstraint<Var> {
    open spec fn what(&self, reif: Option<Literal>, tag: Option<NonZero<u32>>) -> Posting {
        Posting { reif, tag, tasks: self.tasks@, capacity: self.resource_capacity as int, options: self.options.propagator_options }
    }
//@@EXTRACT cc@@
}
} // verus!
fn main() {}
