//! F1 (C10/C11): a solve that finishes at decision level 0 leaves the solver in a non-ready state, so the
//! next solve panics in `declare_solving`.  Exit 1 = reproduced.
use pumpkin_solver::results::SatisfactionResult;
use pumpkin_solver::termination::Indefinite;
use pumpkin_solver::termination::TerminationCondition;
use pumpkin_solver::Solver;

struct StopAtFirstPoll;
impl TerminationCondition for StopAtFirstPoll {
    fn should_stop(&mut self) -> bool {
        true
    }
}

fn main() {
    let mut failed = false;
    // (a) all variables fixed at the root: satisfy twice on the same solver
    let r = std::panic::catch_unwind(|| {
        let mut solver = Solver::default();
        let _x = solver.new_bounded_integer(3, 3);
        let mut brancher = solver.default_brancher();
        let first = matches!(
            solver.satisfy(&mut brancher, &mut Indefinite),
            SatisfactionResult::Satisfiable(_)
        );
        let second = matches!(
            solver.satisfy(&mut brancher, &mut Indefinite),
            SatisfactionResult::Satisfiable(_)
        );
        (first, second)
    });
    match r {
        Err(_) => {
            println!("REPRODUCED: x in [3,3]; satisfy(); satisfy()  -> second call panics (solver not ready after a solve finishing at decision level 0)");
            failed = true;
        }
        Ok((true, true)) => println!("ok: two consecutive root-level solves both satisfiable"),
        Ok(v) => {
            println!("REPRODUCED: x in [3,3]; two solves gave {v:?}, expected (true, true)");
            failed = true;
        }
    }
    // (b) interrupt at the first poll (decision level 0), then ask again
    let r = std::panic::catch_unwind(|| {
        let mut solver = Solver::default();
        let _x = solver.new_bounded_integer(0, 5);
        let mut brancher = solver.default_brancher();
        let first = matches!(
            solver.satisfy(&mut brancher, &mut StopAtFirstPoll),
            SatisfactionResult::Unknown
        );
        let second = matches!(
            solver.satisfy(&mut brancher, &mut Indefinite),
            SatisfactionResult::Satisfiable(_)
        );
        (first, second)
    });
    match r {
        Err(_) => {
            println!("REPRODUCED: x in [0,5]; satisfy() interrupted at poll 0; satisfy() -> second call panics");
            failed = true;
        }
        Ok((true, true)) => println!("ok: interrupted solve followed by a successful solve"),
        Ok(v) => {
            println!("REPRODUCED: interrupted-then-solve gave {v:?}, expected (true, true)");
            failed = true;
        }
    }
    if failed {
        std::process::exit(1);
    }
}
