//! F43 (C06): with a full proof, a learned UNIT nogood whose clause is an equality [x == v] is registered under the
//! predicate [x == v]; the equality is put on the trail as two bound updates.  When the proof is finalised and a root
//! propagation that uses one of these bounds has to be explained, explain_root_assignment([x >= v]) does not find the
//! bound among the unit nogoods, get_propagation_reason takes its `[x == v]` fall-back (a propagation hint, no
//! premises) and `assert!(!reason.is_empty())` panics: no proof is written for an unsatisfiable model.
//! Exit 1 = reproduced.
use std::num::NonZero;

use pumpkin_solver::branching::branchers::independent_variable_value_brancher::IndependentVariableValueBrancher;
use pumpkin_solver::branching::value_selection::InDomainMin;
use pumpkin_solver::branching::variable_selection::InputOrder;
use pumpkin_solver::constraints;
use pumpkin_solver::constraints::Constraint;
use pumpkin_solver::options::SolverOptions;
use pumpkin_solver::predicate;
use pumpkin_solver::proof::ProofLog;
use pumpkin_solver::results::SatisfactionResult;
use pumpkin_solver::termination::Indefinite;
use pumpkin_solver::variables::TransformableVariable;
use pumpkin_solver::Solver;

fn main() {
    let proof_path = std::env::temp_dir().join("pv_f43.drcp");
    let pp = proof_path.clone();
    let r = std::panic::catch_unwind(move || {
        let mut solver = Solver::with_options(SolverOptions {
            proof_log: ProofLog::cp(&pp, drcp_format::Format::Text, true, false).expect("created proof"),
            ..Default::default()
        });
        let x = solver.new_named_bounded_integer(0, 3, "x");
        let y = solver.new_named_bounded_integer(0, 1, "y");
        let z = solver.new_named_bounded_integer(0, 3, "z");
        let tag = |t: u32| NonZero::new(t).unwrap();
        // [x == 2] \/ [y >= 1]  and  [x == 2] \/ [y <= 0]: any decision with x != 2 conflicts, the unit nogood [x == 2] is learned
        solver.add_clause([predicate!(x == 2), predicate!(y >= 1)]).expect("no conflict");
        solver.add_clause([predicate!(x == 2), predicate!(y <= 0)]).expect("no conflict");
        // c1: x + z <= 3 (x >= 2 gives z <= 1);  c2: x - z <= 0 (x >= 2 gives z >= 2): with x == 2 the root is inconsistent
        solver.add_constraint(constraints::less_than_or_equals([x.scaled(1), z.scaled(1)], 3)).with_tag(tag(1)).post().expect("no conflict");
        solver.add_constraint(constraints::less_than_or_equals([x.scaled(1), z.scaled(-1)], 0)).with_tag(tag(2)).post().expect("no conflict");
        let mut brancher = IndependentVariableValueBrancher::new(InputOrder::new(&[x, y, z]), InDomainMin);
        match solver.satisfy(&mut brancher, &mut Indefinite) {
            SatisfactionResult::Unsatisfiable => "unsatisfiable".to_string(),
            SatisfactionResult::Satisfiable(_) => "satisfiable".to_string(),
            SatisfactionResult::Unknown => "unknown".to_string(),
        }
    });
    let what = "x in 0..3, y in 0..1, z in 0..3; [x==2] or [y>=1]; [x==2] or [y<=0]; x + z <= 3; x - z <= 0; full proof";
    match r {
        Ok(v) if v == "unsatisfiable" => {
            let proof = std::fs::read_to_string(&proof_path).unwrap_or_default();
            if proof.contains("c UNSAT") { println!("ok: {what}: unsatisfiable, the proof ends with its conclusion"); }
            else { println!("REPRODUCED: {what}: unsatisfiable, but the proof has no conclusion: {proof:?}"); std::process::exit(1); }
        }
        Ok(v) => { println!("REPRODUCED: {what}: wrong verdict `{v}`"); std::process::exit(1); }
        Err(_) => { println!("REPRODUCED: {what}: panic while the proof is finalised (assert!(!reason.is_empty()) in explain_root_assignment)"); std::process::exit(1); }
    }
}
