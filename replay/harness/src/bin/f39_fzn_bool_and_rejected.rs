//! F39 (C13): compile_bool_and checked for two arguments although bool_and(a, b, r) has three: every bool_and constraint
//! was rejected with `constraint bool_and expects 2 arguments, got 3`.
//! Exit 1 = reproduced.
use std::io::Write;
use std::process::Command;

fn run(name: &str, model: &str, args: &[&str]) -> (String, String) {
    let repo = std::env::var("PUMPKIN_REPO").unwrap_or_else(|_| "/repo".into());
    let target = std::env::var("CARGO_TARGET_DIR").unwrap_or_else(|_| "/tmp/pumpkin-verif-scratch/replay-target".into());
    let path = std::env::temp_dir().join(name);
    std::fs::File::create(&path).unwrap().write_all(model.as_bytes()).unwrap();
    let out = Command::new("cargo")
        .args(["run", "--offline", "-q", "--manifest-path", &format!("{repo}/Cargo.toml"), "-p", "pumpkin-solver", "--bin", "pumpkin-solver", "--"])
        .args(args).arg(&path)
        .env("CARGO_TARGET_DIR", format!("{target}-bin")).env("RUST_BACKTRACE", "0")
        .output().expect("cannot run cargo");
    (String::from_utf8_lossy(&out.stdout).to_string(), String::from_utf8_lossy(&out.stderr).to_string())
}

fn main() {
    let model = "var bool: a :: output_var;\nvar bool: b :: output_var;\nvar bool: r :: output_var;\nconstraint bool_and(a, b, r);\nsolve satisfy;\n";
    let (so, _se) = run("pv_f39.fzn", model, &["-a"]);
    let n = so.lines().filter(|l| l.starts_with("----------")).count();
    if n == 4 && so.contains("==========") { println!("ok: 4 solutions of r <-> (a and b)"); }
    else { println!("REPRODUCED: bool_and(a, b, r) with -a: {n} solutions, output {:?}", so.lines().take(3).collect::<Vec<_>>()); std::process::exit(1); }
}
