//! F17 (C15): PseudoBooleanConstraintEncoder::constrain_at_most_k (state Encoded) asserted k >= constant_term; when the
//! incumbent reaches the weight of the soft clauses falsified at the root the next bound is below it: panic instead of `s OPTIMUM FOUND`.  Real binary on a WCNF
//! whose optimum is known (3).  Exit 1 = reproduced.
use std::io::Write;
use std::process::Command;

fn main() {
    let repo = std::env::var("PUMPKIN_REPO").unwrap_or_else(|_| "/repo".into());
    // hard: -x1.  soft: (x1,3) (x2,1) (x3,1) (x4,1)  -> x1 is false at the root, cost >= 3; optimum 3 with x2 = x3 = x4 = true
    let wcnf = "p wcnf 4 5 100\n100 -1 0\n3 1 0\n1 2 0\n1 3 0\n1 4 0\n";
    let path = std::env::temp_dir().join("pv_f17.wcnf");
    std::fs::File::create(&path).unwrap().write_all(wcnf.as_bytes()).unwrap();
    let target = std::env::var("CARGO_TARGET_DIR").unwrap_or_else(|_| "/tmp/pumpkin-verif-scratch/replay-target".into());
    let mut failed = false;
    for enc in ["generalized-totalizer", "cardinality-network"] {
        let out = Command::new("cargo")
            .args(["run", "--offline", "-q", "--manifest-path", &format!("{repo}/Cargo.toml"), "-p", "pumpkin-solver", "--bin", "pumpkin-solver", "--"])
            .args(["--upper-bound-encoding", enc])
            .arg(&path)
            .env("CARGO_TARGET_DIR", format!("{target}-bin"))
            .env("RUST_BACKTRACE", "0")
            .output()
            .expect("cannot run cargo");
        let so = String::from_utf8_lossy(&out.stdout).to_string();
        let se = String::from_utf8_lossy(&out.stderr).to_string();
        let last_o = so.lines().filter(|l| l.starts_with("o ")).last().map(|l| l.to_string());
        let status = so.lines().find(|l| l.starts_with("s ")).map(|l| l.to_string());
        if status.as_deref() == Some("s OPTIMUM FOUND") && last_o.as_deref() == Some("o 3") {
            println!("ok [{enc}]: {status:?} {last_o:?}");
        } else {
            let panic = se.lines().find(|l| l.contains("panicked") || l.contains("overflow")).unwrap_or("");
            println!("REPRODUCED [{enc}]: WCNF with optimum 3 gives status {status:?}, last o-line {last_o:?} {panic}");
            failed = true;
        }
    }
    if failed {
        std::process::exit(1);
    }
}
