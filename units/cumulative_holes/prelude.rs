#![feature(allocator_api)]
use vstd::prelude::*;
use std::rc::Rc;
use std::cmp::max;
use std::cmp::min;
//@@SPEC macros.rs@@
verus! {
//@@SPEC vocab.rs@@
//@@SPEC contracts/integer_variable_consumer.rs@@
//@@SPEC prop_ctx.rs@@
//@@SPEC std_minmax.rs@@
broadcast use {conv_axioms::axiom_from_empty_domain, std_minmax_axioms::axiom_max_i32, std_minmax_axioms::axiom_min_i32};

pub struct LocalId { pub v: u32 }
pub struct Task<Var> {
    pub start_variable: Var,
    pub processing_time: i32,
    pub resource_usage: i32,
    pub id: LocalId,
}
pub struct ResourceProfile<Var> {
    pub start: i32,
    pub end: i32,
    pub profile_tasks: Vec<Rc<Task<Var>>>,
    pub height: i32,
}
#[derive(Clone, Copy)]
pub enum CumulativeExplanationType { Naive, BigStep, Pointwise }

// ---- meaning ----
pub open spec fn runs_at<Var: IntegerVariable>(task: &Task<Var>, a: Asg, t: int) -> bool {
    task.start_variable.eval(a) <= t < task.start_variable.eval(a) + task.processing_time
}
pub open spec fn all_run_at<Var: IntegerVariable>(profile: &ResourceProfile<Var>, a: Asg, t: int) -> bool {
    forall|i: int| #![trigger profile.profile_tasks@[i]] 0 <= i < profile.profile_tasks@.len() ==> runs_at(&*profile.profile_tasks@[i], a, t)
}
// A-PROFILE (what the time-table construction establishes): the profile tasks are mandatory over the whole profile, and
// together with `task` they overflow the capacity, i.e. no solution of the constraint runs `task` at a time point of the
// profile while all profile tasks run there
pub open spec fn profile_mandatory<Var: IntegerVariable>(profile: &ResourceProfile<Var>, live: Live) -> bool {
    forall|a: Asg, t: int| #![trigger live(a), all_run_at(profile, a, t)] live(a) && profile.start <= t <= profile.end ==> all_run_at(profile, a, t)
}
pub open spec fn profile_blocks<Var: IntegerVariable>(profile: &ResourceProfile<Var>, task: &Task<Var>, c: Model) -> bool {
    forall|a: Asg, t: int| #![trigger c(a), all_run_at(profile, a, t)] c(a) && profile.start <= t <= profile.end && all_run_at(profile, a, t) ==> !runs_at(task, a, t)
}

impl Clone for PropositionalConjunction {
    #[verifier::external_body]
    fn clone(&self) -> (r: Self) ensures r == *self { unimplemented!() }
}
// TRUSTED (read from the text: [s >= t + 1 - p] & [s <= t] per profile task)
#[verifier::external_body]
pub fn create_pointwise_propagation_explanation<Var: IntegerVariable>(time_point: i32, profile: &ResourceProfile<Var>) -> (r: PropositionalConjunction)
    ensures forall|a: Asg| #![trigger conj_holds(r, a)] conj_holds(r, a) <==> all_run_at(profile, a, time_point as int)
{ unimplemented!() }

pub struct OnceCellStub { pub x: u8 }
pub struct CumulativePropagationHandler {
    pub explanation_type: CumulativeExplanationType,
    pub stored_profile_explanation: OnceCellStub,
    // ghost: the profile the cached explanation was built for (None: the cache is empty)
    pub cached_for: Ghost<Option<(int, int)>>,
}
pub open spec fn pid<Var>(p: &ResourceProfile<Var>) -> (int, int) { (p.start as int, p.end as int) }
impl CumulativePropagationHandler {
    // the cache is empty or belongs to `p` (the protocol: next_profile() empties it; unit cumulative_sequence checks the callers)
    pub open spec fn cache_ok<Var>(&self, p: &ResourceProfile<Var>) -> bool { self.cached_for@ is None || self.cached_for@ == Some(pid(p)) }
    // TRUSTED (naive / big-step profile explanation: every profile task covers the whole profile)
    #[verifier::external_body]
    fn get_stored_profile_explanation_or_init<Var: IntegerVariable>(&mut self, context: &mut PropagationContextMut, profile: &ResourceProfile<Var>) -> (r: Rc<PropositionalConjunction>)
        requires profile_mandatory(profile, old(context).live()),
                 old(self).cache_ok(profile),     // otherwise the OnceCell hands back the explanation of ANOTHER profile
        ensures *final(context) == *old(context), final(self).explanation_type == old(self).explanation_type,
                final(self).cached_for@ == Some(pid(profile)),
                forall|a: Asg| #![trigger (old(context).live())(a)] (old(context).live())(a) ==> conj_holds(*r, a),
                forall|a: Asg, t: int| #![trigger conj_holds(*r, a), all_run_at(profile, a, t)] conj_holds(*r, a) && profile.start <= t <= profile.end ==> all_run_at(profile, a, t),
    { unimplemented!() }
//@@EXTRACT ph@@
}
} // verus!
fn main() {}
