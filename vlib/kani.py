"""Engine K — Kani on a scratch copy of the real crates (DESIGN.md 2.2).

A group is a directory /verif/kani/<group>/ with group.toml and harness files (*.rs) whose first line
`//@append <repo-relative file>` names the source file they are appended to (only in the scratch copy; the harness
modules are `#[cfg(kani)]`).  Results are cached per (tree hash, harness text hash): the same code and the same
harness give the same verdict, so the property checks that share a group do not re-run CBMC.
"""
import fcntl
import glob
import json
import os
import re
import subprocess
import time
import tomllib

from .common import REPO, SCRATCH_ROOT, VERIF, Undecided, log, read, rmtree, run, sha, write

KANI_DIR = os.path.join(VERIF, "kani")


def all_groups():
    out = {}
    for p in sorted(glob.glob(os.path.join(KANI_DIR, "*", "group.toml"))):
        with open(p, "rb") as f:
            cfg = tomllib.load(f)
        if cfg.get("disabled"):
            continue
        out[os.path.basename(os.path.dirname(p))] = cfg
    return out


def groups_for(pid, tier):
    return [g for g, cfg in all_groups().items() if pid in cfg.get("properties", [])]


class KFailure:
    """Same interface as verus.Failure so that known findings / replay files work uniformly."""

    def __init__(self, group, harness, desc, loc_file, loc_line, loc_fn, tags, rendered):
        self.unit = "kani/" + group
        self.fn = harness
        self.kind = "kani-check"
        self.anchor = desc
        self.clause = f"{loc_file}:{loc_fn}"
        self.tags = tags
        self.rendered = rendered
        self.repo_file = loc_file
        self.repo_line = loc_line
        self.playback = ""

    @property
    def obligation(self):
        return f"{self.unit}/{self.fn}/{self.kind}@{self.anchor} :: {self.clause}"

    @property
    def expr_hash(self):
        return sha(re.sub(r"\s+", " ", self.anchor) + "|" + re.sub(r"\s+", " ", self.clause))[:12]


class GroupResult:
    def __init__(self, group):
        self.group = group
        self.failures = []
        self.undecided = []
        self.checks_total = 0
        self.checks_failed = 0
        self.bounded = []
        self.samples = []
        self.assumptions = []
        self.harness_results = {}
        self.wall = 0.0
        self.cmd = ""

    def evidence(self):
        return {"engine": "K", "harnesses": self.harness_results, "checker_cmd": self.cmd,
                "cbmc_checks": self.checks_total, "cbmc_failed": self.checks_failed, "wall_s": round(self.wall, 1),
                "bounded": self.bounded}


def tree_hash():
    """Hash of /repo's current working tree (tracked content incl. modifications + untracked source files)."""
    rc, head, _, _ = run(["git", "-C", REPO, "rev-parse", "HEAD"])
    rc, diff, _, _ = run(["git", "-C", REPO, "diff", "HEAD", "--", "."])
    rc, untracked, _, _ = run(["git", "-C", REPO, "ls-files", "-o", "--exclude-standard"])
    h = head.strip() + sha(diff)
    for f in untracked.split("\n"):
        f = f.strip()
        if f.endswith(".rs") or f.endswith(".toml"):
            try:
                h += sha(open(os.path.join(REPO, f), "rb").read())
            except OSError:
                pass
    return sha(h)[:16]


def _harness_files(group):
    out = []
    for p in sorted(glob.glob(os.path.join(KANI_DIR, group, "*.rs"))):
        txt = read(p)
        m = re.match(r"//@append (\S+)\n", txt)
        if not m:
            raise Undecided(f"kani/{group}: {os.path.basename(p)} lacks the //@append header")
        out.append((m.group(1), txt[m.end():]))
    return out


def _prepare(group, key):
    d = os.path.join(SCRATCH_ROOT, f"kani-{group}-{key}")
    marker = os.path.join(d, ".prepared")
    if os.path.exists(marker):
        return d
    # drop older copies of this group (disk space)
    for old in glob.glob(os.path.join(SCRATCH_ROOT, f"kani-{group}-*")):
        if old != d:
            rmtree(old)
    os.makedirs(d, exist_ok=True)
    rc, out, err, _ = run(["rsync", "-a", "--delete", "--exclude", "target", "--exclude", ".git", REPO + "/", d + "/repo/"])
    if rc != 0:
        raise Undecided(f"kani/{group}: rsync failed: {err[-300:]}")
    for rel, txt in _harness_files(group):
        p = os.path.join(d, "repo", rel)
        if not os.path.exists(p):
            raise Undecided(f"lost anchor: kani/{group}: {rel} does not exist")
        with open(p, "a", encoding="utf-8") as f:
            f.write("\n" + txt)
    write(marker, "ok")
    return d


RES_RE = re.compile(r"\*\* (\d+) of (\d+) failed")


def _parse(out):
    """terse output with -j: per thread blocks."""
    cur = {}
    results = {}
    lines = out.split("\n")
    i = 0
    thread = None
    while i < len(lines):
        l = lines[i]
        m = re.match(r"(?:Thread (\d+): )?Checking harness (\S+?)\.\.\.", l)
        if m:
            cur[m.group(1) or "0"] = m.group(2).split("::")[-1]
            i += 1
            continue
        m = re.match(r"Thread (\d+):\s*$", l)
        if m:
            thread = m.group(1)
            i += 1
            continue
        if l.startswith("VERIFICATION RESULT:") or l.startswith("SUMMARY:"):
            h = cur.get(thread if thread is not None else "0")
            rec = {"failed": 0, "total": 0, "status": "?", "failed_checks": []}
            i += 1
            while i < len(lines) and not lines[i].startswith("VERIFICATION:-"):
                m2 = RES_RE.search(lines[i])
                if m2:
                    rec["failed"], rec["total"] = int(m2.group(1)), int(m2.group(2))
                m3 = re.match(r"Failed Checks: (.*)", lines[i])
                if m3:
                    desc = m3.group(1).strip()
                    loc = ("", 0, "")
                    if i + 1 < len(lines):
                        m4 = re.match(r'\s*File: "([^"]+)", line (\d+), in (.*)', lines[i + 1])
                        if m4:
                            loc = (m4.group(1), int(m4.group(2)), m4.group(3).strip())
                    rec["failed_checks"].append((desc, loc))
                i += 1
            if i < len(lines):
                rec["status"] = "SUCCESSFUL" if "SUCCESSFUL" in lines[i] else "FAILED"
            if h:
                results[h] = rec
            i += 1
            continue
        i += 1
    return results


def _run_harness(cmd, cwd, timeout):
    """One harness in its own process group so that CBMC children can be killed on timeout."""
    import signal
    env = dict(os.environ)
    env["CARGO_NET_OFFLINE"] = "true"
    p = subprocess.Popen(cmd, cwd=cwd, env=env, stdout=subprocess.PIPE, stderr=subprocess.STDOUT, text=True,
                         start_new_session=True)
    try:
        out, _ = p.communicate(timeout=timeout)
        return "done", out
    except subprocess.TimeoutExpired:
        try:
            os.killpg(p.pid, signal.SIGKILL)
        except ProcessLookupError:
            pass
        try:
            out, _ = p.communicate(timeout=10)
        except Exception:
            out = ""
        return "timeout", out or ""


def run_group(group, pid, tier):
    cfg = all_groups()[group]
    t0 = time.time()
    res = GroupResult(group)
    hdefs = {h["name"]: h for h in cfg.get("harness", [])}
    # tier "manual": kept in the harness file, run by hand only (not part of any registered command)
    wanted = [h["name"] for h in cfg.get("harness", [])
              if h.get("tier", "quick") != "manual" and (tier == "thorough" or h.get("tier", "quick") == "quick")]
    htext = sha("".join(t for _, t in _harness_files(group)))[:12]
    key = tree_hash() + "-" + htext
    os.makedirs(SCRATCH_ROOT, exist_ok=True)
    lockf = open(os.path.join(SCRATCH_ROOT, f"kani-{group}.lock"), "w")
    fcntl.flock(lockf, fcntl.LOCK_EX)
    try:
        d = _prepare(group, key)
        cache_p = os.path.join(d, "results.json")
        cache = json.load(open(cache_p)) if os.path.exists(cache_p) else {}
        todo = [h for h in wanted if h not in cache or cache[h].get("status") == "NO-RESULT"]
        if todo:
            base = ["cargo", "kani", "-p", cfg.get("package", "pumpkin-solver")] + cfg.get("target_args", ["--lib"])
            res.cmd = ("CARGO_NET_OFFLINE=true " + " ".join(base) + " --harness <h> --output-format terse   (one process per "
                       "harness, in a scratch copy of /repo with kani/" + group + "/*.rs appended)")
            repo_d = os.path.join(d, "repo")
            # warm the build once so that the per-harness processes only run CBMC
            rc, out, err, wall = run(base + ["--only-codegen"], cwd=repo_d, timeout=1800)
            allout = out + "\n" + err
            if rc != 0 and ("could not compile" in allout or "error[E" in allout or "error:" in allout):
                errs = [l for l in allout.split("\n") if l.startswith("error")]
                raise Undecided(f"kani/{group}: harness does not compile against the current tree "
                                f"(changed interface?): {' | '.join(errs[:3])[:400]}")

            walls = {}

            def one(h):
                to = hdefs[h].get("timeout_s", cfg.get("harness_timeout_s", 240))
                t1 = time.time()
                r = _run_harness(base + ["--harness", h, "--output-format", "terse"], repo_d, to)
                walls[h] = round(time.time() - t1, 1)
                return h, r

            import concurrent.futures as cf
            with cf.ThreadPoolExecutor(max_workers=cfg.get("jobs", 6)) as ex:
                for h, (status, allout) in ex.map(one, todo):
                    parsed = _parse(allout)
                    if status == "timeout":
                        cache[h] = {"status": "NO-RESULT", "failed": 0, "total": 0, "failed_checks": [], "why": "timeout"}
                    elif h in parsed:
                        cache[h] = parsed[h]
                    elif "could not compile" in allout or "error[E" in allout:
                        errs = [l for l in allout.split("\n") if l.startswith("error")]
                        raise Undecided(f"kani/{group}: harness does not compile against the current tree: {' | '.join(errs[:3])[:400]}")
                    else:
                        cache[h] = {"status": "NO-RESULT", "failed": 0, "total": 0, "failed_checks": [], "why": allout[-300:]}
                    cache[h]["wall_s"] = walls.get(h)
            json.dump(cache, open(cache_p, "w"))
        else:
            res.cmd = "(cached for this tree) cargo kani -p pumpkin-solver --lib --harness <h> --output-format terse"
    finally:
        fcntl.flock(lockf, fcntl.LOCK_UN)
        lockf.close()
    for h in wanted:
        rec = cache[h]
        hd = hdefs[h]
        kind = hd.get("kind", "complete")
        res.harness_results[h] = {"status": rec["status"], "checks": rec["total"], "failed": rec["failed"], "kind": kind,
                                  "bound": hd.get("bound", "")}
        if rec["status"] == "NO-RESULT":
            res.undecided.append(f"harness {h}: no result (resource limit / tool failure)")
            continue
        res.checks_total += rec["total"]
        res.checks_failed += rec["failed"]
        if kind == "bounded":
            res.bounded.append(f"kani/{group}/{h}: {hd.get('bound', 'bounded')}")
        res.samples.append(f"kani/{group}/{h}: {hd.get('what', '')} [{kind}] {rec['total']} CBMC checks, {rec['status']}")
        for desc, loc in rec["failed_checks"]:
            tags = list(hd.get("properties", cfg.get("properties", [])))
            if "overflow" in desc or "attempt to" in desc:
                tags = sorted(set(cfg.get("arith_properties", ["C16"])) | set(hd.get("overflow_also", [])))
            f = KFailure(group, h, desc, loc[0], loc[1], loc[2], tags,
                         f"Kani harness {h}: failed check `{desc}` at {loc[0]}:{loc[1]} in {loc[2]}")
            res.failures.append(f)
    res.assumptions = [f"kani/{group}: {a}" for a in cfg.get("trusted", [])]
    res.wall = time.time() - t0
    return res


def concrete_playback(group, harness):
    """Ask Kani for a concrete counterexample of a failing harness (used for the replay file)."""
    cfg = all_groups()[group]
    htext = sha("".join(t for _, t in _harness_files(group)))[:12]
    d = _prepare(group, tree_hash() + "-" + htext)
    cmd = ["cargo", "kani", "-p", cfg.get("package", "pumpkin-solver")] + cfg.get("target_args", ["--lib"]) + \
          ["--harness", harness, "-Z", "concrete-playback", "--concrete-playback=print", "--output-format", "terse"]
    rc, out, err, wall = run(cmd, cwd=os.path.join(d, "repo"), timeout=900)
    m = re.search(r"Concrete playback unit test for `[^`]*`:\s*```(.*?)```", out + err, re.S)
    return (m.group(1).strip() if m else ""), " ".join(cmd)
