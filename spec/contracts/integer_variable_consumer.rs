// The IntegerVariable / PredicateConstructor interface as *assumed* by the propagator units.
// `eval` is the value of the variable (or view) under a total assignment.  The predicate constructors
// return a predicate with exactly the stated meaning (proved for DomainId / AffineView / Literal in unit
// `views`, there under the range precondition A-VIEWRANGE which is assumed here).
pub trait IntegerVariable: Sized {
    spec fn eval(&self, a: Asg) -> int;

    fn lower_bound_predicate(&self, bound: i32) -> (p: Predicate)
        ensures forall|a: Asg| #[trigger] pred_holds(p, a) <==> self.eval(a) >= bound;
    fn upper_bound_predicate(&self, bound: i32) -> (p: Predicate)
        ensures forall|a: Asg| #[trigger] pred_holds(p, a) <==> self.eval(a) <= bound;
    fn equality_predicate(&self, bound: i32) -> (p: Predicate)
        ensures forall|a: Asg| #[trigger] pred_holds(p, a) <==> self.eval(a) == bound;
    fn disequality_predicate(&self, bound: i32) -> (p: Predicate)
        ensures forall|a: Asg| #[trigger] pred_holds(p, a) <==> self.eval(a) != bound;
}
