use vstd::prelude::*;
macro_rules! pumpkin_assert_simple { ($cond:expr $(, $($arg:tt)*)?) => { assert!($cond) } }
verus! {
pub type Asg = Map<int, int>;
pub type Live = spec_fn(Asg) -> bool;

#[derive(Clone, Copy)] pub struct DomainId { pub id: u32 }
#[derive(Clone, Copy)] pub struct LocalId { pub id: u32 }
#[derive(Clone, Copy)]
pub enum Predicate {
    LowerBound { domain_id: DomainId, lower_bound: i32 },
    UpperBound { domain_id: DomainId, upper_bound: i32 },
    NotEqual { domain_id: DomainId, not_equal_constant: i32 },
    Equal { domain_id: DomainId, equality_constant: i32 },
}
pub open spec fn pred_holds(p: Predicate, a: Asg) -> bool {
    match p {
        Predicate::LowerBound { domain_id, lower_bound } => a[domain_id.id as int] >= lower_bound,
        Predicate::UpperBound { domain_id, upper_bound } => a[domain_id.id as int] <= upper_bound,
        Predicate::NotEqual { domain_id, not_equal_constant } => a[domain_id.id as int] != not_equal_constant,
        Predicate::Equal { domain_id, equality_constant } => a[domain_id.id as int] == equality_constant,
    }
}
pub struct PropositionalConjunction { pub predicates_in_conjunction: Vec<Predicate> }
pub open spec fn conj_holds(c: PropositionalConjunction, a: Asg) -> bool {
    forall|i: int| 0 <= i < c.predicates_in_conjunction@.len() ==> pred_holds(#[trigger] c.predicates_in_conjunction@[i], a)
}
impl PropositionalConjunction {
    #[verifier::external_body]
    pub fn add(&mut self, predicate: Predicate)
        ensures forall|a: Asg| #[trigger] conj_holds(*final(self), a) <==> (conj_holds(*old(self), a) && pred_holds(predicate, a))
    { unimplemented!() }
}
pub struct EmptyDomain;
pub enum Inconsistency { Conflict(PropositionalConjunction), EmptyDomain }
pub type PropagationStatusCP = Result<(), Inconsistency>;
impl vstd::std_specs::convert::FromSpecImpl<EmptyDomain> for Inconsistency {
    open spec fn obeys_from_spec() -> bool { true }
    open spec fn from_spec(e: EmptyDomain) -> Self { Inconsistency::EmptyDomain }
}
impl From<EmptyDomain> for Inconsistency { fn from(e: EmptyDomain) -> (r: Self) { Inconsistency::EmptyDomain } }

// a literal: a 0/1 view; lit_true(a) is its meaning
#[derive(Clone, Copy)]
pub struct Literal { pub d: DomainId, pub neg: bool }
impl Literal {
    pub open spec fn is_true(&self, a: Asg) -> bool { if self.neg { a[self.d.id as int] == 0 } else { a[self.d.id as int] == 1 } }
    #[verifier::external_body]
    pub fn get_true_predicate(&self) -> (p: Predicate) ensures forall|a: Asg| #[trigger] pred_holds(p, a) <==> self.is_true(a) { unimplemented!() }
}

pub struct Assignments { pub live: Ghost<Live> }
pub struct StatefulPropagationContext<'a> { pub assignments: &'a Assignments }
impl<'a> StatefulPropagationContext<'a> { pub open spec fn live(&self) -> Live { self.assignments.live@ } }

pub open spec fn entails(live: Live, c: PropositionalConjunction) -> bool { forall|a: Asg| #[trigger] live(a) ==> conj_holds(c, a) }

pub struct PropagationContextMut<'a> {
    pub assignments: &'a mut Assignments,
    pub constraint: Ghost<spec_fn(Asg) -> bool>,          // what the solver believes this propagator enforces
    pub reification_literal: Option<Literal>,
}
impl<'a> PropagationContextMut<'a> {
    pub open spec fn live(&self) -> Live { self.assignments.live@ }
    pub open spec fn reif(&self, a: Asg) -> bool { match self.reification_literal { Some(l) => l.is_true(a), None => true } }
    // the constraint a reason may rely on
    pub open spec fn effective(&self, a: Asg) -> bool { (self.constraint@)(a) && self.reif(a) }

    #[verifier::external_body]
    pub fn with_reification(&mut self, reification_literal: Literal)
        requires old(self).reification_literal is None
        ensures final(self).reification_literal == Some(reification_literal), final(self).constraint == old(self).constraint,
                final(self).assignments.live@ == old(self).assignments.live@, *final(final(self).assignments) == *final(old(self).assignments)
    { unimplemented!() }

    #[verifier::external_body]
    pub fn is_literal_true(&self, literal: &Literal) -> (r: bool)
        ensures r == (forall|a: Asg| #[trigger] (self.live())(a) ==> literal.is_true(a)) { unimplemented!() }
    #[verifier::external_body]
    pub fn is_literal_fixed(&self, literal: &Literal) -> (r: bool)
        ensures r == ((forall|a: Asg| #[trigger] (self.live())(a) ==> literal.is_true(a)) || (forall|a: Asg| #[trigger] (self.live())(a) ==> !literal.is_true(a))) { unimplemented!() }
    #[verifier::external_body]
    pub fn as_stateful_readonly(&mut self) -> (r: StatefulPropagationContext<'_>)
        ensures r.live() == old(self).live(), final(self).assignments.live@ == old(self).assignments.live@, final(self).constraint == old(self).constraint, final(self).reification_literal == old(self).reification_literal,
          *final(final(self).assignments) == *final(old(self).assignments)
    { unimplemented!() }

    #[verifier::external_body]
    pub fn assign_literal(&mut self, boolean: &Literal, truth_value: bool, reason: PropositionalConjunction) -> (r: Result<(), EmptyDomain>)
        requires
            entails(old(self).live(), reason),
            forall|a: Asg| #![trigger conj_holds(reason, a)] old(self).effective(a) && conj_holds(reason, a) ==> (boolean.is_true(a) == truth_value),
        ensures
            final(self).constraint == old(self).constraint, final(self).reification_literal == old(self).reification_literal,
            forall|a: Asg| #[trigger] (final(self).assignments.live@)(a) <==> ((old(self).assignments.live@)(a) && boolean.is_true(a) == truth_value),
            *final(final(self).assignments) == *final(old(self).assignments),
            r is Err <==> (forall|a: Asg| !(#[trigger] (final(self).assignments.live@)(a))),
    { unimplemented!() }
}

pub trait Propagator {
    spec fn constraint(&self, a: Asg) -> bool;
    fn propagate(&mut self, context: PropagationContextMut) -> (r: PropagationStatusCP)
        requires forall|a: Asg| #[trigger] context.effective(a) ==> old(self).constraint(a)
        ensures
            forall|a: Asg| #[trigger] (final(context.assignments).live@)(a) ==> (old(context.assignments).live@)(a),
            forall|a: Asg| #![trigger (old(context.assignments).live@)(a)] (old(context.assignments).live@)(a) && context.effective(a) ==> (final(context.assignments).live@)(a),
            r matches Err(Inconsistency::Conflict(c)) ==> entails(final(context.assignments).live@, c) && forall|a: Asg| #[trigger] conj_holds(c, a) ==> !context.effective(a) || true,
            forall|a: Asg| final(self).constraint(a) == old(self).constraint(a),
    ;
    fn detect_inconsistency(&self, context: StatefulPropagationContext) -> (r: Option<PropositionalConjunction>)
        ensures r matches Some(c) ==> entails(context.live(), c) && forall|a: Asg| #[trigger] conj_holds(c, a) ==> !self.constraint(a);
}

pub(crate) struct ReifiedPropagator<WrappedPropagator> {
    propagator: WrappedPropagator,
    reification_literal: Literal,
    inconsistency: Option<PropositionalConjunction>,
    reification_literal_id: LocalId,
}
impl<Prop: Propagator> ReifiedPropagator<Prop> {
    fn propagate_reification(&self, context: &mut PropagationContextMut<'_>) -> (r: PropagationStatusCP)
    where
        Prop: Propagator,
        requires old(context).reification_literal is None,
                 forall|a: Asg| #[trigger] (old(context).constraint@)(a) ==> (self.reification_literal.is_true(a) ==> self.propagator.constraint(a)),
        ensures final(context).reification_literal is None, final(context).constraint == old(context).constraint,
                *final(final(context).assignments) == *final(old(context).assignments),
                forall|a: Asg| #[trigger] (final(context).assignments.live@)(a) ==> (old(context).assignments.live@)(a),
                forall|a: Asg| #![trigger (old(context).assignments.live@)(a)] (old(context).assignments.live@)(a) && (old(context).constraint@)(a) ==> (final(context).assignments.live@)(a),
    {
        if !context.is_literal_fixed(&self.reification_literal) {
            if let Some(conjunction) = self
                .propagator
                .detect_inconsistency(context.as_stateful_readonly())
            {
                context.assign_literal(&self.reification_literal, false, conjunction)?;
            }
        }

        Ok(())
    }
    fn propagate_(&mut self, mut context: PropagationContextMut) -> (r: PropagationStatusCP)
        requires context.reification_literal is None,
                 forall|a: Asg| #[trigger] (context.constraint@)(a) ==> (old(self).reification_literal.is_true(a) ==> old(self).propagator.constraint(a)),
                 // the cache, if any, is a valid conflict of the wrapped propagator in the current state
                 old(self).inconsistency matches Some(c) ==> entails(context.assignments.live@, c) && forall|a: Asg| #[trigger] conj_holds(c, a) ==> !old(self).propagator.constraint(a),
        ensures
            forall|a: Asg| #[trigger] (final(context.assignments).live@)(a) ==> (old(context.assignments).live@)(a),
            forall|a: Asg| #![trigger (old(context.assignments).live@)(a)] (old(context.assignments).live@)(a) && (context.constraint@)(a) ==> (final(context.assignments).live@)(a),
            final(self).inconsistency is None,
    {
        if let Some(conjunction) = self.inconsistency.take() {
            context.assign_literal(&self.reification_literal, false, conjunction)?;
        }

        self.propagate_reification(&mut context)?;

        if context.is_literal_true(&self.reification_literal) {
            context.with_reification(self.reification_literal);

            let result = self.propagator.propagate(context);

            self.map_propagation_status(result)?;
        }

        Ok(())
    }
    fn map_propagation_status(&self, mut status: PropagationStatusCP) -> (r: PropagationStatusCP)
        ensures (status is Ok) == (r is Ok)
    {
        if let Err(Inconsistency::Conflict(ref mut conflict_nogood)) = status {
            conflict_nogood.add(self.reification_literal.get_true_predicate());
        }
        status
    }
}
}
fn main(){}
