//! F7 (C19): `Not for IntAtomicConstraint` computes value -/+ 1 in i64; at i64::MIN / i64::MAX this overflows.
use drcp_format::Comparison;
use drcp_format::IntAtomicConstraint;

fn main() {
    let mut failed = false;
    for (cmp, v, what) in [
        (Comparison::GreaterThanEqual, i64::MIN, "![x >= i64::MIN]"),
        (Comparison::LessThanEqual, i64::MAX, "![x <= i64::MAX]"),
    ] {
        let r = std::panic::catch_unwind(|| {
            let a = IntAtomicConstraint { name: "x", comparison: cmp, value: v };
            let b = !!a.clone();
            b == a
        });
        match r {
            Err(_) => {
                println!("REPRODUCED: {what} panics (i64 overflow) instead of giving a negation");
                failed = true;
            }
            Ok(true) => println!("note: {what}: double negation gives the original (wrapping build)"),
            Ok(false) => {
                println!("REPRODUCED: {what}: double negation differs from the original");
                failed = true;
            }
        }
    }
    if failed {
        std::process::exit(1);
    }
}
