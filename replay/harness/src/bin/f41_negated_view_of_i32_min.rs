//! F41 (C16): an AffineView with scale -1 maps values with `self.scale * value + self.offset` in i32.  For a variable
//! whose domain contains i32::MIN the negated value 2^31 is not an i32 (assumption A-VIEWRANGE of unit views).
//! constraints::binary_not_equals(x, y) posts x + (-1)*y != 0: with x = y = i32::MIN debug builds panic (overflow in
//! AffineView::map), release builds wrap and report the model SATISFIABLE although x != y has no solution.
//! Second shape (seeding round 10, side observation): x in [0, i32::MAX], v = x.scaled(2): Solver::upper_bound(&v) panics in a debug
//! build and is -2 in a release build (a root upper bound below the lower bound 0).
//! Exit 1 = reproduced.
use pumpkin_solver::constraints;
use pumpkin_solver::constraints::Constraint;
use pumpkin_solver::results::SatisfactionResult;
use pumpkin_solver::termination::Indefinite;
use pumpkin_solver::variables::TransformableVariable;
use pumpkin_solver::Solver;

fn case(lo: i32, hi: i32, removed: i32) -> Result<String, String> {
    let r = std::panic::catch_unwind(move || {
        let mut solver = Solver::default();
        let x = solver.new_bounded_integer(lo, hi);
        // x != y with y fixed to `removed` leaves no value for x (the propagator removes the value: a hole at the bound)
        let y = solver.new_bounded_integer(removed, removed);
        if solver.add_constraint(constraints::binary_not_equals(x, y)).post().is_err() {
            return "unsatisfiable (reported when the constraint was posted)".to_string();
        }
        let mut brancher = solver.default_brancher();
        match solver.satisfy(&mut brancher, &mut Indefinite) {
            SatisfactionResult::Satisfiable(_) => "satisfiable".to_string(),
            SatisfactionResult::Unsatisfiable => "unsatisfiable".to_string(),
            SatisfactionResult::Unknown => "unknown".to_string(),
        }
    });
    match r {
        Ok(v) if v.starts_with("unsatisfiable") => Ok(v),
        Ok(v) => Err(format!("x in [{lo}, {hi}], x != {removed}: `{v}` (no value is left)")),
        Err(_) => Err(format!("x in [{lo}, {hi}], x != {removed}: panic (arithmetic overflow)")),
    }
}

fn main() {
    let mut bad = vec![];
    for (lo, hi, v) in [(i32::MAX, i32::MAX, i32::MAX), (i32::MIN, i32::MIN, i32::MIN), (5, 5, 5)] {
        match case(lo, hi, v) { Ok(s) => println!("ok: x in [{lo}, {hi}], x != {v}: {s}"), Err(e) => bad.push(e) }
    }
    let r = std::panic::catch_unwind(|| {
        let mut solver = Solver::default();
        let x = solver.new_bounded_integer(0, i32::MAX);
        let v = x.scaled(2);
        (solver.lower_bound(&v), solver.upper_bound(&v))
    });
    match r {
        Ok((lb, ub)) if lb <= ub => println!("ok: x in [0, i32::MAX], 2x in [{lb}, {ub}]"),
        Ok((lb, ub)) => bad.push(format!("x in [0, i32::MAX]: root bounds of x.scaled(2) are [{lb}, {ub}]")),
        Err(_) => bad.push("x in [0, i32::MAX]: Solver::upper_bound(&x.scaled(2)) panics (arithmetic overflow)".to_string()),
    }
    if !bad.is_empty() { println!("REPRODUCED: {}", bad.join(" | ")); std::process::exit(1); }
}
