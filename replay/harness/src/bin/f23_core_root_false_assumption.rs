//! F23 (C05; reported by two seeding sub-agents on the unchanged tree, confirmed here): extract_core when the violated assumption is
//! already false at the root.
use pumpkin_solver::predicate;
use pumpkin_solver::results::SatisfactionResultUnderAssumptions;
use pumpkin_solver::termination::Indefinite;
use pumpkin_solver::Solver;

fn main() {
    let r = std::panic::catch_unwind(|| {
        let mut solver = Solver::default();
        let x = solver.new_bounded_integer(0, 10);
        let mut brancher = solver.default_brancher();
        let result = solver.satisfy_under_assumptions(&mut brancher, &mut Indefinite, &[predicate!(x >= 20)]);
        match result {
            SatisfactionResultUnderAssumptions::UnsatisfiableUnderAssumptions(mut u) => {
                let core = u.extract_core();
                format!("core {:?}", core)
            }
            SatisfactionResultUnderAssumptions::Unsatisfiable => "unsat".to_string(),
            SatisfactionResultUnderAssumptions::Satisfiable(_) => "sat".to_string(),
            SatisfactionResultUnderAssumptions::Unknown => "unknown".to_string(),
        }
    });
    match r {
        Err(_) => {
            println!("REPRODUCED: x in [0,10]; satisfy_under_assumptions([x >= 20]); extract_core() panics");
            std::process::exit(1);
        }
        Ok(s) => println!("ok: {s}"),
    }
}
