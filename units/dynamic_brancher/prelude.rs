#![feature(allocator_api)]
use vstd::prelude::*;
//@@SPEC macros.rs@@
verus! {
#[derive(Clone, Copy, PartialEq, Eq, Structural)]
pub struct DomainId { pub id: u32 }
#[derive(Clone, Copy, PartialEq, Eq, Structural)]
pub struct Predicate { pub code: u64 }
pub struct Assignments { pub state: Ghost<int> }
#[derive(Clone, Copy)]
pub struct SolutionReference<'a> { pub assignments: &'a Assignments }
pub struct SelectionContext<'a> { pub assignments: &'a Assignments, pub random: Ghost<int> }
pub uninterp spec fn undecided(state: int, p: Predicate) -> bool;
#[derive(Clone, Copy, PartialEq, Eq, Structural)]
//@@EXTRACT s_event@@

pub trait Brancher {
    // the variables a None answer vouches for are fixed in the given solver state: for a selector all its variables,
    // for a sequential composition the variables of the branchers from its current index on
    spec fn covers(&self, state: int) -> bool;
    // the representation invariant of the implementor
    spec fn inv(&self) -> bool;
    // a None answer vouches for ALL variables of the brancher again (nothing is skipped)
    spec fn rewound(&self) -> bool;

    fn next_decision(&mut self, context: &mut SelectionContext) -> (r: Option<Predicate>)
        requires old(self).inv(),
        ensures final(self).inv(),
            final(context).assignments == old(context).assignments,
            // @C18 a proposal is undecided; nothing is proposed only when the variables vouched for are fixed
            r matches Some(p) ==> undecided(old(context).assignments.state@, p),
            r is None ==> old(self).covers(old(context).assignments.state@) && final(self).covers(old(context).assignments.state@);
    fn on_conflict(&mut self)
        requires old(self).inv(), ensures final(self).inv(), final(self).rewound();   // @C18 events that unfix variables rewind the brancher
    fn on_backtrack(&mut self)
        requires old(self).inv(), ensures final(self).inv(), final(self).rewound();   // @C18 events that unfix variables rewind the brancher
    fn on_solution(&mut self, solution: SolutionReference)
        requires old(self).inv(), ensures final(self).inv(), final(self).rewound();   // @C18 events that unfix variables rewind the brancher
    fn on_unassign_integer(&mut self, variable: DomainId, value: i32)
        requires old(self).inv(), ensures final(self).inv();
}
// enum_map::EnumMap by the documented map semantics
pub struct EnumMap<K, V> { pub m: Ghost<Map<K, V>>, pub x: Option<(K, V)> }
impl<K, V> EnumMap<K, V> {
    pub open spec fn at(&self, k: K) -> V { self.m@[k] }
}
impl<K, V> vstd::std_specs::core::IndexSpecImpl<K> for EnumMap<K, V> {
    open spec fn index_req(&self, index: &K) -> bool { true }
}
impl<K, V> std::ops::Index<K> for EnumMap<K, V> {
    type Output = V;
    #[verifier::external_body]
    fn index(&self, k: K) -> (r: &V) ensures *r == self.at(k) { unimplemented!() }
}

//@@EXTRACT s_dyn@@

impl DynamicBrancher {
    // the index vectors only name existing branchers
    pub open spec fn wf(&self) -> bool {
        &&& forall|i: int| #![trigger self.branchers@[i]] 0 <= i < self.branchers@.len() ==> self.branchers@[i].inv()
        &&& forall|e: BrancherEvent, i: int| #![trigger self.relevant_event_to_index.at(e)@[i]] 0 <= i < self.relevant_event_to_index.at(e)@.len() ==> self.relevant_event_to_index.at(e)@[i] < self.branchers@.len()
    }
    // @C18 every brancher from index `from` on vouches for its variables
    pub open spec fn all_cover(&self, from: int, state: int) -> bool {
        forall|i: int| #![trigger self.branchers@[i]] from <= i < self.branchers@.len() ==> self.branchers@[i].covers(state)
    }
    // the handlers leave the composition as it is: same number of branchers, same subscriptions
    pub open spec fn same_shape(&self, before: &Self) -> bool {
        &&& self.branchers@.len() == before.branchers@.len()
        &&& self.relevant_event_to_index == before.relevant_event_to_index && self.relevant_events == before.relevant_events
    }
}
impl Brancher for DynamicBrancher {
    open spec fn covers(&self, state: int) -> bool { self.all_cover(self.brancher_index as int, state) }
    open spec fn inv(&self) -> bool { self.wf() }
    open spec fn rewound(&self) -> bool { self.brancher_index == 0 }
//@@IFMISSING dynb::on_conflict@@ fn on_conflict(&mut self) {}
//@@IFMISSING dynb::on_backtrack@@ fn on_backtrack(&mut self) {}
//@@IFMISSING dynb::on_solution@@ fn on_solution(&mut self, solution: SolutionReference) {}
//@@IFMISSING dynb::on_unassign_integer@@ fn on_unassign_integer(&mut self, variable: DomainId, value: i32) {}
//@@EXTRACT dynb0@@
//@@EXTRACT dynb@@
}
} // verus!
fn main() {}
