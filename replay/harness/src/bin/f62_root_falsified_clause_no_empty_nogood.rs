//! F62 (C06): add_clause with a clause whose literals are all false at the root calls finalize_proof (inferences for the
//! root facts) but writes no empty nogood; the following satisfy() concludes the proof: `c UNSAT` is not preceded by
//! the empty nogood.  Exit 1 = reproduced.
use std::num::NonZero;
use pumpkin_solver::constraints;
use pumpkin_solver::options::SolverOptions;
use pumpkin_solver::predicate;
use pumpkin_solver::proof::ProofLog;
use pumpkin_solver::results::SatisfactionResult;
use pumpkin_solver::termination::Indefinite;
use pumpkin_solver::variables::TransformableVariable;
use pumpkin_solver::Solver;

fn main() {
    let path = std::env::temp_dir().join("pv_f62.drcp");
    let _ = std::fs::remove_file(&path);
    {
        let mut s = Solver::with_options(SolverOptions { proof_log: ProofLog::cp(&path, drcp_format::Format::Text, true, false).unwrap(), ..Default::default() });
        let x = s.new_named_bounded_integer(0, 10, "x");
        s.add_constraint(constraints::less_than_or_equals([x.scaled(-1)], -5)).with_tag(NonZero::new(1).unwrap()).post().unwrap();
        let r = s.add_clause([predicate![x <= 3]]);
        let mut b = s.default_brancher();
        let result = s.satisfy(&mut b, &mut Indefinite);
        println!("x in 0..10, x >= 5 (tag 1), add_clause([x <= 3]) = {:?}; satisfy() = {}", r.is_ok(), if matches!(result, SatisfactionResult::Unsatisfiable) { "Unsatisfiable" } else { "other" });
    }
    let proof = std::fs::read_to_string(&path).unwrap_or_default();
    let lines: Vec<&str> = proof.lines().collect();
    let k = lines.iter().rposition(|l| l.trim() == "c UNSAT");
    println!("proof:\n{proof}");
    match k {
        Some(k) if k > 0 => {
            // a nogood step is `n <id> <literals..>`; the empty nogood has no literal (possibly followed by hints `0 ...`)
            let prev = lines[k - 1];
            let toks: Vec<&str> = prev.split_whitespace().collect();
            let empty = toks.first() == Some(&"n") && (toks.len() == 2 || toks.get(2) == Some(&"0"));
            if empty { println!("ok: `c UNSAT` is preceded by the empty nogood `{prev}`"); }
            else { println!("REPRODUCED: `c UNSAT` is preceded by `{prev}`, not by the empty nogood"); std::process::exit(1); }
        }
        _ => { println!("REPRODUCED: no `c UNSAT` conclusion with a preceding step"); std::process::exit(1); }
    }
}
