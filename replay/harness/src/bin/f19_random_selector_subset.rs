//! F19 (C18): SparseSet::new assumed that the i-th input element is mapped to index i.  RandomSelector::new is public
//! and takes any collection of variables; for a subset (or another order) of the variables the index table is wrong
//! from the start.  Exit 1 = reproduced.
use pumpkin_solver::branching::branchers::independent_variable_value_brancher::IndependentVariableValueBrancher;
use pumpkin_solver::branching::value_selection::InDomainMin;
use pumpkin_solver::branching::variable_selection::RandomSelector;
use pumpkin_solver::results::ProblemSolution;
use pumpkin_solver::results::SatisfactionResult;
use pumpkin_solver::termination::Indefinite;
use pumpkin_solver::Solver;

fn main() {
    let r = std::panic::catch_unwind(|| {
        let mut solver = Solver::default();
        let _x = solver.new_bounded_integer(0, 1);
        let _y = solver.new_bounded_integer(0, 1);
        let z = solver.new_bounded_integer(0, 1);
        let w = solver.new_bounded_integer(0, 1);
        // the selector is responsible for z and w only, given in the order (w, z)
        let mut brancher = IndependentVariableValueBrancher::new(RandomSelector::new(vec![w, z]), InDomainMin);
        match solver.satisfy(&mut brancher, &mut Indefinite) {
            SatisfactionResult::Satisfiable(s) => {
                // the brancher must have fixed its own variables
                Some((s.get_integer_value(z), s.get_integer_value(w)))
            }
            _ => None,
        }
    });
    match r {
        Err(_) => {
            println!("REPRODUCED: RandomSelector::new([w, z]) over a solver with variables x, y, z, w: satisfy() panics (index table of the sparse set assumes input order = mapping order)");
            std::process::exit(1);
        }
        Ok(Some(v)) => println!("ok: satisfiable, z, w = {v:?}"),
        Ok(None) => {
            println!("REPRODUCED: unconstrained model over four 0-1 variables reported as not satisfiable");
            std::process::exit(1);
        }
    }
}
