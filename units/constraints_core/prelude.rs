use vstd::prelude::*;
use std::num::NonZero;
verus! {
//@@SPEC vocab.rs@@

#[derive(Clone, Copy)]
pub enum ConstraintOperationError { InfeasibleClause, InfeasibleNogood, InfeasiblePropagator, InfeasibleState }

#[derive(Clone, Copy)]
pub struct Literal { pub id: u32, pub negated: bool }
pub uninterp spec fn lit_true(l: Literal, a: Asg) -> bool;
// `impl Not for Literal`: 1 - x
impl vstd::std_specs::ops::NotSpecImpl for Literal {
    open spec fn obeys_not_spec() -> bool { true }
    open spec fn not_req(self) -> bool { true }
    open spec fn not_spec(self) -> Literal { Literal { id: self.id, negated: !self.negated } }
}
impl std::ops::Not for Literal {
    type Output = Literal;
    #[verifier::external_body]
    fn not(self) -> (r: Literal) { unimplemented!() }
}
#[verifier::external_body]
pub proof fn axiom_literal_not(l: Literal, a: Asg)
    ensures lit_true(Literal { id: l.id, negated: !l.negated }, a) == !lit_true(l, a)
{ }

pub trait Propagator {
    spec fn constraint(&self, a: Asg) -> bool;
}
pub struct ReifiedPropagator<P> { pub propagator: P, pub reification_literal: Literal }
impl<P: Propagator> Propagator for ReifiedPropagator<P> {
    // what the wrapper enforces (proved in unit `reified`)
    open spec fn constraint(&self, a: Asg) -> bool { lit_true(self.reification_literal, a) ==> self.propagator.constraint(a) }
}
impl<P: Propagator> ReifiedPropagator<P> {
    pub fn new(propagator: P, reification_literal: Literal) -> (r: Self)
        ensures r.propagator == propagator, r.reification_literal == reification_literal
    { ReifiedPropagator { propagator, reification_literal } }
}

pub struct Solver { pub model: Ghost<Model> }
impl Solver {
    pub open spec fn unsat(&self) -> bool { forall|a: Asg| !(#[trigger] (self.model@)(a)) }
    #[verifier::external_body]
    pub fn add_propagator<P: Propagator>(&mut self, propagator: P) -> (r: Result<(), ConstraintOperationError>)
        ensures forall|a: Asg| #![trigger (final(self).model@)(a)] #![trigger (old(self).model@)(a)] (final(self).model@)(a) <==> ((old(self).model@)(a) && propagator.constraint(a)),
                r is Err ==> final(self).unsat(),
    { unimplemented!() }
    #[verifier::external_body]
    pub fn add_tagged_propagator<P: Propagator>(&mut self, propagator: P, tag: NonZero<u32>) -> (r: Result<(), ConstraintOperationError>)
        ensures forall|a: Asg| #![trigger (final(self).model@)(a)] #![trigger (old(self).model@)(a)] (final(self).model@)(a) <==> ((old(self).model@)(a) && propagator.constraint(a)),
                r is Err ==> final(self).unsat(),
    { unimplemented!() }
}

// the documented meaning of posting / half-reifying a constraint (property statement C09)
pub trait Constraint: Sized {
    spec fn meaning(&self, a: Asg) -> bool;

    fn post(self, solver: &mut Solver, tag: Option<NonZero<u32>>) -> (r: Result<(), ConstraintOperationError>)
        ensures
            // @C09 @C01 @C02 exactly the constraint is added
            forall|a: Asg| #![trigger (final(solver).model@)(a)] #![trigger (old(solver).model@)(a)] (final(solver).model@)(a) <==> ((old(solver).model@)(a) && self.meaning(a)),
            r is Err ==> final(solver).unsat();      // @C02

    fn implied_by(self, solver: &mut Solver, reification_literal: Literal, tag: Option<NonZero<u32>>) -> (r: Result<(), ConstraintOperationError>)
        ensures
            // @C09 c implied_by r admits exactly the assignments with (r false or c holds) — with or without a tag
            forall|a: Asg| #![trigger (final(solver).model@)(a)] #![trigger (old(solver).model@)(a)] (final(solver).model@)(a) <==> ((old(solver).model@)(a) && (lit_true(reification_literal, a) ==> self.meaning(a))),
            r is Err ==> final(solver).unsat();      // @C02
}

//@@EXTRACT blanket@@

pub trait NegatableConstraint: Constraint {
    type NegatedConstraint: Constraint + 'static;

//@@EXTRACT negatable@@
}
} // verus!
fn main() {}
