#![feature(allocator_api)]
use vstd::prelude::*;
use std::num::NonZero;
use std::num::NonZeroU64;
//@@SPEC macros.rs@@
verus! {
#[derive(Clone, Copy, PartialEq, Eq, Structural)]
pub struct Predicate { pub code: u64, pub negated: bool }
impl vstd::std_specs::ops::NotSpecImpl for Predicate {
    open spec fn obeys_not_spec() -> bool { true }
    open spec fn not_req(self) -> bool { true }
    open spec fn not_spec(self) -> Predicate { Predicate { code: self.code, negated: !self.negated } }
}
impl std::ops::Not for Predicate {
    type Output = Predicate;
    fn not(self) -> (r: Predicate) { Predicate { code: self.code, negated: !self.negated } }
}
#[derive(Clone, Copy)]
pub struct ReasonRef(pub u32);
#[derive(Clone, Copy)]
pub struct ConstraintProgrammingTrailEntry { pub predicate: Predicate, pub reason: Option<ReasonRef> }
pub struct Assignments { pub trail: Vec<ConstraintProgrammingTrailEntry> }
impl Assignments {
    pub fn num_trail_entries(&self) -> (r: usize) ensures r == self.trail@.len() { self.trail.len() }
    pub fn get_trail_entry(&self, index: usize) -> (r: ConstraintProgrammingTrailEntry)
        requires index < self.trail@.len() ensures r == self.trail@[index as int] { self.trail[index] }
    #[verifier::external_body]
    pub fn is_predicate_satisfied(&self, p: Predicate) -> (r: bool) ensures r { unimplemented!() }   // A-ROOT: premises of a root propagation hold at the root
}
pub struct CurrentNogood { pub x: u8 }
impl CurrentNogood { #[verifier::external_body] pub fn empty() -> Self { unimplemented!() } }
pub struct ExplanationContext<'a> { pub assignments: &'a Assignments }
impl<'a> ExplanationContext<'a> {
    #[verifier::external_body] pub fn new(assignments: &'a Assignments, current_nogood: CurrentNogood) -> Self { unimplemented!() }
}
pub struct PropagatorStore { pub x: u8 }
// the explanation a reason reference stands for (at the root)
pub uninterp spec fn reason_of(r: ReasonRef) -> Seq<Predicate>;
pub struct ReasonStore { pub x: u8 }
impl ReasonStore {
    #[verifier::external_body]
    pub fn get_or_compute(&self, reference: ReasonRef, context: ExplanationContext<'_>, propagators: &mut PropagatorStore, destination_buffer: &mut Vec<Predicate>) -> (r: bool)
        ensures final(destination_buffer)@ == old(destination_buffer)@ + reason_of(reference),
    { unimplemented!() }
}
// ---- the proof as a sequence of steps (ghost) ----
pub enum Step {
    Inference { tag: Option<NonZero<u32>>, premises: Seq<Predicate> },
    Nogood(Seq<Predicate>),
}
pub type StepId = NonZeroU64;
pub struct VariableNames { pub x: u8 }
pub struct ProofLog { pub steps: Ghost<Seq<Step>>, pub inferences: bool }
pub trait Preds { spec fn preds(&self) -> Seq<Predicate>; }
impl<const N: usize> Preds for [Predicate; N] { open spec fn preds(&self) -> Seq<Predicate> { self@ } }
pub struct PvChain { pub items: Ghost<Seq<Predicate>> }
impl Preds for PvChain { open spec fn preds(&self) -> Seq<Predicate> { self.items@ } }
#[verifier::external_body]
pub fn pv_chain_once(xs: &Vec<Predicate>, last: Predicate) -> (r: PvChain) ensures r.items@ == xs@.push(last) { unimplemented!() }
impl ProofLog {
    pub fn is_logging_inferences(&self) -> (r: bool) ensures r == self.inferences { self.inferences }
    #[verifier::external_body]
    pub fn log_inference<I: Preds>(&mut self, constraint_tag: Option<NonZero<u32>>, premises: I, propagated: Option<Predicate>) -> (r: Result<NonZeroU64, ()>)
        ensures final(self).inferences == old(self).inferences,
                old(self).inferences ==> final(self).steps@ == old(self).steps@.push(Step::Inference { tag: constraint_tag, premises: premises.preds() }),
    { unimplemented!() }
    #[verifier::external_body]
    pub fn log_learned_clause<I: Preds>(&mut self, literals: I, variable_names: &VariableNames) -> (r: Result<NonZeroU64, ()>)
        ensures final(self).inferences == old(self).inferences,
                old(self).inferences ==> final(self).steps@ == old(self).steps@.push(Step::Nogood(literals.preds())),
    { unimplemented!() }
}
pub struct InternalParameters { pub proof_log: ProofLog }
pub struct HashMap<K, V> { pub m: Ghost<Map<K, V>> }
impl<K, V> HashMap<K, V> {
    #[verifier::external_body]
    pub fn insert(&mut self, k: K, v: V) -> (r: Option<V>) { unimplemented!() }
}
// the work list of premises that still have to be explained
pub struct VecDeque<T> { pub items: Ghost<Seq<T>> }
impl<T> VecDeque<T> {
    #[verifier::external_body]
    pub fn pop_front(&mut self) -> (r: Option<T>)
        ensures r is Some ==> final(self).items@.len() < old(self).items@.len(), r is None ==> old(self).items@.len() == 0,
    { unimplemented!() }
}
#[verifier::external_body]
pub fn pv_collect_copied(xs: &Vec<Predicate>) -> (r: VecDeque<Predicate>) ensures r.items@ == xs@ { unimplemented!() }
pub struct RootExplanationContext<'a> {
    pub propagators: &'a mut PropagatorStore,
    pub proof_log: &'a mut ProofLog,
    pub unit_nogood_step_ids: &'a HashMap<Predicate, StepId>,
    pub assignments: &'a Assignments,
    pub reason_store: &'a mut ReasonStore,
}
pub proof fn lemma_justified_mono(s1: Seq<Step>, s2: Seq<Step>, from: int, tag: Option<NonZero<u32>>, reason: Seq<Predicate>, p: Predicate)
    requires extends(s2, s1), justified(s1, from, tag, reason, p), from >= 0 ensures justified(s2, from, tag, reason, p)
{
    let j = choose|j: int| #![trigger s1[j]] from <= j < s1.len() && is_inf(s1[j], tag, reason, p) && nogood_after(s1, j, p);
    let k = choose|k: int| #![trigger s1[k]] j < k < s1.len() && s1[k] == Step::Nogood(seq![p]);
    assert(s2[j] == s1[j]);
    assert(s2[k] == s1[k]);
    assert(nogood_after(s2, j, p));
}
pub proof fn lemma_extends_trans(s3: Seq<Step>, s2: Seq<Step>, s1: Seq<Step>)
    requires extends(s3, s2), extends(s2, s1) ensures extends(s3, s1)
{
    assert forall|i: int| #![trigger s1[i]] 0 <= i < s1.len() implies s3[i] == s1[i] by { assert(s2[i] == s1[i]); assert(s3[i] == s2[i]); }
}
pub open spec fn extends(s2: Seq<Step>, s1: Seq<Step>) -> bool { s1.len() <= s2.len() && forall|i: int| #![trigger s1[i]] 0 <= i < s1.len() ==> s2[i] == s1[i] }
#[verifier::external_body]
pub fn explain_root_assignment(context: &mut RootExplanationContext<'_>, predicate: Predicate)
    ensures extends(final(context).proof_log.steps@, old(context).proof_log.steps@),
            final(context).proof_log.inferences == old(context).proof_log.inferences,
            *final(final(context).proof_log) == *final(old(context).proof_log),
            *final(final(context).propagators) == *final(old(context).propagators),
            *final(final(context).reason_store) == *final(old(context).reason_store),
{ unimplemented!() }

pub struct ConstraintSatisfactionSolver {
    pub assignments: Assignments,
    pub reason_store: ReasonStore,
    pub propagators: PropagatorStore,
    pub internal_parameters: InternalParameters,
    pub unit_nogood_step_ids: HashMap<Predicate, StepId>,
    pub variable_names: VariableNames,
    pub level: usize,
}
// @C06 the unit nogood `p` is in the proof behind its inference `reason /\ ~p -> false` with the given tag
pub open spec fn is_inf(st: Step, tag: Option<NonZero<u32>>, reason: Seq<Predicate>, p: Predicate) -> bool {
    st == (Step::Inference { tag, premises: reason.push(Predicate { code: p.code, negated: !p.negated }) })
}
pub open spec fn nogood_after(steps: Seq<Step>, j: int, p: Predicate) -> bool {
    exists|k: int| #![trigger steps[k]] j < k < steps.len() && steps[k] == Step::Nogood(seq![p])
}
pub open spec fn justified(steps: Seq<Step>, from: int, tag: Option<NonZero<u32>>, reason: Seq<Predicate>, p: Predicate) -> bool {
    exists|j: int| #![trigger steps[j]] from <= j < steps.len() && is_inf(steps[j], tag, reason, p) && nogood_after(steps, j, p)
}
impl ConstraintSatisfactionSolver {
    #[verifier::external_body]
    pub fn get_decision_level(&self) -> (r: usize) ensures r == self.level { unimplemented!() }
//@@EXTRACT rootlog@@
}
} // verus!
fn main() {}
