use vstd::prelude::*;
use vstd::std_specs::iter::IteratorSpec;
verus! {
pub enum DimacsParseError { UnexpectedCharacter(char), MissingHeader, Other }

pub open spec fn is_ws(b: u8) -> bool { b == 0x20 || b == 0x09 || b == 0x0A || b == 0x0C || b == 0x0D }
pub assume_specification [u8::is_ascii_whitespace] (b: &u8) -> (r: bool)
    ensures r == is_ws(*b);

// text buffer: only its length matters here
pub struct StrBuf { pub len: Ghost<nat> }
impl StrBuf {
    #[verifier::external_body] pub fn clear(&mut self) ensures final(self).len@ == 0 { unimplemented!() }
    #[verifier::external_body] pub fn push(&mut self, c: char) ensures final(self).len@ == old(self).len@ + 1 { unimplemented!() }
}

pub enum ParseState {
    StartLine,
    Header,
    Comment,
    Literal,
    NegativeLiteral,
    Clause,
}
pub struct DimacsParser {
    pub buffer: StrBuf,
    pub state: ParseState,
    pub pending_literals: Ghost<nat>,     // literals of the clause being read
    pub parsed_clauses: usize,
}

impl DimacsParser {
    // ---- assumed by state effect ----
    #[verifier::external_body]
    pub fn finish_literal(&mut self) -> (r: Result<(), DimacsParseError>)
        requires old(self).state is Literal
        ensures r is Ok ==> final(self).state is Clause && final(self).pending_literals@ == old(self).pending_literals@ + 1,
    { unimplemented!() }
    #[verifier::external_body]
    pub fn finish_clause(&mut self) -> (r: Result<(), DimacsParseError>)
        ensures r is Ok ==> final(self).state == old(self).state && final(self).pending_literals@ == 0,
    { unimplemented!() }
    #[verifier::external_body]
    pub fn init_formula(&mut self) -> (r: Result<(), DimacsParseError>)
        ensures r is Ok ==> final(self).state == old(self).state && final(self).pending_literals == old(self).pending_literals,
    { unimplemented!() }

    // format-level line structure: a line begins in StartLine (comments, the header and clause tokens are
    // recognised there); Header and Comment lines run to the next new-line
    pub open spec fn line_start_ok(&self, last_byte: Option<u8>) -> bool {
        last_byte == Some(0x0Au8) ==> self.state is StartLine
    }

//@@EXTRACT parser@@
}
} // verus!
fn main() {}
