#![feature(allocator_api)]
use vstd::prelude::*;
use vstd::std_specs::iter::IteratorSpec;
//@@SPEC macros.rs@@
verus! {
//@@SPEC vocab.rs@@
//@@SPEC std_option_extra.rs@@
pub type Tag = Option<std::num::NonZero<u32>>;
// the constraint a tag stands for
pub uninterp spec fn tag_model(t: Tag) -> Model;
#[derive(Clone, Copy)]
pub struct PropagatorId { pub v: u32 }
pub struct ConstraintOperationError;
pub enum StoredConflictInfo {
    Propagator { conflict_nogood: PropositionalConjunction, propagator_id: PropagatorId },
    EmptyDomain { conflict_nogood: PropositionalConjunction },
    RootLevelConflict(ConstraintOperationError),
}
impl PropositionalConjunction {
    pub fn iter(&self) -> (r: std::slice::Iter<'_, Predicate>)
        ensures r.remaining() == self.predicates_in_conjunction@.map_values(|x: Predicate| &x), r.obeys_prophetic_iter_laws(), r.decrease() is Some
    { self.predicates_in_conjunction.iter() }
}
// D20: the elements of a conjunction in order
pub struct PvCopied { pub items: Ghost<Seq<Predicate>> }
pub trait PvItems { spec fn pv_items(&self) -> Seq<Predicate>; }
impl PvItems for PropositionalConjunction { open spec fn pv_items(&self) -> Seq<Predicate> { self.predicates_in_conjunction@ } }
impl PvItems for Vec<Predicate> { open spec fn pv_items(&self) -> Seq<Predicate> { self@ } }
#[verifier::external_body]
pub fn pv_iter_copied<C: PvItems>(c: &C) -> (r: PvCopied) ensures r.items@ == c.pv_items() { unimplemented!() }

pub struct CSPSolverState { pub info: Ghost<StoredConflictInfo> }
impl CSPSolverState {
    #[verifier::external_body]
    pub fn get_conflict_info(&self) -> (r: StoredConflictInfo) ensures r == self.info@ { unimplemented!() }
}
pub struct PropagatorStore { pub tags: Ghost<Map<int, Tag>> }
impl PropagatorStore {
    #[verifier::external_body]
    pub fn get_tag(&self, id: PropagatorId) -> (r: Tag) ensures r == self.tags@[id.v as int] { unimplemented!() }
}
pub struct ProofLog { pub log: Ghost<Seq<(Tag, Seq<Predicate>, Option<Predicate>)>> }
impl ProofLog {
    #[verifier::external_body]
    pub fn log_inference(&mut self, constraint_tag: Tag, premises: PvCopied, propagated: Option<Predicate>) -> (r: Result<std::num::NonZero<u64>, ()>)
        ensures final(self).log@ == old(self).log@.push((constraint_tag, premises.items@, propagated))
    { unimplemented!() }
}
// truth and decision level of a predicate in the current state: functions of the store identity
pub uninterp spec fn level_of(state: int, p: Predicate) -> Option<usize>;
impl Assignments {
    #[verifier::external_body]
    pub fn get_decision_level_for_predicate(&self, predicate: &Predicate) -> (r: Option<usize>) ensures r == level_of(self.state@, *predicate) { unimplemented!() }
}
pub struct ConflictAnalysisContext<'a> {
    pub assignments: &'a mut Assignments,
    pub solver_state: &'a mut CSPSolverState,
    pub propagators: &'a mut PropagatorStore,
    pub proof_log: &'a mut ProofLog,
    // ghost: everything posted so far
    pub model: Ghost<Model>,
}
// a logged conflict inference `premises -> false` follows from the constraint of its tag
pub open spec fn inference_ok(e: (Tag, Seq<Predicate>, Option<Predicate>)) -> bool {
    e.2 is None ==> forall|a: Asg| #![trigger (tag_model(e.0))(a)] (tag_model(e.0))(a) ==> !seq_holds(e.1, a)
}
// loop invariant of the filter loops: what has been kept is above the root, what has been dropped follows from the model
pub open spec fn kept_ok(state: int, model: Model, e: Seq<Predicate>, n: int, kept: Seq<Predicate>) -> bool {
    &&& forall|j: int| #![trigger kept[j]] 0 <= j < kept.len() ==> (level_of(state, kept[j]) matches Some(l) && l > 0)
    &&& forall|a: Asg| #![trigger model(a)] model(a) && seq_holds(kept, a) ==> (forall|i: int| #![trigger e[i]] 0 <= i < n ==> pred_holds(e[i], a))
}
impl ConflictAnalysisContext<'_> {
    // A-EXPL and the assumptions on levels
    pub open spec fn ready(&self) -> bool {
        let state = self.assignments.state@;
        let model = self.model@;
        &&& (self.solver_state.info@ matches StoredConflictInfo::Propagator { conflict_nogood, propagator_id } ==> {
                let tag = self.propagators.tags@[propagator_id.v as int];
                &&& forall|a: Asg| #![trigger (tag_model(tag))(a)] (tag_model(tag))(a) ==> !conj_holds(conflict_nogood, a)
                &&& forall|a: Asg| #![trigger model(a)] model(a) ==> (tag_model(tag))(a)
                &&& forall|i: int| #![trigger conflict_nogood.predicates_in_conjunction@[i]] 0 <= i < conflict_nogood.predicates_in_conjunction@.len() ==> level_of(state, conflict_nogood.predicates_in_conjunction@[i]) is Some
            })
        &&& (self.solver_state.info@ matches StoredConflictInfo::EmptyDomain { conflict_nogood } ==> {
                &&& forall|a: Asg| #![trigger model(a)] model(a) ==> !conj_holds(conflict_nogood, a)
                &&& forall|i: int| #![trigger conflict_nogood.predicates_in_conjunction@[i]] 0 <= i < conflict_nogood.predicates_in_conjunction@.len() ==> level_of(state, conflict_nogood.predicates_in_conjunction@[i]) is Some
            })
        &&& !(self.solver_state.info@ is RootLevelConflict)
        // root-level facts follow from the model
        &&& forall|p: Predicate, a: Asg| #![trigger level_of(state, p), pred_holds(p, a)] level_of(state, p) == Some(0usize) && model(a) ==> pred_holds(p, a)
    }
//@@EXTRACT cac@@
}
} // verus!
fn main() {}
