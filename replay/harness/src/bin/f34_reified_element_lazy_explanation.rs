//! F34 (C17/C09): ReifiedPropagator stores a lazy reason of the wrapped propagator as StoredReason::ReifiedLazy and
//! is itself the registered propagator, but it does not forward Propagator::lazy_explanation: the trait's default
//! panics.  A half-reified element constraint (element explains its right-hand-side bounds lazily) therefore panics
//! as soon as conflict analysis asks for such a reason.  Exit 1 = reproduced.
use pumpkin_solver::constraints;
use pumpkin_solver::constraints::Constraint;
use pumpkin_solver::predicate;
use pumpkin_solver::results::SatisfactionResult;
use pumpkin_solver::results::ProblemSolution;
use pumpkin_solver::branching::branchers::independent_variable_value_brancher::IndependentVariableValueBrancher;
use pumpkin_solver::branching::value_selection::InDomainMax;
use pumpkin_solver::branching::variable_selection::InputOrder;
use pumpkin_solver::termination::Indefinite;
use pumpkin_solver::Solver;

fn main() {
    let r = std::panic::catch_unwind(|| {
        let mut solver = Solver::default();
        let lv = solver.new_bounded_integer(0, 1);
        let a = solver.new_bounded_integer(5, 10);
        let b = solver.new_bounded_integer(5, 10);
        let index = solver.new_bounded_integer(0, 1);
        let rhs = solver.new_bounded_integer(0, 20);
        let l = solver.new_literal_for_predicate(predicate!(lv >= 1));
        // l -> [a, b][index] == rhs      (so l -> rhs >= 5, explained lazily by the element propagator)
        solver.add_constraint(constraints::element(index, vec![a, b], rhs)).implied_by(l).expect("no root conflict");
        // l -> rhs <= 3: deciding l leads to a conflict that involves the lazily explained bound [rhs >= 5]
        solver.add_clause([predicate!(lv <= 0), predicate!(rhs <= 3)]).expect("no root conflict");
        // first decision: lv = 1
        let mut brancher = IndependentVariableValueBrancher::new(InputOrder::new(&[lv, a, b, index, rhs]), InDomainMax);
        match solver.satisfy(&mut brancher, &mut Indefinite) {
            SatisfactionResult::Satisfiable(s) => format!("satisfiable, lv = {}", s.get_integer_value(lv)),
            SatisfactionResult::Unsatisfiable => "unsatisfiable".to_string(),
            SatisfactionResult::Unknown => "unknown".to_string(),
        }
    });
    let what = "l -> element(index, [a, b], rhs) with a, b in [5,10]; l -> rhs <= 3; first decision l";
    match r {
        Ok(v) if v == "satisfiable, lv = 0" => println!("ok: {what}: {v}"),
        Ok(v) => { println!("REPRODUCED: {what}: wrong verdict `{v}`"); std::process::exit(1); }
        Err(_) => { println!("REPRODUCED: {what}: panic (ReifiedPropagator does not forward lazy_explanation)"); std::process::exit(1); }
    }
}
