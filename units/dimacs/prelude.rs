use vstd::prelude::*;
use vstd::std_specs::iter::IteratorSpec;
verus! {
pub enum DimacsParseError { UnexpectedCharacter(char), MissingHeader, UnterminatedClause, IncorrectClauseCount { expected: usize, parsed: usize }, Other }

pub open spec fn is_ws(b: u8) -> bool { b == 0x20 || b == 0x09 || b == 0x0A || b == 0x0C || b == 0x0D }
pub assume_specification [u8::is_ascii_whitespace] (b: &u8) -> (r: bool)
    ensures r == is_ws(*b);

// text buffer: only its length matters here
pub struct StrBuf { pub len: Ghost<nat> }
impl StrBuf {
    #[verifier::external_body] pub fn clear(&mut self) ensures final(self).len@ == 0 { unimplemented!() }
    #[verifier::external_body] pub fn push(&mut self, c: char) ensures final(self).len@ == old(self).len@ + 1 { unimplemented!() }
}

pub enum ParseState {
    StartLine,
    Header,
    Comment,
    Literal,
    NegativeLiteral,
    Clause,
}
pub struct Sink { pub x: u8 }
#[derive(Clone, Copy)]
pub struct Header { pub n_clauses: usize }
impl Header {
    #[verifier::external_body]
    pub fn num_clauses(&self) -> (r: usize) ensures r == self.n_clauses { unimplemented!() }
}
pub struct DimacsParser {
    pub sink: Option<Sink>,
    pub header: Option<Header>,
    pub clause: Vec<i32>,
    pub buffer: StrBuf,
    pub state: ParseState,
    pub pending_literals: Ghost<nat>,     // literals of the clause being read
    pub parsed_clauses: usize,
}

impl DimacsParser {
    // ---- assumed by state effect ----
    #[verifier::external_body]
    pub fn finish_literal(&mut self) -> (r: Result<(), DimacsParseError>)
        requires old(self).state is Literal
        ensures r is Ok ==> final(self).state is Clause && final(self).pending_literals@ == old(self).pending_literals@ + 1,
    { unimplemented!() }
    #[verifier::external_body]
    pub fn finish_clause(&mut self) -> (r: Result<(), DimacsParseError>)
        ensures r is Ok ==> final(self).state == old(self).state && final(self).pending_literals@ == 0,
    { unimplemented!() }
    #[verifier::external_body]
    pub fn init_formula(&mut self) -> (r: Result<(), DimacsParseError>)
        ensures r is Ok ==> final(self).state == old(self).state && final(self).pending_literals == old(self).pending_literals
                    && final(self).sink is Some && final(self).header is Some && final(self).clause == old(self).clause && final(self).parsed_clauses == old(self).parsed_clauses,
                // a header line that cannot be read is reported as such (invalid / duplicate header), never as a missing header
                r matches Err(e) ==> !(e is MissingHeader),
    { unimplemented!() }
    // the sink is created together with the header
    pub open spec fn wf(&self) -> bool { self.sink is Some <==> self.header is Some }

    // format-level line structure: a line begins in StartLine (comments, the header and clause tokens are
    // recognised there); Header and Comment lines run to the next new-line
    pub open spec fn line_start_ok(&self, last_byte: Option<u8>) -> bool {
        last_byte == Some(0x0Au8) ==> self.state is StartLine
    }

//@@EXTRACT parser@@
}
} // verus!
fn main() {}
