use vstd::prelude::*;
verus! {
pub type Asg = Map<int,int>;
pub struct ReasonRef(pub u32);
pub struct EmptyDomain;
// abstract store: for each domain id the set of values; ghost only
pub struct Assignments { pub doms: Ghost<Map<int, ISet<int>>> }

pub trait NumExt: Sized {
    spec fn as_int(self) -> int;
    fn div_ceil(self, other: Self) -> (r: Self)
        requires other.as_int() != 0, !(self.as_int() == i32::MIN && other.as_int() == -1)
        ensures
          other.as_int() > 0 ==> (r.as_int() * other.as_int() >= self.as_int() && (r.as_int() - 1) * other.as_int() < self.as_int()),
          other.as_int() < 0 ==> (r.as_int() * other.as_int() <= self.as_int() && (r.as_int() - 1) * other.as_int() > self.as_int());
    fn div_floor(self, other: Self) -> (r: Self)
        requires other.as_int() != 0, !(self.as_int() == i32::MIN && other.as_int() == -1)
        ensures
          other.as_int() > 0 ==> (r.as_int() * other.as_int() <= self.as_int() && (r.as_int() + 1) * other.as_int() > self.as_int()),
          other.as_int() < 0 ==> (r.as_int() * other.as_int() >= self.as_int() && (r.as_int() + 1) * other.as_int() < self.as_int());
}
impl NumExt for i32 {
    open spec fn as_int(self) -> int { self as int }
    #[verifier::external_body]
    fn div_ceil(self, other: Self) -> Self { unimplemented!() }
    #[verifier::external_body]
    fn div_floor(self, other: Self) -> Self { unimplemented!() }
}

// value set of a variable/view in a store
pub trait IntegerVariable: Sized {
    spec fn vals(&self, d: Map<int, ISet<int>>) -> ISet<int>;     // the view's current value set
    spec fn wf(&self) -> bool;                                   // type invariant (e.g. scale != 0, no overflow on the declared domain)

    fn lower_bound(&self, assignment: &Assignments) -> (r: i32)
        requires self.wf(), self.vals(assignment.doms@).len() > 0 || true
        ensures forall|v: int| self.vals(assignment.doms@).contains(v) ==> r <= v;
    fn upper_bound(&self, assignment: &Assignments) -> (r: i32)
        requires self.wf()
        ensures forall|v: int| self.vals(assignment.doms@).contains(v) ==> v <= r;
    fn contains(&self, assignment: &Assignments, value: i32) -> (r: bool)
        requires self.wf()
        ensures r == self.vals(assignment.doms@).contains(value as int);
    fn set_lower_bound(&self, assignment: &mut Assignments, value: i32, reason: Option<ReasonRef>) -> (r: Result<(), EmptyDomain>)
        requires self.wf()
        ensures forall|v: int| self.vals(final(assignment).doms@).contains(v) <==> (self.vals(old(assignment).doms@).contains(v) && v >= value);
    fn set_upper_bound(&self, assignment: &mut Assignments, value: i32, reason: Option<ReasonRef>) -> (r: Result<(), EmptyDomain>)
        requires self.wf()
        ensures forall|v: int| self.vals(final(assignment).doms@).contains(v) <==> (self.vals(old(assignment).doms@).contains(v) && v <= value);
}
pub struct AffineView<Inner> {
    pub inner: Inner,
    pub scale: i32,
    pub offset: i32,
}
impl<Inner> AffineView<Inner> {
    pub fn new(inner: Inner, scale: i32, offset: i32) -> Self {
        AffineView {
            inner,
            scale,
            offset,
        }
    }

    /// Apply the inverse transformation of this view on a value, to go from the value in the domain
    /// of `self` to a value in the domain of `self.inner`.
    fn invert(&self, value: i32, rounding: Rounding) -> i32 {
        let inverted_translation = value - self.offset;

        match rounding {
            Rounding::Up => <i32 as NumExt>::div_ceil(inverted_translation, self.scale),
            Rounding::Down => <i32 as NumExt>::div_floor(inverted_translation, self.scale),
        }
    }

    fn map(&self, value: i32) -> i32 {
        self.scale * value + self.offset
    }
}
impl<View> IntegerVariable for AffineView<View>
where
    View: IntegerVariable,
{
    open spec fn vals(&self, d: Map<int, ISet<int>>) -> ISet<int> {
        ISet::new(|v: int| exists|u: int| self.inner.vals(d).contains(u) && v == self.scale * u + self.offset)
    }
    open spec fn wf(&self) -> bool { self.inner.wf() && self.scale != 0 }
    fn lower_bound(&self, assignment: &Assignments) -> i32 {
        if self.scale < 0 {
            self.map(self.inner.upper_bound(assignment))
        } else {
            self.map(self.inner.lower_bound(assignment))
        }
    }
    fn upper_bound(&self, assignment: &Assignments) -> i32 {
        if self.scale < 0 {
            self.map(self.inner.lower_bound(assignment))
        } else {
            self.map(self.inner.upper_bound(assignment))
        }
    }
    fn contains(&self, assignment: &Assignments, value: i32) -> bool {
        if (value - self.offset) % self.scale == 0 {
            let inverted = self.invert(value, Rounding::Up);
            self.inner.contains(assignment, inverted)
        } else {
            false
        }
    }
    fn set_lower_bound(
        &self,
        assignment: &mut Assignments,
        value: i32,
        reason: Option<ReasonRef>,
    ) -> Result<(), EmptyDomain> {
        if self.scale >= 0 {
            let inverted = self.invert(value, Rounding::Up);
            self.inner.set_lower_bound(assignment, inverted, reason)
        } else {
            let inverted = self.invert(value, Rounding::Down);
            self.inner.set_upper_bound(assignment, inverted, reason)
        }
    }
    fn set_upper_bound(
        &self,
        assignment: &mut Assignments,
        value: i32,
        reason: Option<ReasonRef>,
    ) -> Result<(), EmptyDomain> {
        if self.scale >= 0 {
            let inverted = self.invert(value, Rounding::Down);
            self.inner.set_upper_bound(assignment, inverted, reason)
        } else {
            let inverted = self.invert(value, Rounding::Up);
            self.inner.set_lower_bound(assignment, inverted, reason)
        }
    }
}
enum Rounding {
    Up,
    Down,
}
}
fn main(){}
