#![feature(allocator_api)]
use vstd::prelude::*;
//@@SPEC macros.rs@@
verus! {
#[derive(Clone, Copy, PartialEq, Eq, Structural)]
pub struct DomainId { pub id: u32 }
#[derive(Clone, Copy, PartialEq, Eq, Structural)]
pub struct Predicate { pub code: u64 }
#[derive(Clone, Copy, PartialEq, Eq, Structural)]
//@@EXTRACT s_event@@
// The event protocol between a composite brancher and a variable selector.  A composite delivers an event only to
// the selectors that list it in subscribe_to_events; so a selector must list every event its correctness NEEDS, and
// listing an event it does not HANDLE (no handler of its own: the trait's empty default) drops the event silently.
pub open spec fn selector_event(e: BrancherEvent) -> bool {
    e == BrancherEvent::Conflict || e == BrancherEvent::Backtrack || e == BrancherEvent::UnassignInteger || e == BrancherEvent::AppearanceInConflictPredicate
}
pub trait VariableSelector<Var> {
    spec fn needs(&self, e: BrancherEvent) -> bool;
    spec fn handles(&self, e: BrancherEvent) -> bool;
    // the state a selector is in after it has been told about a backtrack
    spec fn fresh(&self) -> bool;

    fn on_conflict(&mut self)
        ensures forall|e: BrancherEvent| #![trigger final(self).needs(e)] final(self).needs(e) == old(self).needs(e);
    fn on_backtrack(&mut self)
        ensures forall|e: BrancherEvent| #![trigger final(self).needs(e)] final(self).needs(e) == old(self).needs(e),
                // @C18 a selector that needs the event is fresh again once it has been delivered
                old(self).needs(BrancherEvent::Backtrack) ==> final(self).fresh();
    fn on_unassign_integer(&mut self, variable: DomainId, value: i32)
        ensures forall|e: BrancherEvent| #![trigger final(self).needs(e)] final(self).needs(e) == old(self).needs(e);
    fn on_appearance_in_conflict_predicate(&mut self, predicate: Predicate)
        ensures forall|e: BrancherEvent| #![trigger final(self).needs(e)] final(self).needs(e) == old(self).needs(e);
    fn subscribe_to_events(&self) -> (r: Vec<BrancherEvent>)
        ensures
            // @C18 a selector asks for every event it needs ...
            forall|e: BrancherEvent| #![trigger self.needs(e)] self.needs(e) ==> r@.contains(e),
            // @C18 ... and only for events it has a handler for
            forall|e: BrancherEvent| #![trigger r@.contains(e)] r@.contains(e) ==> self.handles(e) && selector_event(e);
}
//@@EXTRACT s_pds@@
impl ProportionalDomainSize {
    // every variable is a candidate again
    pub open spec fn all_present(&self) -> bool {
        &&& self.weights_idx_to_variables@.len() == self.variables@.len()
        &&& self.domain_sizes@.len() == self.variables@.len()
        &&& forall|i: int| #![trigger self.weights_idx_to_variables@[i]] 0 <= i < self.variables@.len() ==> self.weights_idx_to_variables@[i] == i
    }
}
impl VariableSelector<DomainId> for ProportionalDomainSize {
    // select_variable forgets the variables it sees fixed; only on_backtrack brings them back
    open spec fn needs(&self, e: BrancherEvent) -> bool { e == BrancherEvent::Backtrack }
    open spec fn handles(&self, e: BrancherEvent) -> bool {
        (e == BrancherEvent::Backtrack && /*@@HAS pds::on_backtrack@@*/) || (e == BrancherEvent::Conflict && /*@@HAS pds::on_conflict@@*/)
        || (e == BrancherEvent::UnassignInteger && /*@@HAS pds::on_unassign_integer@@*/) || (e == BrancherEvent::AppearanceInConflictPredicate && /*@@HAS pds::on_appearance_in_conflict_predicate@@*/)
    }
    open spec fn fresh(&self) -> bool { self.all_present() }
//@@IFMISSING pds::on_backtrack@@ fn on_backtrack(&mut self) {}
//@@IFMISSING pds::on_conflict@@ fn on_conflict(&mut self) {}
//@@IFMISSING pds::on_unassign_integer@@ fn on_unassign_integer(&mut self, variable: DomainId, value: i32) {}
//@@IFMISSING pds::on_appearance_in_conflict_predicate@@ fn on_appearance_in_conflict_predicate(&mut self, predicate: Predicate) {}
//@@EXTRACT pds@@
}
#[verifier::reject_recursive_types(Var)]
//@@EXTRACT s_dvs@@
impl<Var> VariableSelector<Var> for DynamicVariableSelector<Var> {
    // the wrapper needs what the wrapped selector needs, and is as fresh as it
    open spec fn needs(&self, e: BrancherEvent) -> bool { self.selector.needs(e) }
    open spec fn handles(&self, e: BrancherEvent) -> bool {
        (e == BrancherEvent::Backtrack && /*@@HAS dvs::on_backtrack@@*/) || (e == BrancherEvent::Conflict && /*@@HAS dvs::on_conflict@@*/)
        || (e == BrancherEvent::UnassignInteger && /*@@HAS dvs::on_unassign_integer@@*/) || (e == BrancherEvent::AppearanceInConflictPredicate && /*@@HAS dvs::on_appearance_in_conflict_predicate@@*/)
    }
    open spec fn fresh(&self) -> bool { self.selector.fresh() }
//@@IFMISSING dvs::on_backtrack@@ fn on_backtrack(&mut self) {}
//@@IFMISSING dvs::on_conflict@@ fn on_conflict(&mut self) {}
//@@IFMISSING dvs::on_unassign_integer@@ fn on_unassign_integer(&mut self, variable: DomainId, value: i32) {}
//@@IFMISSING dvs::on_appearance_in_conflict_predicate@@ fn on_appearance_in_conflict_predicate(&mut self, predicate: Predicate) {}
//@@EXTRACT dvs@@
}
} // verus!
fn main() {}
