#![feature(allocator_api)]
use vstd::prelude::*;
use std::rc::Rc;
//@@SPEC macros.rs@@
verus! {
//@@SPEC vocab.rs@@
//@@SPEC contracts/integer_variable_consumer.rs@@
//@@SPEC prop_ctx.rs@@
//@@SPEC prop_ctx_stateful.rs@@
broadcast use {conv_axioms::axiom_from_empty_domain, conv_axioms::axiom_from_conjunction};

pub struct Task<Var> { pub start_variable: Var, pub id: u32 }
pub struct ResourceProfile<Var> { pub start: i32, pub end: i32, pub profile_tasks: Vec<Rc<Task<Var>>>, pub height: i32 }
pub type OverIntervalTimeTableType<Var> = Vec<ResourceProfile<Var>>;
#[derive(Clone, Copy)]
pub enum CumulativeExplanationType { Naive, BigStep, Pointwise }
#[derive(Clone, Copy)]
pub struct CumulativePropagatorOptions { pub explanation_type: CumulativeExplanationType }
pub struct CumulativeParameters<Var> { pub tasks: Vec<Rc<Task<Var>>>, pub capacity: i32, pub options: CumulativePropagatorOptions }
pub struct MandatoryPartAdjustments { pub x: u8 }
pub struct UpdatedTaskInfo<Var> { pub task: Rc<Task<Var>> }
impl<Var> UpdatedTaskInfo<Var> {
    #[verifier::external_body]
    pub fn get_mandatory_part_adjustments(&self) -> (r: MandatoryPartAdjustments) { unimplemented!() }
}
// the queue of task updates that have not been applied to the time-table yet
pub struct UpdatableStructures<Var> { pub pending: Ghost<nat>, pub x: Option<Var> }
impl<Var> UpdatableStructures<Var> {
    #[verifier::external_body]
    pub fn reset_all_bounds_and_remove_fixed(&mut self, context: PropagationContext, parameters: &CumulativeParameters<Var>) { unimplemented!() }
    #[verifier::external_body]
    pub fn pop_next_updated_task(&mut self) -> (r: Option<Rc<Task<Var>>>)
        ensures r is Some ==> final(self).pending@ < old(self).pending@, { unimplemented!() }
    #[verifier::external_body]
    pub fn get_update_for_task(&self, task: &Rc<Task<Var>>) -> (r: &UpdatedTaskInfo<Var>) { unimplemented!() }
    #[verifier::external_body]
    pub fn reset_update_for_task(&mut self, task: &Rc<Task<Var>>) ensures final(self).pending == old(self).pending { unimplemented!() }
}
// @C08 some profile of the time-table is above the capacity
pub open spec fn overloaded<Var>(tt: Seq<ResourceProfile<Var>>, cap: int) -> bool { exists|i: int| #![trigger tt[i]] 0 <= i < tt.len() && tt[i].height > cap }

#[verifier::external_body]
pub fn create_time_table_over_interval_from_scratch<Var>(context: PropagationContext, parameters: &CumulativeParameters<Var>) -> (r: Result<OverIntervalTimeTableType<Var>, PropositionalConjunction>)
    ensures r matches Ok(tt) ==> !overloaded(tt@, parameters.capacity as int),
{ unimplemented!() }
#[verifier::external_body]
pub fn find_synchronised_conflict<Var>(time_table: &mut OverIntervalTimeTableType<Var>, parameters: &CumulativeParameters<Var>) -> (r: Option<ResourceProfile<Var>>)
    ensures overloaded(final(time_table)@, parameters.capacity as int) == overloaded(old(time_table)@, parameters.capacity as int),
            r is None ==> !overloaded(old(time_table)@, parameters.capacity as int),
{ unimplemented!() }
#[verifier::external_body]
pub fn create_synchronised_conflict_explanation<Var>(context: PropagationContext, conflicting_profile: &mut ResourceProfile<Var>, parameters: &CumulativeParameters<Var>) -> (r: PropagationStatusCP)
    ensures r is Err,
{ unimplemented!() }
#[verifier::external_body]
pub fn synchronise_time_table<Var>(time_table: &mut OverIntervalTimeTableType<Var>, context: PropagationContext)
    ensures forall|cap: int| #![trigger overloaded(final(time_table)@, cap)] overloaded(final(time_table)@, cap) == overloaded(old(time_table)@, cap),
{ unimplemented!() }
#[verifier::external_body]
pub fn create_conflict_explanation<Var>(context: PropagationContext, conflict_profile: &ResourceProfile<Var>, explanation_type: CumulativeExplanationType) -> (r: PropositionalConjunction)
{ unimplemented!() }

pub struct TimeTableOverIntervalIncrementalPropagator<Var, const SYNCHRONISE: bool> {
    pub time_table: OverIntervalTimeTableType<Var>,
    pub parameters: CumulativeParameters<Var>,
    pub updatable_structures: UpdatableStructures<Var>,
    pub found_previous_conflict: bool,
    pub is_time_table_outdated: bool,
}
impl<Var, const SYNCHRONISE: bool> TimeTableOverIntervalIncrementalPropagator<Var, SYNCHRONISE> {
    // @C08 an overflow that stays in the table is remembered
    pub open spec fn inv(&self) -> bool {
        self.is_time_table_outdated || (overloaded(self.time_table@, self.parameters.capacity as int) ==> self.found_previous_conflict)
    }
    pub open spec fn frame(&self, before: &Self) -> bool {
        self.parameters.capacity == before.parameters.capacity && self.found_previous_conflict == before.found_previous_conflict
        && self.is_time_table_outdated == before.is_time_table_outdated && self.updatable_structures == before.updatable_structures
    }
    #[verifier::external_body]
    fn add_to_time_table(&mut self, context: PropagationContext, mandatory_part_adjustments: &MandatoryPartAdjustments, task: &Rc<Task<Var>>) -> (r: PropagationStatusCP)
        ensures final(self).frame(old(self)),
                // an insertion that reports no conflict creates no overloaded profile (unit tt_insert)
                r is Ok ==> (overloaded(final(self).time_table@, old(self).parameters.capacity as int) ==> overloaded(old(self).time_table@, old(self).parameters.capacity as int)),
    { unimplemented!() }
    #[verifier::external_body]
    fn remove_from_time_table(&mut self, mandatory_part_adjustments: &MandatoryPartAdjustments, task: &Rc<Task<Var>>)
        ensures final(self).frame(old(self)),
                overloaded(final(self).time_table@, old(self).parameters.capacity as int) ==> overloaded(old(self).time_table@, old(self).parameters.capacity as int),
    { unimplemented!() }
//@@EXTRACT upd@@
}
} // verus!
fn main() {}
