//! F16 (C16): AbsoluteValuePropagator computed `signed_lb.abs()`; `i32::MIN.abs()` overflows.
use pumpkin_solver::constraints;
use pumpkin_solver::results::SatisfactionResult;
use pumpkin_solver::results::ProblemSolution;
use pumpkin_solver::termination::Indefinite;
use pumpkin_solver::Solver;

fn main() {
    let r = std::panic::catch_unwind(|| {
        let mut solver = Solver::default();
        let s = solver.new_bounded_integer(i32::MIN, -5);
        let a = solver.new_bounded_integer(0, 7);
        if solver.add_constraint(constraints::absolute(s, a)).post().is_err() {
            return None;
        }
        let mut brancher = solver.default_brancher();
        match solver.satisfy(&mut brancher, &mut Indefinite) {
            SatisfactionResult::Satisfiable(sol) => Some((sol.get_integer_value(s), sol.get_integer_value(a))),
            _ => None,
        }
    });
    match r {
        Err(_) => {
            println!("REPRODUCED: absolute(s, a) with s in [i32::MIN, -5], a in [0, 7] panics (i32::MIN.abs() overflows)");
            std::process::exit(1);
        }
        Ok(Some((s, a))) if (s as i64).abs() == a as i64 => println!("ok: solution s={s}, a={a}"),
        Ok(v) => {
            println!("REPRODUCED: absolute(s, a) with s in [i32::MIN, -5], a in [0, 7] gave {v:?}; expected a solution with a = |s| (e.g. s=-5, a=5)");
            std::process::exit(1);
        }
    }
}
