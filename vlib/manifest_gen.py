"""Regenerates /verif/MANIFEST.json from the units / Kani groups that exist and the notes below.
Run:  python3 -m vlib.manifest_gen
"""
import json
import os

from .common import VERIF
from .main import PROPS, all_units
from . import kani as kani_mod

BASELINE_OFF = "cd /repo && cargo test --workspace --no-fail-fast --offline"

# per property: (technique, level text, level note, design ref).  Only properties with at least one unit are claimed.
NOTES = {}
NA = {}


def load_notes():
    p = os.path.join(VERIF, "manifest_notes.json")
    d = json.load(open(p))
    return d["claimed"], d["not_applicable"]


def main():
    claimed, na = load_notes()
    units = all_units()
    served = {}
    for n, cfg in units.items():
        for pid in cfg.get("properties", []):
            served.setdefault(pid, []).append(n)
    for g, cfg in kani_mod.all_groups().items():
        for pid in cfg.get("properties", []):
            served.setdefault(pid, []).append("kani/" + g)
    checks = []
    not_app = []
    for pid in sorted(PROPS):
        if pid in served and pid in claimed and not claimed[pid].get("hold"):
            c = claimed[pid]
            checks.append({
                "property_id": pid,
                "quick_cmd": f"./check {pid} quick",
                "thorough_cmd": f"./check {pid} thorough",
                "evidence_file": f"/verif/evidence/{pid}.json",
                "replay_cmd_template": "./check --replay {path}",
                "engine": "verus" + ("+kani" if any(u.startswith("kani/") for u in served[pid]) else ""),
                "level_claimed": {"category": c.get("category", "proof"), "text": c["text"],
                                  "design_ref": c.get("design_ref", "DESIGN.md section 3")},
                "level_note": c["note"] + "  Units: " + ", ".join(sorted(served[pid])) + ".",
                "technique": c.get("technique", "contract-based deductive verification (Verus) of mechanically extracted function text"),
            })
        else:
            reason = na.get(pid, {}).get("reason") or "no unit built for this property yet (see DESIGN.md)"
            not_app.append({"property_id": pid, "reason": reason})
    m = {
        "version": 1,
        "setup_cmd": "cd /verif && ./check --setup",
        "hooks": {
            "guard": "cfg(kani) (set only by cargo-kani; /repo carries no hook code)",
            "enable": "checks slice function text out of /repo's working tree (Verus) or append harness modules to a scratch copy of the crates (Kani); /repo itself is built unmodified",
            "baseline_off_cmd": BASELINE_OFF,
            "source_commits": [],
            "add_only": True,
        },
        "engines": [
            {"name": "verus-extract", "path": "/verif/vlib", "serves_properties": sorted(p for p in served),
             "kind_free_text": "Verus 0.2026.09.13 on function text extracted byte-for-byte from /repo on every run (syn span locator + ghost insertion with erasure check)"},
        ],
        "checks": checks,
        "not_applicable": not_app,
        "notes": "exit 0 = all obligations discharged (open known findings printed as KNOWN-FINDING); exit 1 = VIOLATION (a named obligation failed); exit 2 = undecided (lost anchor, unsupported construct, solver limit, vacuity) and never an alarm.",
    }
    with open(os.path.join(VERIF, "MANIFEST.json"), "w") as f:
        json.dump(m, f, indent=1)
        f.write("\n")
    print(f"MANIFEST.json: {len(checks)} checks, {len(not_app)} not_applicable")


if __name__ == "__main__":
    main()
