"""Replay of failed obligations on the real code (DESIGN.md 2.3).

Replay programs live in /verif/replay/harness/src/bin/*.rs and use the public API of the real crates
(path dependency on /repo).  A program exits 1 and prints `REPRODUCED: <input>` when it exhibits the defect on
the real code, 0 otherwise.  The replay never decides anything: the verdict is the verifier's.
"""
import os
import re
import shutil
import tomllib

from .common import REPO, SCRATCH_ROOT, VERIF, log, read, run, write

HARNESS = os.path.join(VERIF, "replay", "harness")
INDEX = os.path.join(VERIF, "replay", "index.toml")


def _prepare():
    """Materialise the harness crate in scratch (Cargo.toml points at the current /repo)."""
    d = os.path.join(SCRATCH_ROOT, "replay-crate")
    os.makedirs(os.path.join(d, "src", "bin"), exist_ok=True)
    write(os.path.join(d, "Cargo.toml"), read(os.path.join(HARNESS, "Cargo.toml.in")).replace("@REPO@", REPO))
    lock = os.path.join(REPO, "Cargo.lock")
    if os.path.exists(lock) and not os.path.exists(os.path.join(d, "Cargo.lock")):
        shutil.copy(lock, os.path.join(d, "Cargo.lock"))
    src = os.path.join(HARNESS, "src", "bin")
    for f in os.listdir(os.path.join(d, "src", "bin")):
        os.remove(os.path.join(d, "src", "bin", f))
    for f in os.listdir(src):
        shutil.copy(os.path.join(src, f), os.path.join(d, "src", "bin", f))
    return d


def run_bin(name, profile="dev", timeout=900):
    d = _prepare()
    cmd = ["cargo", "run", "--offline", "-q", "--bin", name]
    if profile == "release":
        cmd.insert(2, "--release")
    env = {"CARGO_TARGET_DIR": os.path.join(SCRATCH_ROOT, "replay-target"), "RUST_BACKTRACE": "0"}
    rc, out, err, wall = run(cmd, cwd=d, env=env, timeout=timeout)
    return rc, out, err, " ".join(cmd)


def entries():
    if not os.path.exists(INDEX):
        return []
    with open(INDEX, "rb") as f:
        return tomllib.load(f).get("replay", [])


def try_replay(pid, failure):
    out = []
    if failure.unit.startswith("kani/"):
        # Kani gives a concrete counterexample: ask for the playback unit test of the failing harness
        from . import kani as kani_mod
        test, cmd = kani_mod.concrete_playback(failure.unit.split("/", 1)[1], failure.fn)
        if test:
            return ("counterexample from the verifier (Kani concrete playback; the harness runs the real crate code):\n"
                    f"command: {cmd}\n" + test)
        return ""
    for e in entries():
        if e.get("unit") != failure.unit or e.get("fn") != failure.fn or e.get("kind") != failure.kind:
            continue
        if e.get("anchor") and e["anchor"] not in failure.anchor:
            continue
        for prof in e.get("profiles", ["dev"]):
            rc, so, se, cmd = run_bin(e["bin"], prof)
            if rc == 101 and "could not compile" in se:
                log("replay program did not compile:", se[-500:])
                continue
            rep = [l for l in so.split("\n") if l.startswith("REPRODUCED")]
            if rc != 0 and rep:
                out.append(f"program: replay/harness/src/bin/{e['bin']}.rs (profile {prof})")
                out.append(f"command: cd <scratch>/replay-crate && {cmd}   [re-run: ./check --replay <this file>]")
                out += rep
                out.append(f"replay-bin: {e['bin']} {prof}")
                return "\n".join(out)
    return ""


def rerun(path):
    """./check --replay <file>: re-run the recorded replay program against the current /repo."""
    txt = read(path)
    m = re.search(r"^replay-bin: (\S+) (\S+)$", txt, re.M)
    if not m:
        print("(this replay file carries no concrete program: no-failing-input-found)")
        return 0
    rc, so, se, cmd = run_bin(m.group(1), m.group(2))
    print(so)
    if rc != 0:
        print(se[-1500:])
    return 1 if rc != 0 else 0
