use vstd::prelude::*;
//@@SPEC macros.rs@@
verus! {
//@@SPEC vocab.rs@@

pub assume_specification<T: Clone> [<[T] as std::borrow::ToOwned>::clone_into] (src: &[T], dst: &mut Vec<T>)
    ensures final(dst)@ == src@;
pub assume_specification<'a, T: Copy> [std::option::Option::<&T>::copied] (o: std::option::Option<&'a T>) -> (r: std::option::Option<T>)
    ensures o is Some <==> r is Some, o is Some ==> r->Some_0 == *(o->Some_0);

// ---- environment (A-PRELUDE): field-free abstractions of the engine's components ----
pub struct StoredConflictInfo { pub x: u8 }
pub struct Misc { pub x: u8 }
pub struct Counter(pub u64);
impl vstd::std_specs::ops::AddAssignSpecImpl<u64> for Counter {
    open spec fn obeys_add_assign_spec() -> bool { false }
    open spec fn add_assign_req(&self, rhs: u64) -> bool { true }
    open spec fn add_assign_spec(&self, rhs: u64) -> &Self { self }
}
impl std::ops::AddAssign<u64> for Counter {
    #[verifier::external_body]
    fn add_assign(&mut self, rhs: u64) { self.0 = self.0.wrapping_add(rhs); }
}
pub struct EngineStatistics { pub time_spent_in_solver: Counter, pub num_decisions: Counter, pub num_restarts: Counter }
pub struct SolverStatistics { pub engine_statistics: EngineStatistics }
pub struct Duration { pub x: u8 }
impl Duration { #[verifier::external_body] pub fn as_millis(&self) -> u128 { unimplemented!() } }
pub struct Instant { pub x: u8 }
impl Instant {
    #[verifier::external_body] pub fn now() -> Instant { unimplemented!() }
    #[verifier::external_body] pub fn elapsed(&self) -> Duration { unimplemented!() }
}
pub enum CSPSolverExecutionFlag { Feasible, Infeasible, Timeout }
#[derive(Clone, Copy)]
pub enum ConstraintOperationError { InfeasibleClause, InfeasibleNogood, InfeasiblePropagator, InfeasibleState }

pub trait TerminationCondition {
    // deliberately NO postcondition: every interrupt schedule is covered (C11)
    fn should_stop(&mut self) -> bool;
}
pub struct RandomGen { pub x: u8 }
pub struct InternalParameters { pub random_generator: RandomGen }
pub struct SelectionContext<'a> { pub assignments: &'a EngineAssignments, pub random_generator: &'a mut RandomGen }
impl<'a> SelectionContext<'a> {
    pub fn new(assignments: &'a EngineAssignments, rng: &'a mut RandomGen) -> (r: Self)
        ensures r.assignments == assignments
    { SelectionContext { assignments, random_generator: rng } }
}
pub trait Brancher {
    // statement of C18 (assumed here, decided by the branching checks): a proposed decision is undecided,
    // in particular it can still be satisfied inside the current domains
    fn next_decision(&mut self, context: &mut SelectionContext) -> (r: Option<Predicate>)
        ensures r is Some ==> exists|a: Asg| #![trigger (old(context).assignments.live@)(a)] (old(context).assignments.live@)(a) && pred_holds(r->Some_0, a),
                final(context).assignments == old(context).assignments;
    fn on_conflict(&mut self);
    fn is_restart_pointless(&mut self) -> bool;
}
pub struct RestartStrategy { pub x: u8 }
impl RestartStrategy {
    #[verifier::external_body] pub fn should_restart(&mut self) -> bool { unimplemented!() }
    #[verifier::external_body] pub fn notify_restart(&mut self) { unimplemented!() }
}
pub struct WatchList { pub x: u8 }
impl WatchList { #[verifier::external_body] pub fn grow(&mut self) { unimplemented!() } }
pub struct VariableNames { pub x: u8 }
impl VariableNames { #[verifier::external_body] pub fn add_integer(&mut self, d: DomainId, name: String) { unimplemented!() } }

// `pending_conflict`: propagation has detected a conflict on the current trail that has not been handled yet
// (neither analysed nor undone by backtracking below the level at which it was found)
pub struct EngineAssignments { pub level: usize, pub live: Ghost<Live>, pub pending_conflict: Ghost<bool> }
impl EngineAssignments {
    #[verifier::external_body]
    pub fn get_decision_level(&self) -> (r: usize) ensures r == self.level { unimplemented!() }
    #[verifier::external_body]
    pub fn increase_decision_level(&mut self)
        ensures final(self).level == old(self).level + 1, final(self).live == old(self).live, final(self).pending_conflict == old(self).pending_conflict { unimplemented!() }
    #[verifier::external_body]
    pub fn post_predicate(&mut self, predicate: Predicate, reason: Option<u32>) -> (r: Result<(), EmptyDomain>)
        ensures final(self).level == old(self).level, final(self).pending_conflict == old(self).pending_conflict,
                forall|a: Asg| #![trigger (final(self).live@)(a)] #![trigger (old(self).live@)(a)] (final(self).live@)(a) <==> ((old(self).live@)(a) && pred_holds(predicate, a)),
                r is Err ==> live_empty(final(self).live@),
    { unimplemented!() }
    #[verifier::external_body]
    pub fn grow(&mut self, lower_bound: i32, upper_bound: i32) -> (r: DomainId)
        ensures final(self).level == old(self).level, final(self).pending_conflict == old(self).pending_conflict { unimplemented!() }
}
pub struct TrailedLike { pub x: u8 }
impl TrailedLike { #[verifier::external_body] pub fn increase_decision_level(&mut self) { unimplemented!() } }

// ---- the life-cycle state (mirror of the repository's enum, field-for-field) ----
pub enum CSPSolverStateInternal {
    Ready,
    Solving,
    ContainsSolution,
    Conflict {
        conflict_info: StoredConflictInfo,
    },
    Infeasible,
    InfeasibleUnderAssumptions {
        violated_assumption: Predicate,
    },
    Timeout,
}
pub struct CSPSolverState {
    pub internal_state: CSPSolverStateInternal,
}

//@@EXTRACT state_impl@@

pub struct ConstraintSatisfactionSolver {
    pub state: CSPSolverState,
    pub assignments: EngineAssignments,
    pub assumptions: Vec<Predicate>,
    pub last_notified_cp_trail_index: usize,
    pub reason_store: TrailedLike,
    pub stateful_assignments: TrailedLike,
    pub propagator_queue: Misc, pub watch_list_cp: WatchList, pub propagators: Misc,
    pub event_drain: Misc, pub backtrack_event_drain: Misc,
    pub restart_strategy: RestartStrategy,
    pub solver_statistics: SolverStatistics,
    pub variable_names: VariableNames,
    pub internal_parameters: InternalParameters,
}

impl ConstraintSatisfactionSolver {
    // ---- ghost vocabulary of the protocol ----
    // the solver can be handed to the user: root level and one of the three resting states
    pub open spec fn api_ready(&self) -> bool {
        self.assignments.level == 0
        && (self.state.internal_state is Ready || self.state.internal_state is Infeasible || self.state.internal_state is Conflict)
        // a conflict found by propagation is never forgotten: a Ready solver has a consistent root trail
        && (self.state.internal_state is Ready ==> !self.assignments.pending_conflict@)
    }
    // states in which the search loop hands a flag back to the API layer
    pub open spec fn flag_matches_state(&self, flag: CSPSolverExecutionFlag) -> bool {
        match flag {
            CSPSolverExecutionFlag::Feasible => self.state.internal_state is ContainsSolution,
            CSPSolverExecutionFlag::Timeout => self.state.internal_state is Timeout,
            CSPSolverExecutionFlag::Infeasible =>
                // infeasibility is only ever declared for a conflict found at the root
                (self.state.internal_state is Infeasible && self.assignments.level == 0)
                // the violated assumption was posted on its own decision level, so the trail is above the root
                || (self.state.internal_state is InfeasibleUnderAssumptions && self.assignments.level > 0)
                || (self.state.internal_state is Conflict && self.assignments.level == 0),
        }
    }

    // ---- engine internals: ASSUMED by state effect (A-ENGINE) ----
    #[verifier::external_body]
    pub fn backtrack<B: Brancher>(assignments: &mut EngineAssignments, a: &mut usize, b: &mut TrailedLike, c: &mut Misc, d: &mut WatchList,
        e: &mut Misc, f: &mut Misc, g: &mut Misc, backtrack_level: usize, brancher: &mut B, h: &mut TrailedLike)
        requires backtrack_level < old(assignments).level
        ensures final(assignments).level == backtrack_level, !final(assignments).pending_conflict@
    { unimplemented!() }

    #[verifier::external_body]
    pub fn propagate(&mut self)
        requires old(self).state.internal_state is Solving, !old(self).assignments.pending_conflict@
        ensures final(self).assignments.level == old(self).assignments.level,
                final(self).assumptions == old(self).assumptions,
                final(self).state.internal_state is Solving || final(self).state.internal_state is Conflict,
                final(self).assignments.pending_conflict@ == (final(self).state.internal_state is Conflict),
    { unimplemented!() }

    #[verifier::external_body]
    pub fn complete_proof(&mut self)
        ensures final(self).state == old(self).state, final(self).assignments == old(self).assignments, final(self).assumptions == old(self).assumptions
    { unimplemented!() }

    #[verifier::external_body]
    pub fn decay_nogood_activities(&mut self)
        ensures final(self).state == old(self).state, final(self).assignments == old(self).assignments, final(self).assumptions == old(self).assumptions
    { unimplemented!() }

    // conflict analysis: requires a conflict above the root; afterwards the solver is searching again below
    // the conflict level (or, with the no-learning resolver at the last decision, infeasible is found later)
    #[verifier::external_body]
    pub fn resolve_conflict_with_nogood<B: Brancher>(&mut self, brancher: &mut B)
        requires old(self).state.internal_state is Conflict, old(self).assignments.level > 0
        ensures final(self).assignments.level < old(self).assignments.level,
                final(self).assumptions == old(self).assumptions,
                final(self).state.internal_state is Solving, !final(self).assignments.pending_conflict@,
    { unimplemented!() }

//@@EXTRACT csp_decide@@
//@@EXTRACT csp@@
}

} // verus!
fn main() {}
