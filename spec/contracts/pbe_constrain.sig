        requires old(solver).wf(), old(self).inv(old(solver).model@),
                 !old(self).is_new() ==> k < old(self).k_prev(),     // the caller only ever lowers the bound ...
                 exists|a: Asg| #![trigger (old(solver).model@)(a)] (old(solver).model@)(a) && old(self).cost(a) > k,     // ... below an assignment that is still in the model (k = cost of the incumbent - 1)
        ensures final(solver).wf(),
            forall|a: Asg| #![trigger final(self).cost(a)] final(self).cost(a) == old(self).cost(a),
            forall|a: Asg| #![trigger (final(solver).model@)(a)] (final(solver).model@)(a) ==> (old(solver).model@)(a),
            r is Ok ==> final(self).inv(final(solver).model@) && !final(self).is_new() && final(self).slack() <= old(self).slack(),
            // @C15 Ok: the model is cut at some cost bound b >= k: nothing within the requested bound is lost, and
            // everything left is within it (b == k) except in the single call that uses up the slack
            r is Ok ==> exists|b: int| #![trigger cost_cut(old(solver).model@, final(solver).model@, old(self).cost_fn(), b)]
                            b >= k && cost_cut(old(solver).model@, final(solver).model@, old(self).cost_fn(), b)
                            && (b == k || final(self).slack() < old(self).slack()),
            // @C15 Err: no assignment is within the bound (the incumbent is optimal)
            r is Err ==> forall|a: Asg| #![trigger (old(solver).model@)(a)] (old(solver).model@)(a) ==> old(self).cost(a) > k,
