#![feature(allocator_api)]
use vstd::prelude::*;
//@@SPEC macros.rs@@
verus! {
#[derive(Clone, Copy, PartialEq, Eq, Structural)]
pub struct PropagatorId(pub u32);
#[derive(Clone, Copy, PartialEq, Eq, Structural)]
pub struct LocalId { pub v: u32 }
impl LocalId {
    #[verifier::external_body]
    pub fn unpack(self) -> (r: u32) ensures r == self.v { unimplemented!() }
    #[verifier::external_body]
    pub fn from(v: u32) -> (r: LocalId) ensures r.v == v { unimplemented!() }
    #[verifier::external_body]
    pub fn max(self, other: LocalId) -> (r: LocalId) ensures r.v == (if self.v >= other.v { self.v } else { other.v }) { unimplemented!() }
}
#[derive(Clone, Copy, PartialEq, Eq, Structural)]
pub struct PropagatorVarId { pub propagator: PropagatorId, pub variable: LocalId }
pub struct IntEvents { pub x: u8 }
#[derive(Clone, Copy)]
pub struct DomainEvents { pub x: u8 }
impl DomainEvents { #[verifier::external_body] pub fn get_int_events(&self) -> (r: IntEvents) { unimplemented!() } }
pub struct Assignments { pub state: Ghost<int> }
pub struct TrailedAssignments { pub x: u8 }
// the watch list: which (propagator, local id) pairs are subscribed to which variable (ghost)
pub struct WatchListCP { pub subs: Ghost<Set<(int, PropagatorVarId)>> }
pub struct Watchers<'a> { pub propagator_var: PropagatorVarId, pub watch_list: &'a mut WatchListCP }
impl<'a> Watchers<'a> {
    #[verifier::external_body]
    pub fn new(propagator_var: PropagatorVarId, watch_list: &'a mut WatchListCP) -> (r: Self)
        ensures r.propagator_var == propagator_var, *r.watch_list == *old(watch_list), *final(watch_list) == *final(r.watch_list)
    { unimplemented!() }
}
pub trait IntegerVariable: Sized {
    spec fn key(&self) -> int;                       // which variable the view is over
    spec fn fixed_in(&self, state: int) -> bool;
    fn watch_all(&self, watchers: &mut Watchers<'_>, events: IntEvents)
        ensures final(watchers).propagator_var == old(watchers).propagator_var,
                final(final(watchers).watch_list).subs@ == final(old(watchers).watch_list).subs@,     // the same list ...
                final(watchers).watch_list.subs@ == old(watchers).watch_list.subs@.insert((self.key(), old(watchers).propagator_var));   // ... with one more subscription
}
pub struct PropagationContext<'a> { pub assignments: &'a Assignments }
impl<'a> PropagationContext<'a> {
    #[verifier::external_body]
    pub fn new(assignments: &'a Assignments) -> (r: Self) ensures r.assignments == assignments { unimplemented!() }
    #[verifier::external_body]
    pub fn is_fixed<Var: IntegerVariable>(&self, var: &Var) -> (r: bool) ensures r == var.fixed_in(self.assignments.state@) { unimplemented!() }
}
pub struct PropagatorInitialisationContext<'a> {
    pub watch_list: &'a mut WatchListCP,
    pub stateful_assignments: &'a mut TrailedAssignments,
    pub propagator_id: PropagatorId,
    pub next_local_id: LocalId,
    pub assignments: &'a mut Assignments,
}
impl PropagatorInitialisationContext<'_> {
//@@EXTRACT pic@@
}
} // verus!
fn main() {}
