#![feature(allocator_api)]
use vstd::prelude::*;
//@@SPEC macros.rs@@
verus! {
#[derive(Clone, Copy, PartialEq, Eq)]
pub struct Literal { pub code: u32 }
pub uninterp spec fn lit_not(l: Literal) -> Literal;
impl vstd::std_specs::ops::NotSpecImpl for Literal {
    open spec fn obeys_not_spec() -> bool { true }
    open spec fn not_req(self) -> bool { true }
    open spec fn not_spec(self) -> Literal { lit_not(self) }
}
impl std::ops::Not for Literal {
    type Output = Literal;
    #[verifier::external_body]
    fn not(self) -> (r: Literal) { unimplemented!() }
}
// the documented effect of the map operations used by Function
pub struct HashMap<K, V> { pub m: Ghost<Map<K, V>> }
pub struct Entry<'a, K, V> { pub map: &'a mut HashMap<K, V>, pub key: K }
impl<K, V> HashMap<K, V> {
    #[verifier::external_body]
    pub fn entry(&mut self, key: K) -> (e: Entry<'_, K, V>)
        ensures e.key == key, e.map.m@ == old(self).m@, *final(e.map) == *final(self)
    { unimplemented!() }
    #[verifier::external_body]
    pub fn insert(&mut self, key: K, value: V) -> (r: Option<V>)
        ensures final(self).m@ == old(self).m@.insert(key, value)
    { unimplemented!() }
}
impl<'a, K, V> Entry<'a, K, V> {
    #[verifier::external_body]
    pub fn or_insert(self, default: V) -> (r: &'a mut V)
        ensures *r == (if old(self.map).m@.dom().contains(self.key) { old(self.map).m@[self.key] } else { default }),
                final(self.map).m@ == old(self.map).m@.insert(self.key, *final(r)),
    { unimplemented!() }
}
pub struct Function { pub literals: HashMap<Literal, u64>, pub constant_term: u64 }
// the weight of a literal in the function (0 if it has no term)
pub open spec fn weight_of(m: Map<Literal, u64>, l: Literal) -> int { if m.dom().contains(l) { m[l] as int } else { 0 } }
impl Function {
//@@EXTRACT func@@
}
} // verus!
fn main() {}
