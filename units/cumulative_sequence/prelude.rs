#![feature(allocator_api)]
use vstd::prelude::*;
use std::rc::Rc;
use std::cmp::max;
use std::cmp::min;
//@@SPEC macros.rs@@
verus! {
//@@SPEC vocab.rs@@
//@@SPEC contracts/integer_variable_consumer.rs@@
//@@SPEC prop_ctx.rs@@
//@@SPEC std_minmax.rs@@
broadcast use {conv_axioms::axiom_from_empty_domain, std_minmax_axioms_usize::axiom_max_usize};

impl<'a> PropagationContextMut<'a> {
    #[verifier::external_body]
    pub fn as_readonly(&self) -> (r: PropagationContext<'_>) ensures r.assignments.live@ == self.live() { unimplemented!() }
}
pub struct LocalId { pub v: u32 }
pub struct Task<Var> {
    pub start_variable: Var,
    pub processing_time: i32,
    pub resource_usage: i32,
    pub id: LocalId,
}
pub struct ResourceProfile<Var> {
    pub start: i32,
    pub end: i32,
    pub profile_tasks: Vec<Rc<Task<Var>>>,
    pub height: i32,
}
#[derive(Clone, Copy)]
pub enum CumulativeExplanationType { Naive, BigStep, Pointwise }
pub struct CumulativePropagatorOptions { pub allow_holes_in_domain: bool, pub explanation_type: CumulativeExplanationType, pub generate_sequence: bool }
pub struct CumulativeParameters<Var> { pub tasks: Vec<Rc<Task<Var>>>, pub capacity: i32, pub options: CumulativePropagatorOptions }
pub enum CanUpdate { LowerBound, UpperBound, Holes }

// identity of a profile in a sorted, disjoint time-table
pub open spec fn pid<Var>(p: &ResourceProfile<Var>) -> (int, int) { (p.start as int, p.end as int) }
// A-HORIZON
pub open spec fn horizon_ok(x: int) -> bool { -0x4000_0000 < x < 0x4000_0000 }
pub open spec fn table_ok<Var>(tt: Seq<&ResourceProfile<Var>>) -> bool {
    &&& forall|i: int| #![trigger tt[i]] 0 <= i < tt.len() ==> horizon_ok(tt[i].start as int) && horizon_ok(tt[i].end as int) && tt[i].start <= tt[i].end
    &&& forall|i: int, j: int| #![trigger tt[i], tt[j]] 0 <= i < j < tt.len() ==> tt[i].end < tt[j].start
}

// ---- the handler and its cache protocol ----
pub struct OnceCellStub { pub x: u8 }
pub struct CumulativePropagationHandler {
    pub explanation_type: CumulativeExplanationType,
    pub stored_profile_explanation: OnceCellStub,
    // ghost: the profile the cached explanation was built for (None: the cache is empty)
    pub cached_for: Ghost<Option<(int, int)>>,
}
impl CumulativePropagationHandler {
    // the cache is empty or belongs to `p`
    pub open spec fn cache_ok<Var>(&self, p: &ResourceProfile<Var>) -> bool { self.cached_for@ is None || self.cached_for@ == Some(pid(p)) }
    #[verifier::external_body]
    pub fn new(explanation_type: CumulativeExplanationType) -> (r: Self) ensures r.cached_for@ is None, r.explanation_type == explanation_type { unimplemented!() }
    #[verifier::external_body]
    pub fn next_profile(&mut self) ensures final(self).cached_for@ is None, final(self).explanation_type == old(self).explanation_type { unimplemented!() }
    // chains build their explanation from scratch: no cache involved
    #[verifier::external_body]
    pub fn propagate_chain_of_lower_bounds_with_explanations<Var: IntegerVariable>(&mut self, context: &mut PropagationContextMut, profiles: &[&ResourceProfile<Var>], propagating_task: &Rc<Task<Var>>) -> (r: Result<(), EmptyDomain>)
        requires profiles@.len() > 0       // the always-on assertion of the function
        ensures final(self).cached_for == old(self).cached_for, final(self).explanation_type == old(self).explanation_type,
                final(context).constraint == old(context).constraint, prop_monotone(old(context).live(), final(context).live()),
                *final(final(context).assignments) == *final(old(context).assignments),
                // an Ok result never hides a wipe-out (contract of the context operations)
                !live_empty(old(context).live()) && r is Ok ==> !live_empty(final(context).live()),
    { unimplemented!() }
    #[verifier::external_body]
    pub fn propagate_chain_of_upper_bounds_with_explanations<Var: IntegerVariable>(&mut self, context: &mut PropagationContextMut, profiles: &[&ResourceProfile<Var>], propagating_task: &Rc<Task<Var>>) -> (r: Result<(), EmptyDomain>)
        requires profiles@.len() > 0
        ensures final(self).cached_for == old(self).cached_for, final(self).explanation_type == old(self).explanation_type,
                final(context).constraint == old(context).constraint, prop_monotone(old(context).live(), final(context).live()),
                *final(final(context).assignments) == *final(old(context).assignments),
                // an Ok result never hides a wipe-out (contract of the context operations)
                !live_empty(old(context).live()) && r is Ok ==> !live_empty(final(context).live()),
    { unimplemented!() }
    // single-profile bound propagations use the cached profile explanation (Naive / BigStep)
    #[verifier::external_body]
    pub fn propagate_lower_bound_with_explanations<Var: IntegerVariable>(&mut self, context: &mut PropagationContextMut, profile: &ResourceProfile<Var>, propagating_task: &Rc<Task<Var>>) -> (r: Result<(), EmptyDomain>)
        requires old(self).cache_ok(profile)       // @C17 @C08 a cached explanation is used for the profile it was built for only
        ensures final(self).cache_ok(profile), final(self).explanation_type == old(self).explanation_type,
                final(context).constraint == old(context).constraint, prop_monotone(old(context).live(), final(context).live()),
                *final(final(context).assignments) == *final(old(context).assignments),
                !live_empty(old(context).live()) && r is Ok ==> !live_empty(final(context).live()),
    { unimplemented!() }
    #[verifier::external_body]
    pub fn propagate_upper_bound_with_explanations<Var: IntegerVariable>(&mut self, context: &mut PropagationContextMut, profile: &ResourceProfile<Var>, propagating_task: &Rc<Task<Var>>) -> (r: Result<(), EmptyDomain>)
        requires old(self).cache_ok(profile)       // @C17 @C08
        ensures final(self).cache_ok(profile), final(self).explanation_type == old(self).explanation_type,
                final(context).constraint == old(context).constraint, prop_monotone(old(context).live(), final(context).live()),
                *final(final(context).assignments) == *final(old(context).assignments),
                !live_empty(old(context).live()) && r is Ok ==> !live_empty(final(context).live()),
    { unimplemented!() }
    // proved in unit cumulative_holes (there with the semantic postconditions); the cache clause is the protocol
    #[verifier::external_body]
    pub fn propagate_holes_in_domain<Var: IntegerVariable>(&mut self, context: &mut PropagationContextMut, profile: &ResourceProfile<Var>, propagating_task: &Rc<Task<Var>>) -> (r: Result<(), EmptyDomain>)
        requires old(self).cache_ok(profile)       // @C17 @C08 a cached explanation is used for the profile it was built for only
        ensures final(self).cache_ok(profile), final(self).explanation_type == old(self).explanation_type,
                final(context).constraint == old(context).constraint, prop_monotone(old(context).live(), final(context).live()),
                *final(final(context).assignments) == *final(old(context).assignments),
                // an Ok result never hides a wipe-out (contract of the context operations)
                !live_empty(old(context).live()) && r is Ok ==> !live_empty(final(context).live()),
    { unimplemented!() }
}
pub struct UpdatableStructures<Var> { pub unfixed: Vec<Rc<Task<Var>>>, pub removed: Ghost<nat> }
impl<Var> UpdatableStructures<Var> {
    // the sparse set of unfixed tasks: `unfixed` are all tasks that may be unfixed, the first `count()` of them are active
    pub open spec fn count(&self) -> nat { (self.unfixed@.len() - self.removed@) as nat }
    #[verifier::external_body]
    pub fn number_of_unfixed_tasks(&self) -> (r: usize) ensures r == self.count(), self.removed@ <= self.unfixed@.len() { unimplemented!() }
    #[verifier::external_body]
    pub fn has_no_unfixed_tasks(&self) -> (r: bool) ensures r == (self.count() == 0) { unimplemented!() }
    #[verifier::external_body]
    pub fn get_unfixed_task_at_index(&self, index: usize) -> (r: Rc<Task<Var>>)
        requires index < self.count()
        ensures exists|i: int| #![trigger self.unfixed@[i]] 0 <= i < self.unfixed@.len() && r == self.unfixed@[i]
    { unimplemented!() }
    #[verifier::external_body]
    pub fn temporarily_remove_task_from_unfixed(&mut self, task: &Rc<Task<Var>>)
        requires old(self).count() > 0
        ensures final(self).unfixed == old(self).unfixed, final(self).removed@ == old(self).removed@ + 1
    { unimplemented!() }
    #[verifier::external_body]
    pub fn restore_temporarily_removed(&mut self)
        ensures final(self).unfixed == old(self).unfixed, final(self).removed@ == 0
    { unimplemented!() }
    #[verifier::external_body]
    pub fn get_unfixed_tasks(&self) -> (r: Vec<&Rc<Task<Var>>>)
        ensures r@.len() == self.unfixed@.len(), forall|i: int| #![trigger r@[i]] 0 <= i < r@.len() ==> *r@[i] == self.unfixed@[i]
    { unimplemented!() }
}
// which propagations are possible: unspecified here
#[verifier::external_body]
pub fn find_possible_updates<Var: IntegerVariable>(context: &mut PropagationContextMut, task: &Rc<Task<Var>>, profile: &ResourceProfile<Var>, parameters: &CumulativeParameters<Var>) -> (r: Vec<CanUpdate>)
    ensures *final(context) == *old(context)
{ unimplemented!() }
#[verifier::external_body]
pub fn lower_bound_can_be_propagated_by_profile<Var: IntegerVariable>(context: PropagationContext, task: &Rc<Task<Var>>, profile: &ResourceProfile<Var>, capacity: i32) -> (r: bool) { unimplemented!() }
#[verifier::external_body]
pub fn upper_bound_can_be_propagated_by_profile<Var: IntegerVariable>(context: PropagationContext, task: &Rc<Task<Var>>, profile: &ResourceProfile<Var>, capacity: i32) -> (r: bool) { unimplemented!() }
#[verifier::external_body]
pub fn overflows_capacity_and_is_not_part_of_profile<Var: IntegerVariable>(context: PropagationContext, task: &Rc<Task<Var>>, profile: &ResourceProfile<Var>, capacity: i32) -> (r: bool) { unimplemented!() }
// D31
#[verifier::external_body]
pub fn pv_slice<'a, T>(v: &'a Vec<T>, lo: usize, hi: usize) -> (r: &'a [T])
    requires lo <= hi <= v@.len()
    ensures r@ == v@.subrange(lo as int, hi as int)
{ unimplemented!() }
#[verifier::external_body]
pub fn pv_slice_incl<'a, T>(v: &'a Vec<T>, lo: usize, hi: usize) -> (r: &'a [T])
    requires lo <= hi + 1, hi < v@.len()
    ensures r@ == v@.subrange(lo as int, hi + 1)
{ unimplemented!() }
//@@EXTRACT find_lb@@
//@@EXTRACT find_ub@@
//@@EXTRACT seq@@
//@@EXTRACT single@@
} // verus!
fn main() {}
