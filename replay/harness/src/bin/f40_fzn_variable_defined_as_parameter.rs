//! F40 (C13): merge_equivalences tested the declared identifier instead of the referenced one for "the right-hand side is a
//! parameter": `int: p = 3; var 1..5: x = p;` panicked in VariableEquivalences::merge (unwrap on None).
//! Exit 1 = reproduced.
use std::io::Write;
use std::process::Command;

fn run(name: &str, model: &str, args: &[&str]) -> (String, String) {
    let repo = std::env::var("PUMPKIN_REPO").unwrap_or_else(|_| "/repo".into());
    let target = std::env::var("CARGO_TARGET_DIR").unwrap_or_else(|_| "/tmp/pumpkin-verif-scratch/replay-target".into());
    let path = std::env::temp_dir().join(name);
    std::fs::File::create(&path).unwrap().write_all(model.as_bytes()).unwrap();
    let out = Command::new("cargo")
        .args(["run", "--offline", "-q", "--manifest-path", &format!("{repo}/Cargo.toml"), "-p", "pumpkin-solver", "--bin", "pumpkin-solver", "--"])
        .args(args).arg(&path)
        .env("CARGO_TARGET_DIR", format!("{target}-bin")).env("RUST_BACKTRACE", "0")
        .output().expect("cannot run cargo");
    (String::from_utf8_lossy(&out.stdout).to_string(), String::from_utf8_lossy(&out.stderr).to_string())
}

fn main() {
    let model = "int: p = 3;\nvar 1..5: x :: output_var = p;\nsolve satisfy;\n";
    let (so, se) = run("pv_f40.fzn", model, &["-a"]);
    let n = so.lines().filter(|l| l.starts_with("----------")).count();
    if n == 1 && so.contains("x = 3;") && so.contains("==========") { println!("ok: the single solution x = 3"); }
    else { println!("REPRODUCED: int: p = 3; var 1..5: x = p; solve satisfy: {n} solutions{}", if se.contains("panicked") { ", panic (unwrap on None in the equivalence classes)" } else { "" }); std::process::exit(1); }
}
