use vstd::prelude::*;
//@@SPEC macros.rs@@
verus! {
//@@SPEC vocab.rs@@

pub struct Solution { pub asg: Ghost<Asg> }
pub struct SolutionReference<'a> { pub asg: Ghost<Asg>, pub p: core::marker::PhantomData<&'a ()> }
impl Solution {
    #[verifier::external_body]
    pub fn as_reference(&self) -> (r: SolutionReference<'_>) ensures r.asg == self.asg { unimplemented!() }
}
pub trait TerminationCondition { fn should_stop(&mut self) -> bool; }
pub trait Brancher { fn on_solution(&mut self, solution: SolutionReference<'_>); }
pub enum SatisfactionResult { Satisfiable(Solution), Unsatisfiable, Unknown }

pub struct Duration { pub x: u8 }
impl Duration {
    #[verifier::external_body] pub fn as_secs(&self) -> u64 { unimplemented!() }
    #[verifier::external_body] pub fn as_millis(&self) -> u128 { unimplemented!() }
}
pub struct Stopwatch { pub x: u8 }
impl Stopwatch { #[verifier::external_body] pub fn elapsed(&self) -> Duration { unimplemented!() } }

// the objective: an abstract cost over assignments with a constant lower bound
pub struct Function { pub x: u8 }
impl Function {
    pub uninterp spec fn cost(&self, a: Asg) -> int;
    pub uninterp spec fn constant(&self) -> int;
    // every assignment costs at least the constant term (weights are non-negative)
    #[verifier::external_body]
    pub proof fn lemma_cost_at_least_constant(&self, a: Asg) ensures self.cost(a) >= self.constant() { }
    #[verifier::external_body]
    pub fn get_constant_term(&self) -> (r: u64) ensures r == self.constant() { unimplemented!() }
    #[verifier::external_body]
    pub fn evaluate_assignment(&self, solution: &Solution) -> (r: u64) ensures r == self.cost(solution.asg@) { unimplemented!() }
}

pub struct Solver { pub model: Ghost<Model> }
impl Solver {
    pub open spec fn unsat(&self) -> bool { forall|a: Asg| !(#[trigger] (self.model@)(a)) }
    pub open spec fn wf(&self) -> bool { true }     // root values are not tracked at this level
    // statement of C01 / C02 / C11 at the API (proved in unit api_solver against the engine contract)
    #[verifier::external_body]
    pub fn satisfy<B: Brancher, T: TerminationCondition>(&mut self, brancher: &mut B, termination: &mut T) -> (r: SatisfactionResult)
        ensures final(self).model == old(self).model,
                r matches SatisfactionResult::Satisfiable(s) ==> (old(self).model@)(s.asg@),
                r is Unsatisfiable ==> old(self).unsat(),
    { unimplemented!() }
    #[verifier::external_body]
    pub fn log_statistics_with_objective(&self, objective: i64) { unimplemented!() }
}

#[derive(Clone, Copy)]
pub enum PseudoBooleanEncoding { GeneralizedTotalizer, CardinalityNetwork }
#[derive(Clone, Copy)]
pub enum EncodingError { RootPropagationConflict, CannotStrengthen, TriviallyUnsatisfiable }

//@@SPEC contracts/pbe_defs.rs@@
// the upper-bound encoder, by contract: the text of spec/contracts/pbe_constrain.sig is PROVED for the real wrapper in
// unit pb_encoder (there `inv`, `cost`, `slack` are defined; here they are opaque)
pub struct PseudoBooleanConstraintEncoder { pub x: u8 }
impl PseudoBooleanConstraintEncoder {
    pub uninterp spec fn cost(&self, a: Asg) -> int;
    pub open spec fn cost_fn(&self) -> spec_fn(Asg) -> int { |a: Asg| self.cost(a) }
    pub uninterp spec fn inv(&self, m: Model) -> bool;
    pub uninterp spec fn slack(&self) -> nat;
    pub uninterp spec fn is_new(&self) -> bool;
    pub uninterp spec fn k_prev(&self) -> int;
    // proved in unit pb_encoder (lemma_inv_bounds)
    #[verifier::external_body]
    pub proof fn lemma_inv_bounds(&self, m: Model, a: Asg)
        requires self.inv(m), !self.is_new(), m(a)
        ensures self.cost(a) <= self.k_prev()
    { }
    // ASSUMED (from_function / new are a struct literal plus an iterator adapter): a fresh encoder for the objective
    #[verifier::external_body]
    pub fn from_function(function: &Function, solver: &mut Solver, encoding_algorithm: PseudoBooleanEncoding) -> (r: Self)
        ensures final(solver).model == old(solver).model,
                r.is_new(), r.inv(old(solver).model@),
                forall|a: Asg| #[trigger] r.cost(a) == function.cost(a),
    { unimplemented!() }

    #[verifier::external_body]
    pub fn constrain_at_most_k(&mut self, k: u64, solver: &mut Solver) -> (r: Result<(), EncodingError>)
//@@SPEC contracts/pbe_constrain.sig@@
    { unimplemented!() }
}

pub enum MaxSatOptimisationResult {
    Optimal { solution: Solution },
    Satisfiable { best_solution: Solution },
    Infeasible,
    Unknown,
}
#[derive(Clone, Copy)]
pub struct LinearSearch { pub encoding: PseudoBooleanEncoding }

//@@EXTRACT ls@@
} // verus!
fn main() {}
