//! F11 (C14): a literal terminated by '\n' left the DIMACS parser in the `Clause` state instead of `StartLine`,
//! so a comment line inside a clause was rejected although the same formula with a blank before the line break
//! is accepted.  Runs the real `pumpkin-solver` binary on both spellings.  Exit 1 = reproduced.
use std::io::Write;
use std::process::Command;

fn run(repo: &str, text: &str, name: &str) -> String {
    let path = std::env::temp_dir().join(name);
    let mut f = std::fs::File::create(&path).unwrap();
    f.write_all(text.as_bytes()).unwrap();
    let target = std::env::var("CARGO_TARGET_DIR").unwrap_or_else(|_| "/tmp/pumpkin-verif-scratch/replay-target".into());
    let out = Command::new("cargo")
        .args(["run", "--offline", "-q", "--manifest-path", &format!("{repo}/Cargo.toml"), "-p", "pumpkin-solver", "--bin", "pumpkin-solver", "--"])
        .arg(&path)
        .env("CARGO_TARGET_DIR", format!("{target}-bin"))
        .output()
        .expect("cannot run cargo");
    let so = String::from_utf8_lossy(&out.stdout).to_string();
    let se = String::from_utf8_lossy(&out.stderr).to_string();
    let verdict = so.lines().find(|l| l.starts_with("s ")).map(|l| l.to_string());
    verdict.unwrap_or_else(|| format!("no verdict (exit {:?}): {}", out.status.code(), se.lines().last().unwrap_or("")))
}

fn main() {
    let repo = std::env::var("PUMPKIN_REPO").unwrap_or_else(|_| "/repo".into());
    let a = "p cnf 3 2\n1 2\nc a comment\n3 0\n-1 0\n";
    let b = "p cnf 3 2\n1 2 \nc a comment\n3 0\n-1 0\n";
    let va = run(&repo, a, "pv_f11_a.cnf");
    let vb = run(&repo, b, "pv_f11_b.cnf");
    println!("spelling A (line break directly after the literal): {va}");
    println!("spelling B (blank before the line break)           : {vb}");
    if va != vb || !va.starts_with("s SATISFIABLE") {
        println!("REPRODUCED: equivalent spellings of the same CNF give different outcomes: A -> `{va}`, B -> `{vb}`");
        std::process::exit(1);
    }
    println!("ok: both spellings give {va}");
}
