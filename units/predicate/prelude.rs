use vstd::prelude::*;
verus! {
//@@SPEC vocab.rs@@
//@@SPEC contracts/predicate_not.rs@@

pub trait PredicateConstructor {
    type Value;
    spec fn ctor_eval(&self, a: Asg) -> int;
    spec fn as_int(v: Self::Value) -> int;
    fn lower_bound_predicate(&self, bound: Self::Value) -> (p: Predicate)
        ensures forall|a: Asg| #[trigger] pred_holds(p, a) <==> self.ctor_eval(a) >= Self::as_int(bound);   // @C17 @C02
    fn upper_bound_predicate(&self, bound: Self::Value) -> (p: Predicate)
        ensures forall|a: Asg| #[trigger] pred_holds(p, a) <==> self.ctor_eval(a) <= Self::as_int(bound);   // @C17 @C02
    fn equality_predicate(&self, bound: Self::Value) -> (p: Predicate)
        ensures forall|a: Asg| #[trigger] pred_holds(p, a) <==> self.ctor_eval(a) == Self::as_int(bound);   // @C17 @C02
    fn disequality_predicate(&self, bound: Self::Value) -> (p: Predicate)
        ensures forall|a: Asg| #[trigger] pred_holds(p, a) <==> self.ctor_eval(a) != Self::as_int(bound);   // @C17 @C02
}

// witnesses for the completeness direction of mutual exclusion
pub open spec fn const_asg(v: int) -> Asg { |i: int| v }
pub open spec fn two_asg(i1: int, v1: int, v2: int) -> Asg { |i: int| if i == i1 { v1 } else { v2 } }
pub open spec fn compatible(p: Predicate, q: Predicate) -> bool { exists|a: Asg| pred_holds(p, a) && pred_holds(q, a) }
pub open spec fn pred_dom(p: Predicate) -> int {
    match p {
        Predicate::LowerBound { domain_id, .. } => domain_id.id as int,
        Predicate::UpperBound { domain_id, .. } => domain_id.id as int,
        Predicate::NotEqual { domain_id, .. } => domain_id.id as int,
        Predicate::Equal { domain_id, .. } => domain_id.id as int,
    }
}
// a value satisfying a single predicate (always exists over the integers)
pub open spec fn sat_value(p: Predicate) -> int {
    match p {
        Predicate::LowerBound { lower_bound, .. } => lower_bound as int,
        Predicate::UpperBound { upper_bound, .. } => upper_bound as int,
        Predicate::NotEqual { not_equal_constant, .. } => not_equal_constant + 1,
        Predicate::Equal { equality_constant, .. } => equality_constant as int,
    }
}

pub open spec fn both_at(p: Predicate, q: Predicate, v: int) -> bool { pred_holds(p, const_asg(v)) && pred_holds(q, const_asg(v)) }
pub open spec fn candidate_works(p: Predicate, q: Predicate) -> bool {
    let x = sat_value(p); let y = sat_value(q);
    both_at(p, q, x) || both_at(p, q, y) || both_at(p, q, x + 1) || both_at(p, q, x - 1) || both_at(p, q, y + 1) || both_at(p, q, y - 1) || both_at(p, q, x + 2)
}
//@@EXTRACT pred_impl@@
//@@EXTRACT pred_not@@
//@@EXTRACT ctor_domain@@
} // verus!
fn main() {}
