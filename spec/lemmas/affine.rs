// Arithmetic facts about  scale * u + offset  used by the AffineView unit (proved once, broadcast there).
// Needs spec/lemmas/trunc_div.rs at the root (is_ceil_div, is_floor_div, trunc_div, trunc_rem, lemma_trunc).
pub mod affine_lemmas { use vstd::prelude::*; use super::trunc::*;

// multiplication by a non-zero scale is strictly monotone (sign-aware)
pub broadcast proof fn lemma_scale_mono(s: int, u: int, v: int)
    requires s != 0
    ensures #![trigger s * u, s * v]
        (s > 0 ==> ((u <= v) <==> (s * u <= s * v))) && (s < 0 ==> ((u <= v) <==> (s * u >= s * v))) && ((u == v) <==> (s * u == s * v))
{
    assert((s > 0 ==> ((u <= v) <==> (s * u <= s * v))) && (s < 0 ==> ((u <= v) <==> (s * u >= s * v))) && ((u == v) <==> (s * u == s * v))) by(nonlinear_arith)
        requires s != 0;
}

// u >= ceil(x / s)  <==>  s*u >= x  (s > 0)   /   s*u <= x  (s < 0)
pub broadcast proof fn lemma_ceil_iff(x: int, s: int, q: int, u: int)
    requires s != 0, is_ceil_div(x, s, q)
    ensures #![trigger is_ceil_div(x, s, q), s * u]
        (s > 0 ==> ((u >= q) <==> (s * u >= x))) && (s < 0 ==> ((u >= q) <==> (s * u <= x)))
{
    if s > 0 {
        assert((u >= q) <==> (s * u >= x)) by(nonlinear_arith) requires s > 0, (q - 1) * s < x, x <= q * s;
    } else {
        assert((u >= q) <==> (s * u <= x)) by(nonlinear_arith) requires s < 0, (q - 1) * s > x, x >= q * s;
    }
}
// u <= floor(x / s)  <==>  s*u <= x  (s > 0)   /   s*u >= x  (s < 0)
pub broadcast proof fn lemma_floor_iff(x: int, s: int, q: int, u: int)
    requires s != 0, is_floor_div(x, s, q)
    ensures #![trigger is_floor_div(x, s, q), s * u]
        (s > 0 ==> ((u <= q) <==> (s * u <= x))) && (s < 0 ==> ((u <= q) <==> (s * u >= x)))
{
    if s > 0 {
        assert((u <= q) <==> (s * u <= x)) by(nonlinear_arith) requires s > 0, q * s <= x, x < (q + 1) * s;
    } else {
        assert((u <= q) <==> (s * u >= x)) by(nonlinear_arith) requires s < 0, q * s >= x, x > (q + 1) * s;
    }
}
// when s divides x the ceiling is the exact quotient: s*u == x  <==>  u == q
pub broadcast proof fn lemma_ceil_exact(x: int, s: int, q: int, u: int)
    requires s != 0, is_ceil_div(x, s, q), s * q == x
    ensures #![trigger is_ceil_div(x, s, q), s * u] (s * u == x) <==> (u == q)
{
    assert((s * u == x) <==> (u == q)) by(nonlinear_arith) requires s != 0, s * q == x;
}
}

pub mod affine_div { use vstd::prelude::*; use super::trunc::*;
// divisibility through the truncating remainder (the machine `%`):  x % s == 0  <==>  s divides x
pub proof fn lemma_rem_zero_divides(x: int, s: int)
    requires s != 0
    ensures trunc_rem(x, s) == 0 ==> s * trunc_div(x, s) == x,
            trunc_rem(x, s) != 0 ==> forall|u: int| #![trigger s * u] s * u != x,
{
    lemma_trunc(x, s);
    let d = trunc_div(x, s);
    let m = x - d * s;
    assert(d * s == s * d) by(nonlinear_arith);
    if m != 0 {
        assert forall|u: int| #![trigger s * u] s * u != x by {
            if s * u == x {
                assert((u - d) * s == m) by(nonlinear_arith) requires s * u == x, m == x - d * s;
                assert(false) by(nonlinear_arith) requires (u - d) * s == m, m != 0, (s > 0 ==> -s < m < s), (s < 0 ==> s < m < -s), s != 0;
            }
        }
    }
}
// ceiling of an exact quotient
pub proof fn lemma_ceil_of_exact(x: int, s: int, q: int)
    requires s != 0, is_ceil_div(x, s, q), trunc_rem(x, s) == 0
    ensures s * q == x
{
    lemma_rem_zero_divides(x, s);
    let d = trunc_div(x, s);
    assert(q == d) by(nonlinear_arith) requires s != 0, s * d == x, (s > 0 ==> (q - 1) * s < x && x <= q * s), (s < 0 ==> (q - 1) * s > x && x >= q * s);
}
}
pub use affine_div::*;
