use vstd::prelude::*;
verus! {

pub type Asg = Map<int, int>;

#[derive(Clone, Copy)]
pub struct DomainId { pub id: u32 }

#[derive(Clone, Copy)]
pub enum Predicate {
    LowerBound { domain_id: DomainId, lower_bound: i32 },
    UpperBound { domain_id: DomainId, upper_bound: i32 },
    NotEqual { domain_id: DomainId, not_equal_constant: i32 },
    Equal { domain_id: DomainId, equality_constant: i32 },
}

pub open spec fn pred_holds(p: Predicate, a: Asg) -> bool {
    match p {
        Predicate::LowerBound { domain_id, lower_bound } => a[domain_id.id as int] >= lower_bound,
        Predicate::UpperBound { domain_id, upper_bound } => a[domain_id.id as int] <= upper_bound,
        Predicate::NotEqual { domain_id, not_equal_constant } => a[domain_id.id as int] != not_equal_constant,
        Predicate::Equal { domain_id, equality_constant } => a[domain_id.id as int] == equality_constant,
    }
}

pub struct PropositionalConjunction { pub predicates_in_conjunction: Vec<Predicate> }

pub open spec fn conj_holds(c: PropositionalConjunction, a: Asg) -> bool {
    forall|i: int| 0 <= i < c.predicates_in_conjunction@.len() ==> pred_holds(#[trigger] c.predicates_in_conjunction@[i], a)
}

impl PropositionalConjunction {
    pub fn from(v: Vec<Predicate>) -> (r: Self)
        ensures r.predicates_in_conjunction@ == v@
    { PropositionalConjunction { predicates_in_conjunction: v } }
}

pub assume_specification [i32::signum] (x: i32) -> (r: i32)
    ensures r == (if x > 0 { 1int } else if x < 0 { -1int } else { 0int });

pub struct EmptyDomain;
pub enum Inconsistency { Conflict(PropositionalConjunction), EmptyDomain }
pub type PropagationStatusCP = Result<(), Inconsistency>;

impl vstd::std_specs::convert::FromSpecImpl<EmptyDomain> for Inconsistency {
    open spec fn obeys_from_spec() -> bool { true }
    open spec fn from_spec(e: EmptyDomain) -> Self { Inconsistency::EmptyDomain }
}
impl From<EmptyDomain> for Inconsistency {
    fn from(e: EmptyDomain) -> (r: Self) { Inconsistency::EmptyDomain }
}
impl vstd::std_specs::convert::FromSpecImpl<PropositionalConjunction> for Inconsistency {
    open spec fn obeys_from_spec() -> bool { true }
    open spec fn from_spec(e: PropositionalConjunction) -> Self { Inconsistency::Conflict(e) }
}
impl From<PropositionalConjunction> for Inconsistency {
    fn from(e: PropositionalConjunction) -> (r: Self) { Inconsistency::Conflict(e) }
}

// Abstract solver store: the set of total assignments still allowed by the current domains.
pub struct Assignments { pub live: Ghost<Set<Asg>> }

pub trait IntegerVariable: Sized {
    spec fn eval(&self, a: Asg) -> int;

    fn lower_bound_predicate(&self, bound: i32) -> (p: Predicate)
        ensures forall|a: Asg| #[trigger] pred_holds(p, a) <==> self.eval(a) >= bound;
    fn upper_bound_predicate(&self, bound: i32) -> (p: Predicate)
        ensures forall|a: Asg| #[trigger] pred_holds(p, a) <==> self.eval(a) <= bound;
    fn equality_predicate(&self, bound: i32) -> (p: Predicate)
        ensures forall|a: Asg| #[trigger] pred_holds(p, a) <==> self.eval(a) == bound;
    fn disequality_predicate(&self, bound: i32) -> (p: Predicate)
        ensures forall|a: Asg| #[trigger] pred_holds(p, a) <==> self.eval(a) != bound;
}

pub struct PropagationContextMut<'a> {
    pub assignments: &'a mut Assignments,
    pub constraint: Ghost<spec_fn(Asg) -> bool>,
}

pub open spec fn entails(live: Set<Asg>, c: PropositionalConjunction) -> bool {
    forall|a: Asg| #[trigger] live.contains(a) ==> conj_holds(c, a)
}

impl<'a> PropagationContextMut<'a> {
    pub open spec fn live(&self) -> Set<Asg> { self.assignments.live@ }

    #[verifier::external_body]
    pub fn lower_bound<V: IntegerVariable>(&self, var: &V) -> (r: i32)
        ensures forall|a: Asg| self.live().contains(a) ==> #[trigger] var.eval(a) >= r,
                // the bound is attained unless the store is empty
                self.live() !== Set::empty() ==> exists|a: Asg| self.live().contains(a) && var.eval(a) == r,
    { unimplemented!() }

    #[verifier::external_body]
    pub fn upper_bound<V: IntegerVariable>(&self, var: &V) -> (r: i32)
        ensures forall|a: Asg| self.live().contains(a) ==> #[trigger] var.eval(a) <= r,
                self.live() !== Set::empty() ==> exists|a: Asg| self.live().contains(a) && var.eval(a) == r,
    { unimplemented!() }

    #[verifier::external_body]
    pub fn is_fixed<V: IntegerVariable>(&self, var: &V) -> (r: bool)
        ensures r ==> forall|a: Asg, b: Asg| self.live().contains(a) && self.live().contains(b) ==> var.eval(a) == var.eval(b)
    { unimplemented!() }


    #[verifier::external_body]
    pub fn set_lower_bound_core<V: IntegerVariable>(&mut self, var: &V, bound: i32, reason: PropositionalConjunction) -> (r: Result<(), EmptyDomain>)
        ensures
            final(self).constraint == old(self).constraint,
            forall|x: Asg| #[trigger] final(self).assignments.live@.contains(x) <==> (old(self).assignments.live@.contains(x) && var.eval(x) >= bound),
            *final(final(self).assignments) == *final(old(self).assignments),
            r is Err <==> (forall|x: Asg| !final(self).assignments.live@.contains(x)),
    { unimplemented!() }

    pub fn set_lower_bound<V: IntegerVariable>(&mut self, var: &V, bound: i32, reason: PropositionalConjunction) -> (r: Result<(), EmptyDomain>)
        requires
            entails(old(self).assignments.live@, reason),
            forall|a: Asg| #![trigger conj_holds(reason, a)] (old(self).constraint@)(a) && conj_holds(reason, a) ==> var.eval(a) >= bound,
        ensures
            final(self).constraint == old(self).constraint,
            forall|x: Asg| #[trigger] final(self).assignments.live@.contains(x) <==> (old(self).assignments.live@.contains(x) && var.eval(x) >= bound),
            *final(final(self).assignments) == *final(old(self).assignments),
            r is Err <==> (forall|x: Asg| !final(self).assignments.live@.contains(x)),
            // derived: sound pruning
            forall|x: Asg| #![trigger old(self).assignments.live@.contains(x)] old(self).assignments.live@.contains(x) && (old(self).constraint@)(x) ==> final(self).assignments.live@.contains(x),
    {
        self.set_lower_bound_core(var, bound, reason)
    }

    #[verifier::external_body]
    pub fn set_upper_bound_core<V: IntegerVariable>(&mut self, var: &V, bound: i32, reason: PropositionalConjunction) -> (r: Result<(), EmptyDomain>)
        ensures
            final(self).constraint == old(self).constraint,
            forall|x: Asg| #[trigger] final(self).assignments.live@.contains(x) <==> (old(self).assignments.live@.contains(x) && var.eval(x) <= bound),
            *final(final(self).assignments) == *final(old(self).assignments),
            r is Err <==> (forall|x: Asg| !final(self).assignments.live@.contains(x)),
    { unimplemented!() }

    pub fn set_upper_bound<V: IntegerVariable>(&mut self, var: &V, bound: i32, reason: PropositionalConjunction) -> (r: Result<(), EmptyDomain>)
        requires
            entails(old(self).assignments.live@, reason),
            forall|a: Asg| #![trigger conj_holds(reason, a)] (old(self).constraint@)(a) && conj_holds(reason, a) ==> var.eval(a) <= bound,
        ensures
            final(self).constraint == old(self).constraint,
            forall|x: Asg| #[trigger] final(self).assignments.live@.contains(x) <==> (old(self).assignments.live@.contains(x) && var.eval(x) <= bound),
            *final(final(self).assignments) == *final(old(self).assignments),
            r is Err <==> (forall|x: Asg| !final(self).assignments.live@.contains(x)),
            forall|x: Asg| #![trigger old(self).assignments.live@.contains(x)] old(self).assignments.live@.contains(x) && (old(self).constraint@)(x) ==> final(self).assignments.live@.contains(x),
    {
        self.set_upper_bound_core(var, bound, reason)
    }
}

} // verus!

macro_rules! predicate {
    ($($var:ident).+$([$index:expr])? >= $bound:expr) => {{
        $($var).+$([$index])?.lower_bound_predicate($bound)
    }};
    ($($var:ident).+$([$index:expr])? <= $bound:expr) => {{
        $($var).+$([$index])?.upper_bound_predicate($bound)
    }};
    ($($var:ident).+$([$index:expr])? == $value:expr) => {{
        $($var).+$([$index])?.equality_predicate($value)
    }};
    ($($var:ident).+$([$index:expr])? != $value:expr) => {{
        $($var).+$([$index])?.disequality_predicate($value)
    }};
}
macro_rules! conjunction {
    (@to_conjunction $($body:tt)*) => {
        PropositionalConjunction::from($($body)*)
    };
    (@munch {$($body:tt)*} -> & [$($pred:tt)+] $($rest:tt)*) => {
        conjunction!(@munch {predicate![$($pred)+], $($body)*} -> $($rest)*)
    };
    (@munch {$($body:tt)*} -> ) => {
        conjunction!(@to_conjunction vec![$($body)*])
    };
    (@munch {$($body:tt)*} -> $($rest:tt)+) => {
        compile_error!("Incorrect usage of the macro")
    };
    ($($input:tt)+) => {
        conjunction!(@munch {} -> & $($input)*)
    };
    () => {
        conjunction!(@to_conjunction vec![])
    };
}
macro_rules! pumpkin_assert_simple { ($cond:expr $(, $($arg:tt)*)?) => { assert!($cond) } }

verus! {
pub mod lemmas { use vstd::prelude::*;

pub broadcast proof fn lemma_mul_upper(x: int, y: int, xm: int, ym: int)
    requires 0 <= x <= xm, 0 <= y <= ym
    ensures #![trigger x * y, xm * ym] x * y <= xm * ym
{
    assert(x * y <= xm * ym) by(nonlinear_arith) requires 0 <= x <= xm, 0 <= y <= ym;
}
pub broadcast proof fn lemma_mul_lower(x: int, y: int, xm: int, ym: int)
    requires 0 <= xm <= x, 0 <= ym <= y
    ensures #![trigger x * y, xm * ym] x * y >= xm * ym
{
    assert(x * y >= xm * ym) by(nonlinear_arith) requires 0 <= xm <= x, 0 <= ym <= y;
}

pub broadcast proof fn lemma_divmod_pos(n: int, d: int)
    requires d > 0, n >= 0
    ensures #![trigger n / d] n == d * (n / d) + n % d && 0 <= n % d < d && n / d >= 0
{
    vstd::arithmetic::div_mod::lemma_fundamental_div_mod(n, d);
    vstd::arithmetic::div_mod::lemma_mod_bound(n, d);
    vstd::arithmetic::div_mod::lemma_div_pos_is_pos(n, d);
}
// x*y <= c, y >= ym >= 1, x >= 0  ==>  x <= c / ym
pub broadcast proof fn lemma_div_upper(x: int, y: int, c: int, ym: int)
    requires x * y <= c, y >= ym, ym >= 1, c >= 0
    ensures #![trigger x * y, c / ym] x <= c / ym
{
    lemma_divmod_pos(c, ym);
    if x > c / ym {
        assert(x >= c / ym + 1);
        assert(x * y >= (c / ym + 1) * ym) by(nonlinear_arith) requires x >= c / ym + 1, y >= ym, ym >= 1, c / ym >= 0;
        assert((c / ym + 1) * ym == ym * (c / ym) + ym) by(nonlinear_arith);
    }
}
pub broadcast proof fn lemma_mul_sign(x: int, y: int)
    ensures
        #![trigger x * y]
        (x >= 0 && y >= 0 ==> x * y >= 0),
        (x <= 0 && y <= 0 ==> x * y >= 0),
        (x >= 0 && y <= 0 ==> x * y <= 0),
        (x <= 0 && y >= 0 ==> x * y <= 0),
        (x >= 1 && y >= 1 ==> x * y >= 1),
        (x <= -1 && y <= -1 ==> x * y >= 1),
        (x >= 1 && y <= -1 ==> x * y <= -1),
        (x <= -1 && y >= 1 ==> x * y <= -1),
        (x == 0 || y == 0 ==> x * y == 0),
{
    assert((x >= 0 && y >= 0 ==> x * y >= 0) && (x <= 0 && y <= 0 ==> x * y >= 0) && (x >= 0 && y <= 0 ==> x * y <= 0) && (x <= 0 && y >= 0 ==> x * y <= 0)
      && (x >= 1 && y >= 1 ==> x * y >= 1) && (x <= -1 && y <= -1 ==> x * y >= 1) && (x >= 1 && y <= -1 ==> x * y <= -1) && (x <= -1 && y >= 1 ==> x * y <= -1) && (x == 0 || y == 0 ==> x * y == 0)) by(nonlinear_arith);
}
}
broadcast use {lemmas::lemma_mul_sign, lemmas::lemma_mul_upper, lemmas::lemma_mul_lower, lemmas::lemma_divmod_pos, lemmas::lemma_div_upper};
fn propagate_signs<VA: IntegerVariable, VB: IntegerVariable, VC: IntegerVariable>(
    context: &mut PropagationContextMut,
    a: &VA,
    b: &VB,
    c: &VC,
) -> (r: PropagationStatusCP) 
    requires
        forall|x: Asg| (old(context).constraint@)(x) ==> a.eval(x) * b.eval(x) == c.eval(x),
    ensures
        final(context).constraint == old(context).constraint,
        *final(final(context).assignments) == *final(old(context).assignments),
        forall|x: Asg| final(context).assignments.live@.contains(x) ==> old(context).assignments.live@.contains(x),
        forall|x: Asg| old(context).assignments.live@.contains(x) && (old(context).constraint@)(x) ==> final(context).assignments.live@.contains(x),
        r is Err ==> forall|x: Asg| old(context).assignments.live@.contains(x) ==> !(old(context).constraint@)(x),
{
    let a_min = context.lower_bound(a);
    let a_max = context.upper_bound(a);
    let b_min = context.lower_bound(b);
    let b_max = context.upper_bound(b);
    let c_min = context.lower_bound(c);
    let c_max = context.upper_bound(c);

    // Propagating based on positive bounds
    // a is positive and b is positive -> c is positive
    if a_min >= 0 && b_min >= 0 {
        context.set_lower_bound(c, 0, conjunction!([a >= 0] & [b >= 0]))?;
    }

    // a is positive and c is positive -> b is positive
    if a_min >= 1 && c_min >= 1 {
        context.set_lower_bound(b, 1, conjunction!([a >= 1] & [c >= 1]))?;
    }

    // b is positive and c is positive -> a is positive
    if b_min >= 1 && c_min >= 1 {
        context.set_lower_bound(a, 1, conjunction!([b >= 1] & [c >= 1]))?;
    }

    // Propagating based on negative bounds
    // a is negative and b is negative -> c is positive
    if a_max <= 0 && b_max <= 0 {
        context.set_lower_bound(c, 0, conjunction!([a <= 0] & [b <= 0]))?;
    }

    // a is negative and c is negative -> b is positive
    if a_max <= -1 && c_max <= -1 {
        context.set_lower_bound(b, 1, conjunction!([a <= -1] & [c <= -1]))?;
    }

    // b is negative and c is negative -> a is positive
    if b_max <= -1 && c_max <= -1 {
        context.set_lower_bound(a, 1, conjunction!([b <= -1] & [c <= -1]))?;
    }

    // Propagating based on mixed bounds (i.e. one positive and one negative)
    // Propagating c based on a and b
    // a is negative and b is positive -> c is negative
    if a_max <= 0 && b_min >= 0 {
        context.set_upper_bound(c, 0, conjunction!([a <= 0] & [b >= 0]))?;
    }

    // a is positive and b is negative -> c is negative
    if a_min >= 0 && b_max <= 0 {
        context.set_upper_bound(c, 0, conjunction!([a >= 0] & [b <= 0]))?;
    }

    // Propagating b based on a and c
    // a is negative and c is positive -> b is negative
    if a_max <= -1 && c_min >= 1 {
        context.set_upper_bound(b, -1, conjunction!([a <= -1] & [c >= 1]))?;
    }

    // a is positive and c is negative -> b is negative
    if a_min >= 1 && c_max <= -1 {
        context.set_upper_bound(b, -1, conjunction!([a >= 1] & [c <= -1]))?;
    }

    // Propagating a based on b and c
    // b is negative and c is positive -> a is negative
    if b_max <= -1 && c_min >= 1 {
        context.set_upper_bound(a, -1, conjunction!([b <= -1] & [c >= 1]))?;
    }

    // b is positive and c is negative -> a is negative
    if b_min >= 1 && c_max <= -1 {
        context.set_upper_bound(a, -1, conjunction!([b >= 1] & [c <= -1]))?;
    }

    Ok(())
}

impl<'a> PropagationContextMut<'a> {
    pub open spec fn is_all_fixed3<A: IntegerVariable, B: IntegerVariable, C: IntegerVariable>(&self, a: &A, b: &B, c: &C) -> bool {
        forall|x: Asg, y: Asg| self.live().contains(x) && self.live().contains(y) ==> a.eval(x) == a.eval(y) && b.eval(x) == b.eval(y) && c.eval(x) == c.eval(y)
    }
}
fn perform_propagation<VA: IntegerVariable, VB: IntegerVariable, VC: IntegerVariable>(
    mut context: PropagationContextMut,
    a: &VA,
    b: &VB,
    c: &VC,
) -> (r: PropagationStatusCP) 
    requires
        forall|x: Asg| (context.constraint@)(x) ==> a.eval(x) * b.eval(x) == c.eval(x),
    ensures
        forall|x: Asg| final(context.assignments).live@.contains(x) ==> old(context.assignments).live@.contains(x),
        forall|x: Asg| old(context.assignments).live@.contains(x) && (context.constraint@)(x) ==> final(context.assignments).live@.contains(x),
        r is Err ==> forall|x: Asg| old(context.assignments).live@.contains(x) ==> !(context.constraint@)(x),
        // checker completeness: a fully fixed, violating state is rejected
        (forall|x: Asg| old(context.assignments).live@.contains(x) ==> a.eval(x) * b.eval(x) != c.eval(x)) && context.is_all_fixed3(a, b, c) ==> r is Err,
{
    // First we propagate the signs
    propagate_signs(&mut context, a, b, c)?;

    let a_min = context.lower_bound(a);
    let a_max = context.upper_bound(a);
    let b_min = context.lower_bound(b);
    let b_max = context.upper_bound(b);
    let c_min = context.lower_bound(c);
    let c_max = context.upper_bound(c);

    if a_min >= 0 && b_min >= 0 {
        let new_max_c = a_max * b_max;
        let new_min_c = a_min * b_min;

        // c is smaller than the maximum value that a * b can take
        //
        // We need the lower-bounds in the explanation as well because the reasoning does not
        // hold in the case of a negative lower-bound
        context.set_upper_bound(
            c,
            new_max_c,
            conjunction!([a >= 0] & [a <= a_max] & [b >= 0] & [b <= b_max]),
        )?;

        // c is larger than the minimum value that a * b can take
        context.set_lower_bound(c, new_min_c, conjunction!([a >= a_min] & [b >= b_min]))?;
    }

    if b_min >= 0 && b_max >= 1 && c_min >= 1 {
        // a >= ceil(c.min / b.max)
        let bound = div_ceil_pos(c_min, b_max);
        context.set_lower_bound(
            a,
            bound,
            conjunction!([c >= c_min] & [b >= 0] & [b <= b_max]),
        )?;
    }

    if b_min >= 1 && c_min >= 0 && c_max >= 1 {
        // a <= floor(c.max / b.min)
        let bound = c_max / b_min;
        context.set_upper_bound(
            a,
            bound,
            conjunction!([c >= 0] & [c <= c_max] & [b >= b_min]),
        )?;
    }

    if a_min >= 1 && c_min >= 0 && c_max >= 1 {
        // b <= floor(c.max / a.min)
        let bound = c_max / a_min;
        context.set_upper_bound(
            b,
            bound,
            conjunction!([c >= 0] & [c <= c_max] & [a >= a_min]),
        )?;
    }

    // b >= ceil(c.min / a.max)
    if a_min >= 0 && a_max >= 1 && c_min >= 1 {
        let bound = div_ceil_pos(c_min, a_max);

        context.set_lower_bound(
            b,
            bound,
            conjunction!([c >= c_min] & [a >= 0] & [a <= a_max]),
        )?;
    }

    if context.is_fixed(a)
        && context.is_fixed(b)
        && context.is_fixed(c)
        && (context.lower_bound(a) * context.lower_bound(b)) != context.lower_bound(c)
    {
        // All variables are assigned but the resulting value is not correct, so we report a
        // conflict
        return Err(conjunction!(
            [a == context.lower_bound(a)]
                & [b == context.lower_bound(b)]
                & [c == context.lower_bound(c)]
        )
        .into());
    }

    Ok(())
}
fn div_ceil_pos(numerator: i32, denominator: i32) -> (r: i32) 
    requires numerator > 0, denominator > 0
    ensures r * denominator >= numerator, (r - 1) * denominator < numerator
{
    pumpkin_assert_simple!(numerator > 0 && denominator > 0, "Either the numerator {numerator} was non-positive or the denominator {denominator} was non-positive");
    numerator / denominator + (numerator % denominator).signum()
}
}
fn main(){}
