#![feature(allocator_api)]
use vstd::prelude::*;
//@@SPEC macros.rs@@
verus! {
pub trait IntegerVariable: Sized {}
pub struct Assignments { pub live: Ghost<int> }
// reads are deterministic: the same store and the same variable give the same bound
pub uninterp spec fn store_lb<V: IntegerVariable>(live: int, var: &V) -> int;
#[derive(Clone, Copy)]
pub struct TrailedInt { pub id: u32 }
// TrailedAssignments: the current value of every trailed integer
pub struct TrailedAssignments { pub vals: Ghost<Map<int, int>> }
pub struct StatefulPropagationContext<'a> { pub stateful_assignments: &'a mut TrailedAssignments, pub assignments: &'a Assignments }
impl<'a> StatefulPropagationContext<'a> {
    pub open spec fn val(&self, t: TrailedInt) -> int { self.stateful_assignments.vals@[t.id as int] }
    #[verifier::external_body]
    pub fn value(&self, t: TrailedInt) -> (r: i64) ensures r == self.val(t) { unimplemented!() }
    #[verifier::external_body]
    pub fn add_assign(&mut self, t: TrailedInt, addition: i64)
        requires i64::MIN <= old(self).val(t) + addition <= i64::MAX      // the i64 addition of TrailedAssignments::add_assign
        ensures final(self).stateful_assignments.vals@ == old(self).stateful_assignments.vals@.insert(t.id as int, old(self).val(t) + addition),
                final(self).assignments == old(self).assignments,
                *final(final(self).stateful_assignments) == *final(old(self).stateful_assignments),
    { unimplemented!() }
    #[verifier::external_body]
    pub fn assign(&mut self, t: TrailedInt, value: i64)
        ensures final(self).stateful_assignments.vals@ == old(self).stateful_assignments.vals@.insert(t.id as int, value as int),
                final(self).assignments == old(self).assignments,
                *final(final(self).stateful_assignments) == *final(old(self).stateful_assignments),
    { unimplemented!() }
    #[verifier::external_body]
    pub fn lower_bound<V: IntegerVariable>(&self, var: &V) -> (r: i32) ensures r == store_lb(self.assignments.live@, var) { unimplemented!() }
}
#[derive(Clone, Copy)]
pub struct LocalId { pub v: u32 }
impl LocalId { pub fn unpack(self) -> (r: u32) ensures r == self.v { self.v } }
pub struct OpaqueDomainEvent { pub e: u8 }
pub enum EnqueueDecision { Enqueue, Skip }
//@@EXTRACT s_prop@@
// sum of the recorded bounds
pub open spec fn sum_tr(vals: Map<int, int>, cbs: Seq<TrailedInt>) -> int
    decreases cbs.len()
{ if cbs.len() == 0 { 0 } else { sum_tr(vals, cbs.drop_last()) + vals[cbs.last().id as int] } }
pub open spec fn distinct_ids(lhs: TrailedInt, cbs: Seq<TrailedInt>) -> bool {
    &&& forall|i: int| #![trigger cbs[i]] 0 <= i < cbs.len() ==> cbs[i].id != lhs.id
    &&& forall|i: int, j: int| #![trigger cbs[i], cbs[j]] 0 <= i < j < cbs.len() ==> cbs[i].id != cbs[j].id
}
pub proof fn lemma_sum_tr_update(vals: Map<int, int>, cbs: Seq<TrailedInt>, k: int, v: int)
    requires 0 <= k < cbs.len(), forall|i: int, j: int| #![trigger cbs[i], cbs[j]] 0 <= i < j < cbs.len() ==> cbs[i].id != cbs[j].id
    ensures sum_tr(vals.insert(cbs[k].id as int, v), cbs) == sum_tr(vals, cbs) - vals[cbs[k].id as int] + v
    decreases cbs.len()
{
    let n = cbs.len() - 1;
    let vals2 = vals.insert(cbs[k].id as int, v);
    if k == n {
        lemma_sum_tr_frame(vals, cbs.drop_last(), cbs[k].id as int, v);
    } else {
        assert(cbs.drop_last()[k] == cbs[k]);
        assert forall|i: int, j: int| #![trigger cbs.drop_last()[i], cbs.drop_last()[j]] 0 <= i < j < cbs.drop_last().len() implies cbs.drop_last()[i].id != cbs.drop_last()[j].id by {
            assert(cbs.drop_last()[i] == cbs[i]); assert(cbs.drop_last()[j] == cbs[j]);
        }
        lemma_sum_tr_update(vals, cbs.drop_last(), k, v);
        assert(cbs[k].id != cbs[n].id);
    }
}
pub proof fn lemma_sum_tr_frame(vals: Map<int, int>, cbs: Seq<TrailedInt>, id: int, v: int)
    requires forall|i: int| #![trigger cbs[i]] 0 <= i < cbs.len() ==> cbs[i].id as int != id
    ensures sum_tr(vals.insert(id, v), cbs) == sum_tr(vals, cbs)
    decreases cbs.len()
{
    if cbs.len() > 0 {
        assert forall|i: int| #![trigger cbs.drop_last()[i]] 0 <= i < cbs.drop_last().len() implies cbs.drop_last()[i].id as int != id by { assert(cbs.drop_last()[i] == cbs[i]); }
        lemma_sum_tr_frame(vals, cbs.drop_last(), id, v);
        assert(cbs.last() == cbs[cbs.len() - 1]);
    }
}
impl<Var: IntegerVariable> LinearLessOrEqualPropagator<Var> {
//@@EXTRACT lin@@
}
} // verus!
fn main() {}
