use vstd::prelude::*;
//@@SPEC macros.rs@@
verus! {
//@@SPEC vocab.rs@@
//@@SPEC contracts/integer_variable_consumer.rs@@
//@@SPEC api_prelude.rs@@

pub enum SatisfactionResult { Satisfiable(Solution), Unsatisfiable, Unknown }
use SatisfactionResult::Satisfiable;
use SatisfactionResult::Unknown;
use SatisfactionResult::Unsatisfiable;

pub struct UnsatisfiableUnderAssumptions<'solver, 'brancher, B: Brancher> {
    pub solver: &'solver mut ConstraintSatisfactionSolver,
    pub brancher: &'brancher mut B,
}
impl<'solver, 'brancher, B: Brancher> UnsatisfiableUnderAssumptions<'solver, 'brancher, B> {
    pub fn new(solver: &'solver mut ConstraintSatisfactionSolver, brancher: &'brancher mut B) -> (r: Self)
        requires old(solver).state.phase@ is InfeasibleUnderAssumptions    // @C05 @C10 the guard is only built in that state
        ensures *r.solver == *old(solver), *final(r.solver) == *final(solver),
    { UnsatisfiableUnderAssumptions { solver, brancher } }

//@@EXTRACT unsat_guard@@
}

pub enum SatisfactionResultUnderAssumptions<'solver, 'brancher, B: Brancher> {
    Satisfiable(Solution),
    UnsatisfiableUnderAssumptions(UnsatisfiableUnderAssumptions<'solver, 'brancher, B>),
    Unsatisfiable,
    Unknown,
}

pub struct Solver { pub satisfaction_solver: ConstraintSatisfactionSolver }

impl Solver {
//@@EXTRACT solver_solve@@
}
impl Solver {
    // real text: `self.satisfaction_solver.add_clause(clause)` (pure forwarder)
    pub fn add_clause<I: ClauseLike>(&mut self, clause: I) -> (r: Result<(), ConstraintOperationError>)
        requires old(self).satisfaction_solver.ready(),
        ensures final(self).satisfaction_solver.ready(),
                forall|a: Asg| #![trigger (final(self).satisfaction_solver.model@)(a)] #![trigger (old(self).satisfaction_solver.model@)(a)] (final(self).satisfaction_solver.model@)(a) <==> ((old(self).satisfaction_solver.model@)(a) && clause_holds(clause.preds(), a)),
                r is Err ==> final(self).satisfaction_solver.unsat(),
                old(self).satisfaction_solver.state.phase@ is RootInfeasible ==> r is Err,
    { self.satisfaction_solver.add_clause(clause) }
}

// blocking clause of a solution: ASSUMED by contract (map/collect over the solution's domains)
pub uninterp spec fn same_on_domains(s: Asg, a: Asg) -> bool;
#[verifier::external_body]
pub proof fn axiom_same_refl(s: Asg) ensures same_on_domains(s, s) { }
#[verifier::external_body]
fn get_blocking_clause(solution: &Solution) -> (r: Vec<Predicate>)
    ensures forall|a: Asg| #[trigger] clause_holds(r@, a) <==> !same_on_domains(solution.asg@, a)
{ unimplemented!() }

pub struct SolutionIterator<'solver, 'brancher, 'termination, B, T> {
    pub solver: &'solver mut Solver,
    pub brancher: &'brancher mut B,
    pub termination: &'termination mut T,
    pub next_blocking_clause: Option<Vec<Predicate>>,
    pub has_solution: bool,
}
pub enum IteratedSolution<'a, B> {
    Solution(Solution, &'a Solver, &'a B),
    Finished,
    Unknown,
    Unsatisfiable,
}
// what the iterator still has to enumerate: the model minus everything blocked so far
pub open spec fn pending(c: Option<Vec<Predicate>>, a: Asg) -> bool {
    match c { None => true, Some(v) => clause_holds(v@, a) }
}

//@@EXTRACT iter@@

} // verus!
fn main() {}
