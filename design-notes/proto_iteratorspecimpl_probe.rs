use vstd::prelude::*;
verus! {
pub struct BTreeSet<T> { pub elems: Vec<T> }
pub struct SetIter<'a, T> { pub s: &'a Vec<T>, pub pos: usize }
impl<T> BTreeSet<T> {
    pub fn iter(&self) -> (r: SetIter<'_, T>) ensures r.s@ == self.elems@, r.pos == 0 { SetIter { s: &self.elems, pos: 0 } }
}
impl<'a, T> vstd::std_specs::iter::IteratorSpecImpl for SetIter<'a, T> {
    open spec fn obeys_prophetic_iter_laws(&self) -> bool { false }
}
impl<'a, T> Iterator for SetIter<'a, T> {
    type Item = &'a T;
    fn next(&mut self) -> (r: Option<&'a T>)
    {
        if self.pos < self.s.len() { let r = &self.s[self.pos]; self.pos = self.pos + 1; Some(r) } else { None }
    }
}
}
fn main(){}
