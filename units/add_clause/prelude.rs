#![feature(allocator_api)]
use vstd::prelude::*;
//@@SPEC macros.rs@@
verus! {
//@@SPEC vocab.rs@@
//@@SPEC contracts/predicate_not.rs@@
impl std::ops::Not for Predicate {
    type Output = Predicate;
    #[verifier::external_body]
    fn not(self) -> (r: Predicate) { unimplemented!() }    // contract: spec/contracts/predicate_not.rs, proved in unit `predicate`
}
#[derive(Clone, Copy)]
pub enum ConstraintOperationError { InfeasiblePropagator, InfeasibleClause, InfeasibleNogood, InfeasibleState }
pub enum StoredConflictInfo { RootLevelConflict(ConstraintOperationError), Other }
// `inconsistent` = conflicting, infeasible or infeasible under assumptions; `infeasible` is one of the three ways
pub struct CSPSolverState { pub inconsistent: bool, pub infeasible: bool }
impl CSPSolverState {
    #[verifier::external_body]
    pub fn is_inconsistent(&self) -> (r: bool) ensures r == self.inconsistent { unimplemented!() }
    #[verifier::external_body]
    pub fn is_infeasible(&self) -> (r: bool) ensures r == self.infeasible { unimplemented!() }
    #[verifier::external_body]
    pub fn is_conflicting(&self) -> (r: bool) ensures r ==> self.inconsistent, self.inconsistent && !self.infeasible ==> r || self.infeasible_under_assumptions() { unimplemented!() }
    pub uninterp spec fn infeasible_under_assumptions(&self) -> bool;
    #[verifier::external_body]
    pub fn declare_conflict(&mut self, info: StoredConflictInfo) ensures final(self).inconsistent { unimplemented!() }
}
// A-DUMMY / A-RANGE
pub open spec fn asg_ok(a: Asg) -> bool { a(0) == 1 && forall|i: int| i32::MIN <= #[trigger] a(i) <= i32::MAX }
pub uninterp spec fn root_falsified(state: int, p: Predicate) -> bool;
impl Assignments {
    #[verifier::external_body]
    pub fn is_predicate_falsified(&self, predicate: Predicate) -> (r: bool) ensures r == root_falsified(self.state@, predicate) { unimplemented!() }
}
pub struct PropagatorStore { pub x: u8 }
// the proof log, as far as this unit goes: how many empty nogoods have been written, and whether it has been concluded
pub struct ProofLog { pub empties: Ghost<nat>, pub concluded: Ghost<bool> }
pub struct VariableNames { pub x: u8 }
impl ProofLog {
    #[verifier::external_body]
    pub fn log_learned_clause<const N: usize>(&mut self, literals: [Predicate; N], variable_names: &VariableNames) -> (r: Result<u64, ()>)
        ensures final(self).concluded == old(self).concluded, final(self).empties@ == old(self).empties@ + (if N == 0 { 1nat } else { 0nat })
    { unimplemented!() }
}
pub struct ReasonStore { pub x: u8 }
pub struct StepIds { pub x: u8 }
pub struct InternalParameters { pub proof_log: ProofLog }
pub struct FinalizingContext<'a> {
    pub conflict: PropositionalConjunction,
    pub propagators: &'a mut PropagatorStore,
    pub proof_log: &'a mut ProofLog,
    pub unit_nogood_step_ids: &'a StepIds,
    pub assignments: &'a Assignments,
    pub reason_store: &'a mut ReasonStore,
}
#[verifier::external_body]
pub fn finalize_proof(context: FinalizingContext<'_>)
    ensures *final(context.propagators) == *old(context.propagators), *final(context.proof_log) == *old(context.proof_log), *final(context.reason_store) == *old(context.reason_store)
{ unimplemented!() }
pub struct ConstraintSatisfactionSolver {
    pub state: CSPSolverState,
    pub assignments: Assignments,
    pub propagators: PropagatorStore,
    pub internal_parameters: InternalParameters,
    pub unit_nogood_step_ids: StepIds,
    pub reason_store: ReasonStore,
    pub variable_names: VariableNames,
    pub level: usize,
    // ghost: everything posted so far
    pub model: Ghost<Model>,
}
impl ConstraintSatisfactionSolver {
    pub open spec fn inv(&self) -> bool {
        &&& forall|a: Asg| #![trigger (self.model@)(a)] (self.model@)(a) ==> asg_ok(a)
        // root facts follow from the model
        &&& forall|p: Predicate, a: Asg| #![trigger root_falsified(self.assignments.state@, p), (self.model@)(a)] root_falsified(self.assignments.state@, p) && (self.model@)(a) ==> !pred_holds(p, a)
        &&& (self.state.inconsistent ==> forall|a: Asg| #![trigger (self.model@)(a)] !(self.model@)(a))
        &&& (self.state.infeasible ==> self.state.inconsistent)
    }
    // what the solver stands for: the posted model, or nothing once it is inconsistent
    pub open spec fn sem(&self, a: Asg) -> bool { (self.model@)(a) && !self.state.inconsistent }
    #[verifier::external_body]
    pub fn get_decision_level(&self) -> (r: usize) ensures r == self.level { unimplemented!() }
    // the nogood propagator: the conjunction is excluded from the model; an error means that nothing is left
    #[verifier::external_body]
    pub fn add_nogood(&mut self, nogood: Vec<Predicate>) -> (r: Result<(), ConstraintOperationError>)
        requires old(self).inv(), old(self).level == 0
        ensures final(self).level == 0, final(self).state == old(self).state,
                forall|a: Asg| #![trigger (final(self).model@)(a)] (final(self).model@)(a) <==> ((old(self).model@)(a) && !seq_holds(nogood@, a)),
                r is Err ==> forall|a: Asg| #![trigger (final(self).model@)(a)] !(final(self).model@)(a),
                r is Ok ==> final(self).inv(),
                // complete_proof: the conflict is finalised and the empty nogood written; the proof is not concluded
                final(self).internal_parameters.proof_log.concluded == old(self).internal_parameters.proof_log.concluded,
                r is Err ==> final(self).internal_parameters.proof_log.empties@ == old(self).internal_parameters.proof_log.empties@ + 1,
                r is Ok ==> final(self).internal_parameters.proof_log.empties == old(self).internal_parameters.proof_log.empties,
    { unimplemented!() }
    #[verifier::external_body]
    pub fn conclude_proof_unsat(&mut self) -> (r: Result<(), ()>)
        ensures final(self).state == old(self).state, final(self).assignments == old(self).assignments, final(self).model == old(self).model, final(self).level == old(self).level,
                final(self).propagators == old(self).propagators, final(self).unit_nogood_step_ids == old(self).unit_nogood_step_ids, final(self).reason_store == old(self).reason_store, final(self).variable_names == old(self).variable_names,
                final(self).internal_parameters.proof_log.empties == old(self).internal_parameters.proof_log.empties, final(self).internal_parameters.proof_log.concluded@,
    { unimplemented!() }
//@@EXTRACT csp@@
}
} // verus!
fn main() {}
