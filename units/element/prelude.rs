#![feature(allocator_api)]
use vstd::prelude::*;
//@@SPEC macros.rs@@
//@@EXTRACT macro_predicate@@
//@@EXTRACT macro_conjunction@@
verus! {
//@@SPEC vocab.rs@@
//@@SPEC std_saturating.rs@@
//@@SPEC std_minmax.rs@@
//@@SPEC contracts/integer_variable_consumer.rs@@
//@@SPEC prop_ctx.rs@@
broadcast use {conv_axioms::axiom_from_empty_domain, seq_lemmas::lemma_seq_holds_push};

// A-VIEWRANGE
#[verifier::external_body]
pub proof fn axiom_eval_in_i32<V: IntegerVariable>(v: &V, a: Asg)
    ensures i32::MIN <= v.eval(a) <= i32::MAX {}
// A-READS
#[verifier::external_body]
pub proof fn lemma_bounds<V: IntegerVariable>(live: Live, v: &V, a: Asg)
    requires live(a) ensures v.eval(a) >= store_lb(live, v), v.eval(a) <= store_ub(live, v) {}
// A-READS for membership: a value the store reports outside the domain is taken by no live assignment; the store only shrinks
#[verifier::external_body]
pub proof fn lemma_not_contained<V: IntegerVariable>(live: Live, v: &V, i: int, a: Asg)
    requires !dom_contains(live, v, i), live(a) ensures v.eval(a) != i {}
#[verifier::external_body]
pub proof fn lemma_contained_mono<V: IntegerVariable>(l0: Live, l1: Live, v: &V, i: int)
    requires dom_contains(l1, v, i), forall|a: Asg| #![trigger l1(a)] l1(a) ==> l0(a) ensures dom_contains(l0, v, i) {}
pub open spec fn witnessed<V: IntegerVariable>(live: Live, var: &V, v: int) -> bool { exists|a: Asg| #![trigger live(a)] live(a) && var.eval(a) == v }
impl<'a> PropagationContextMut<'a> {
    // ReadDomains::iterate_domain, evaluated once: the values of the variable's domain (each is taken in some live assignment)
    #[verifier::external_body]
    pub fn iterate_domain<V: IntegerVariable>(&self, var: &V) -> (r: Vec<i32>)
        ensures forall|k: int| #![trigger r@[k]] 0 <= k < r@.len() ==> witnessed(self.live(), var, r@[k] as int)
    { unimplemented!() }
}

//@@EXTRACT s_elem@@
// the mathematical constraint
pub open spec fn elem_holds<VX: IntegerVariable, VI: IntegerVariable, VE: IntegerVariable>(p: &ElementPropagator<VX, VI, VE>, a: Asg) -> bool {
    0 <= p.index.eval(a) < p.array@.len() && p.array@[p.index.eval(a)].eval(a) == p.rhs.eval(a)
}
pub open spec fn index_in_array<VI: IntegerVariable>(live: Live, index: &VI, n: int) -> bool {
    forall|a: Asg| #![trigger live(a)] live(a) ==> 0 <= index.eval(a) < n
}
// a pending removal: the index value and a reason that (a) holds now and (b) together with the constraint excludes the value
pub open spec fn removal_ok<VI: IntegerVariable>(live: Live, c: Model, index: &VI, e: (i32, PropositionalConjunction)) -> bool {
    &&& forall|a: Asg| #![trigger live(a)] live(a) ==> conj_holds(e.1, a)
    &&& forall|a: Asg| #![trigger conj_holds(e.1, a)] c(a) && conj_holds(e.1, a) ==> index.eval(a) != e.0
}
pub open spec fn removals_ok<VI: IntegerVariable>(live: Live, c: Model, index: &VI, v: Vec<(i32, PropositionalConjunction)>) -> bool {
    forall|k: int| #![trigger v@[k]] 0 <= k < v@.len() ==> removal_ok(live, c, index, v@[k])
}
pub proof fn lemma_removals_shrink<VI: IntegerVariable>(l0: Live, l1: Live, c: Model, index: &VI, v: Vec<(i32, PropositionalConjunction)>)
    requires removals_ok(l0, c, index, v), prop_monotone(l0, l1)
    ensures removals_ok(l1, c, index, v)
{
    assert forall|k: int| #![trigger v@[k]] 0 <= k < v@.len() implies removal_ok(l1, c, index, v@[k]) by { assert(removal_ok(l0, c, index, v@[k])); }
}

// ---- the lazily explained bounds of the right-hand side ----
#[derive(Clone, Copy, PartialEq, Eq, Structural)]
pub enum Bound { Lower, Upper }
pub uninterp spec fn payload_bound(code: u64) -> Bound;
pub uninterp spec fn payload_value(code: u64) -> i32;
#[derive(Clone, Copy)]
pub struct RightHandSideReason { pub b: Bound, pub v: i32 }
impl RightHandSideReason {
    #[verifier::external_body]
    pub fn new() -> (r: Self) { unimplemented!() }
    #[verifier::external_body]
    pub fn with_bound(self, b: Bound) -> (r: Self) ensures r.b == b, r.v == self.v { unimplemented!() }
    #[verifier::external_body]
    pub fn with_value(self, v: i32) -> (r: Self) ensures r.v == v, r.b == self.b { unimplemented!() }
    // the bitfield round trip (bitfield_struct): what is packed is what from_bits(..).bound() / .value() give back
    #[verifier::external_body]
    pub fn into_bits(self) -> (r: u64) ensures payload_bound(r) == self.b, payload_value(r) == self.v { unimplemented!() }
}
// what the lazy explanation of a code WILL say (unit element_lazy proves that lazy_explanation says exactly this, with the domain of
// index read at the position of the propagation): it is fixed, per propagator and code, when the reason is stored
pub uninterp spec fn lazy_holds(code: u64, a: Asg) -> bool;
pub enum Reason { Eager(PropositionalConjunction), DynamicLazy(u64) }
impl ReasonLike for Reason {
    open spec fn holds(&self, a: Asg) -> bool { match self { Reason::Eager(c) => conj_holds(*c, a), Reason::DynamicLazy(code) => lazy_holds(*code, a) } }
}
pub open spec fn bound_ok<V: IntegerVariable>(x: &V, code: u64, a: Asg) -> bool {
    if payload_bound(code) is Lower { x.eval(a) >= payload_value(code) } else { x.eval(a) <= payload_value(code) }
}
// per array element: the payload's bound on the element if its index is in the domain of index now, [index != i] otherwise
pub open spec fn lazy_meaning<VX: IntegerVariable, VI: IntegerVariable, VE: IntegerVariable>(p: &ElementPropagator<VX, VI, VE>, live: Live, code: u64, a: Asg) -> bool {
    forall|i: int| #![trigger dom_contains(live, &p.index, i)] 0 <= i < p.array@.len() ==>
        (if dom_contains(live, &p.index, i) { bound_ok(&p.array@[i], code, a) } else { p.index.eval(a) != i })
}
pub proof fn lemma_meaning_intro<VX: IntegerVariable, VI: IntegerVariable, VE: IntegerVariable>(p: &ElementPropagator<VX, VI, VE>, live: Live, code: u64, a: Asg)
    requires forall|i: int| #![trigger dom_contains(live, &p.index, i)] 0 <= i < p.array@.len() ==> (if dom_contains(live, &p.index, i) { bound_ok(&p.array@[i], code, a) } else { p.index.eval(a) != i })
    ensures lazy_meaning(p, live, code, a)
{ }
// the link between the producer of a lazy reason (propagate_rhs_bounds_based_on_array, here) and its consumer (lazy_explanation,
// unit element_lazy): the explanation of `code`, stored while the store is `live`, is lazy_meaning
#[verifier::external_body]
pub proof fn axiom_lazy_link<VX: IntegerVariable, VI: IntegerVariable, VE: IntegerVariable>(p: &ElementPropagator<VX, VI, VE>, live: Live, code: u64)
    ensures forall|a: Asg| #![trigger lazy_holds(code, a)] lazy_holds(code, a) <==> lazy_meaning(p, live, code, a) {}
impl<VX: IntegerVariable, VI: IntegerVariable, VE: IntegerVariable> ElementPropagator<VX, VI, VE> {
//@@EXTRACT el0@@
//@@EXTRACT el@@
}
} // verus!
fn main() {}
