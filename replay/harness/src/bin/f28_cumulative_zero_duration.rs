//! F28 (C08): a task with duration 0 is kept by create_tasks (only zero-usage tasks are dropped); the pointwise
//! lower-bound propagation advances its explanation time point by the duration of the propagating task
//! (`time_point += processing_time`) and never terminates.  Zero-duration tasks are admitted.  Exit 1 = reproduced.
use std::sync::mpsc;
use std::time::Duration;

use pumpkin_solver::constraints;
use pumpkin_solver::options::CumulativeExplanationType;
use pumpkin_solver::options::CumulativeOptions;
use pumpkin_solver::options::CumulativePropagationMethod;
use pumpkin_solver::results::solution_iterator::IteratedSolution;
use pumpkin_solver::termination::Indefinite;
use pumpkin_solver::Solver;

fn main() {
    let (tx, rx) = mpsc::channel();
    let _ = std::thread::spawn(move || {
        let mut solver = Solver::default();
        // a: fixed at 0, duration 2, usage 1;  z: start in [0, 3], duration 0, usage 1;  capacity 1
        // z never runs: all 4 start times of z are solutions
        let a = solver.new_bounded_integer(0, 0);
        let z = solver.new_bounded_integer(0, 3);
        let opts = CumulativeOptions::new(false, CumulativeExplanationType::Pointwise, false, CumulativePropagationMethod::TimeTableOverInterval, false);
        let mut n = 0;
        if solver.add_constraint(constraints::cumulative_with_options(vec![a, z], vec![2, 0], vec![1, 1], 1, opts)).post().is_ok() {
            let mut brancher = solver.default_brancher();
            let mut termination = Indefinite;
            let mut it = solver.get_solution_iterator(&mut brancher, &mut termination);
            loop {
                match it.next_solution() {
                    IteratedSolution::Solution(..) => n += 1,
                    _ => break,
                }
                if n > 100 { break; }
            }
        }
        let _ = tx.send(n);
    });
    match rx.recv_timeout(Duration::from_secs(20)) {
        Ok(4) => println!("ok: 4 solutions"),
        Ok(n) => { println!("REPRODUCED: a fixed at 0 (duration 2, usage 1), z in [0, 3] (duration 0, usage 1), capacity 1, pointwise explanations: {n} solutions, expected 4"); std::process::exit(1); }
        Err(_) => { println!("REPRODUCED: a fixed at 0 (duration 2, usage 1), z in [0, 3] (duration 0, usage 1), capacity 1, pointwise explanations: the solver does not terminate (20 s)"); std::process::exit(1); }
    }
}
