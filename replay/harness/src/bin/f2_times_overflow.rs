//! F2 (C16/C01): `times(a, b, c)` with operands >= 2^16: the bound products were computed in i32.
//! Exit 1 = defect reproduced (panic / wrong verdict), 0 = behaves like unbounded arithmetic.
use pumpkin_solver::constraints;
use pumpkin_solver::results::SatisfactionResult;
use pumpkin_solver::termination::Indefinite;
use pumpkin_solver::Solver;

fn main() {
    // a = b = 65536, c in [0, i32::MAX]: a*b = 2^32 is not representable, so the model is infeasible;
    // with unbounded arithmetic the answer is UNSAT (either at post time or from satisfy), never a panic and
    // never a solution.
    let r = std::panic::catch_unwind(|| {
        let mut solver = Solver::default();
        let a = solver.new_bounded_integer(65536, 65536);
        let b = solver.new_bounded_integer(65536, 65536);
        let c = solver.new_bounded_integer(0, i32::MAX);
        let posted = solver.add_constraint(constraints::times(a, b, c)).post();
        if posted.is_err() {
            return "unsat-at-post";
        }
        let mut brancher = solver.default_brancher();
        match solver.satisfy(&mut brancher, &mut Indefinite) {
            SatisfactionResult::Satisfiable(_) => "sat",
            SatisfactionResult::Unsatisfiable => "unsat",
            SatisfactionResult::Unknown => "unknown",
        }
    });
    match r {
        Err(_) => {
            println!("REPRODUCED: times(65536, 65536, [0, i32::MAX]) panics (i32 product overflow)");
            std::process::exit(1);
        }
        Ok("sat") => {
            println!("REPRODUCED: times(65536, 65536, c) reported satisfiable (wrapped product)");
            std::process::exit(1);
        }
        Ok(v) => {
            println!("ok: verdict {v}");
        }
    }
    // a second shape: the product fits for the lower bounds but not for the upper bounds
    let r = std::panic::catch_unwind(|| {
        let mut solver = Solver::default();
        let a = solver.new_bounded_integer(1, 70000);
        let b = solver.new_bounded_integer(1, 70000);
        let c = solver.new_bounded_integer(6, 6);
        let posted = solver.add_constraint(constraints::times(a, b, c)).post();
        if posted.is_err() {
            return 0;
        }
        let mut brancher = solver.default_brancher();
        let mut n = 0;
        let mut term = Indefinite;
        let mut it = solver.get_solution_iterator(&mut brancher, &mut term);
        loop {
            match it.next_solution() {
                pumpkin_solver::results::solution_iterator::IteratedSolution::Solution(..) => n += 1,
                _ => break,
            }
        }
        n
    });
    match r {
        Err(_) => {
            println!("REPRODUCED: times([1,70000],[1,70000],6) panics");
            std::process::exit(1);
        }
        Ok(4) => println!("ok: 4 solutions of a*b=6"),
        Ok(n) => {
            println!("REPRODUCED: a*b=6 over [1,70000]^2 has 4 solutions, solver found {n}");
            std::process::exit(1);
        }
    }
}
