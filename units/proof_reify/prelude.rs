#![feature(allocator_api)]
use vstd::prelude::*;
//@@SPEC macros.rs@@
verus! {
#[derive(Clone, Copy, PartialEq, Eq, Structural)]
pub struct Literal { pub id: u32 }
#[derive(Clone, Copy, PartialEq, Eq, Structural)]
pub struct Predicate { pub code: u64 }
pub struct ProofLiterals { pub reified: Ghost<Map<Literal, Predicate>> }
impl ProofLiterals {
    #[verifier::external_body]
    pub fn reify_predicate(&mut self, literal: Literal, predicate: Predicate) ensures final(self).reified@ == old(self).reified@.insert(literal, predicate) { unimplemented!() }
}
pub struct ProofWriter { pub literals: ProofLiterals }
impl ProofWriter {
    #[verifier::external_body]
    pub fn literals_mut(&mut self) -> (r: &mut ProofLiterals) ensures *r == old(self).literals, final(self).literals == *final(r) { unimplemented!() }
}
pub struct PathBuf { pub x: u8 }
pub struct DimacsProof { pub x: u8 }
pub enum ProofImpl {
    CpProof { writer: ProofWriter, log_inferences: bool, definitions_path: PathBuf, propagation_order_hint: Option<Vec<u64>> },
    DimacsProof(DimacsProof),
}
pub struct ProofLog { pub internal_proof: Option<ProofImpl> }
impl ProofLog {
//@@EXTRACT pl@@
}
} // verus!
fn main() {}
