use vstd::prelude::*;
//@@SPEC macros.rs@@
//@@EXTRACT macro_predicate@@
//@@EXTRACT macro_conjunction@@
verus! {
//@@SPEC vocab.rs@@
//@@SPEC std_saturating.rs@@
//@@SPEC contracts/integer_variable_consumer.rs@@
//@@SPEC prop_ctx.rs@@
//@@SPEC lemmas/trunc_div.rs@@
//@@SPEC std_option_extra.rs@@
pub mod mul_lemmas { use vstd::prelude::*;
// x*y <= c, y >= ym >= 1, c >= 0  ==>  x <= c / ym      (c / ym: Euclidean = truncating on non-negatives)
pub broadcast proof fn lemma_div_upper(x: int, y: int, c: int, ym: int)
    requires x * y <= c, y >= ym, ym >= 1, c >= 0
    ensures #![trigger x * y, c / ym] x <= c / ym
{
    vstd::arithmetic::div_mod::lemma_fundamental_div_mod(c, ym);
    vstd::arithmetic::div_mod::lemma_mod_bound(c, ym);
    vstd::arithmetic::div_mod::lemma_div_pos_is_pos(c, ym);
    if x > c / ym {
        assert(x * y >= (c / ym + 1) * ym) by(nonlinear_arith) requires x >= c / ym + 1, y >= ym, ym >= 1, c / ym >= 0;
        assert((c / ym + 1) * ym == ym * (c / ym) + ym) by(nonlinear_arith);
    }
}
pub broadcast proof fn lemma_div_upper_c(x: int, y: int, c: int, ym: int)
    requires y * x <= c, y >= ym, ym >= 1, c >= 0
    ensures #![trigger y * x, c / ym] x <= c / ym
{
    assert(x * y == y * x) by(nonlinear_arith);
    lemma_div_upper(x, y, c, ym);
}
// x*y >= 1, 0 <= y <= ym, (q-1)*ym < x*y  ==>  x >= q
pub broadcast proof fn lemma_div_lower(x: int, y: int, ym: int, q: int)
    requires x * y >= 1, 0 <= y <= ym, (q - 1) * ym < x * y
    ensures #![trigger x * y, (q - 1) * ym] x >= q
{
    if x < q {
        if x <= 0 {
            assert(x * y <= 0) by(nonlinear_arith) requires x <= 0, y >= 0;
        } else {
            assert(x * y <= (q - 1) * ym) by(nonlinear_arith) requires 0 < x <= q - 1, 0 <= y <= ym;
        }
    }
}
pub broadcast proof fn lemma_div_lower_c(x: int, y: int, ym: int, q: int)
    requires y * x >= 1, 0 <= y <= ym, (q - 1) * ym < y * x
    ensures #![trigger y * x, (q - 1) * ym] x >= q
{
    assert(x * y == y * x) by(nonlinear_arith);
    lemma_div_lower(x, y, ym, q);
}
}
broadcast use {conv_axioms::axiom_from_empty_domain};
use trunc::*;

// A-VIEWRANGE
#[verifier::external_body]
pub proof fn axiom_eval_in_i32<V: IntegerVariable>(v: &V, a: Asg)
    ensures i32::MIN <= v.eval(a) <= i32::MAX {}
// A-READS
#[verifier::external_body]
pub proof fn lemma_bounds_hold<V: IntegerVariable>(live: Live, v: &V, a: Asg)
    requires live(a) ensures store_lb(live, v) <= v.eval(a) <= store_ub(live, v) {}

// the constraint as the rule functions see it: whenever the denominator is positive, rhs is the truncated quotient
pub open spec fn div_rel<VA: IntegerVariable, VB: IntegerVariable, VC: IntegerVariable>(n: &VA, d: &VB, q: &VC, x: Asg) -> bool {
    d.eval(x) >= 1 ==> q.eval(x) == trunc_div(n.eval(x), d.eval(x))
}
// facts about truncating division by a positive divisor
pub proof fn lemma_tdiv_pos(a: int, b: int)
    requires b >= 1
    ensures ({ let q = trunc_div(a, b);
        &&& q * b <= a < (q + 1) * b || (a < 0 && (q - 1) * b < a <= q * b)
        &&& (a >= 0 ==> q >= 0 && q * b <= a < (q + 1) * b)
        &&& (a <= 0 ==> q <= 0 && (q - 1) * b < a <= q * b)
        &&& (q >= 1 ==> a >= 1) &&& (q <= -1 ==> a <= -1) })
{
    lemma_trunc(a, b);
    let q = trunc_div(a, b);
    let m = a - q * b;
    assert((q + 1) * b == q * b + b) by(nonlinear_arith);
    assert((q - 1) * b == q * b - b) by(nonlinear_arith);
    if a >= 0 { assert(q >= 0) by(nonlinear_arith) requires a == q * b + m, 0 <= m < b, a >= 0, b >= 1; }
    if a <= 0 { assert(q <= 0) by(nonlinear_arith) requires a == q * b + m, -b < m <= 0, a <= 0, b >= 1; }
    if q >= 1 { assert(a >= 1) by(nonlinear_arith) requires a == q * b + m, -b < m < b, q >= 1, b >= 1, (a <= 0 ==> m <= 0), (a <= 0 ==> q <= 0); }
    if q <= -1 { assert(a <= -1) by(nonlinear_arith) requires a == q * b + m, -b < m < b, q <= -1, b >= 1, (a >= 0 ==> m >= 0), (a >= 0 ==> q >= 0); }
}

// n <= N, N >= 0, d >= D >= 1  ==>  trunc_div(n, d) <= N / D
pub proof fn lemma_quot_upper(n: int, d: int, nmax: int, dmin: int)
    requires n <= nmax, nmax >= 0, d >= dmin, dmin >= 1
    ensures trunc_div(n, d) <= nmax / dmin, nmax / dmin >= 0
{
    lemma_tdiv_pos(n, d);
    vstd::arithmetic::div_mod::lemma_div_pos_is_pos(nmax, dmin);
    let q = trunc_div(n, d);
    if n > 0 {
        assert(q * d <= nmax);
        mul_lemmas::lemma_div_upper(q, d, nmax, dmin);
    }
}
// n >= N >= 0, 1 <= d <= D  ==>  trunc_div(n, d) >= N / D
pub proof fn lemma_quot_lower(n: int, d: int, nmin: int, dmax: int)
    requires n >= nmin, nmin >= 0, 1 <= d <= dmax
    ensures trunc_div(n, d) >= nmin / dmax
{
    lemma_tdiv_pos(n, d);
    let q = trunc_div(n, d);
    let k = nmin / dmax;
    lemma_euclid(nmin, dmax);
    vstd::arithmetic::div_mod::lemma_div_pos_is_pos(nmin, dmax);
    if q < k {
        assert((q + 1) * d <= k * dmax) by(nonlinear_arith) requires 0 <= q + 1 <= k, 1 <= d <= dmax;
        assert(k * dmax == dmax * k) by(nonlinear_arith);
    }
}
// the numerator is below (q + 1) * d
pub proof fn lemma_num_upper(n: int, d: int, q: int, qmax: int, dmax: int)
    requires q == trunc_div(n, d), 1 <= d <= dmax, q <= qmax, qmax >= 0
    ensures n <= (qmax + 1) * dmax - 1, 0 <= (qmax + 1) * dmax
{
    lemma_tdiv_pos(n, d);
    assert((q + 1) * d == q * d + d) by(nonlinear_arith);
    assert(n < (q + 1) * d);
    assert(0 <= (qmax + 1) * dmax) by(nonlinear_arith) requires qmax >= 0, dmax >= 1;
    if q + 1 <= 0 {
        assert((q + 1) * d <= 0) by(nonlinear_arith) requires q + 1 <= 0, d >= 1;
    } else {
        assert((q + 1) * d <= (qmax + 1) * dmax) by(nonlinear_arith) requires 0 < q + 1 <= qmax + 1, 1 <= d <= dmax;
    }
}
// q >= qmin >= 1, d >= dmin >= 1  ==>  n >= dmin * qmin
pub proof fn lemma_num_lower(n: int, d: int, q: int, qmin: int, dmin: int)
    requires q == trunc_div(n, d), d >= dmin, dmin >= 1, q >= qmin, qmin >= 1
    ensures n >= dmin * qmin
{
    lemma_tdiv_pos(n, d);
    assert(n >= q * d);
    assert(q * d >= dmin * qmin) by(nonlinear_arith) requires q >= qmin, qmin >= 1, d >= dmin, dmin >= 1;
}
// 0 <= n <= nmax, q >= qmin >= 1, d >= 1  ==>  d <= nmax / qmin
pub proof fn lemma_den_upper(n: int, d: int, q: int, nmax: int, qmin: int)
    requires q == trunc_div(n, d), d >= 1, 0 <= n <= nmax, q >= qmin, qmin >= 1
    ensures d <= nmax / qmin
{
    lemma_tdiv_pos(n, d);
    assert(d * q <= nmax) by(nonlinear_arith) requires q * d <= n, n <= nmax;
    mul_lemmas::lemma_div_upper(d, q, nmax, qmin);
}
// n >= nmin, 0 <= q <= qmax, d >= 1  ==>  d >= ceil((nmin + 1) / (qmax + 1))
pub proof fn lemma_den_lower(n: int, d: int, q: int, nmin: int, qmax: int, c: int)
    requires q == trunc_div(n, d), d >= 1, n >= nmin, 0 <= q <= qmax,
             // c is the ceiling of (nmin + 1) / (qmax + 1)
             (c - 1) * (qmax + 1) < nmin + 1
    ensures d >= c
{
    lemma_tdiv_pos(n, d);
    assert((q + 1) * d == q * d + d) by(nonlinear_arith);
    assert(n < (q + 1) * d);
    if d < c {
        assert((q + 1) * d <= (qmax + 1) * (c - 1)) by(nonlinear_arith) requires 0 < q + 1 <= qmax + 1, 1 <= d <= c - 1;
        assert((qmax + 1) * (c - 1) == (c - 1) * (qmax + 1)) by(nonlinear_arith);
    }
}
//@@EXTRACT propagate_signs@@
//@@EXTRACT propagate_upper_bounds@@
//@@EXTRACT propagate_positive_domains@@
} // verus!
fn main() {}
