//! F59 (C14): the DIMACS header is only processed when its terminating '\n' is read; a file whose last line is the
//! header (a formula without clauses, `p cnf 0 0` or `p cnf 3 0`, without a final line break) is rejected with
//! "missing dimacs header" although the same file with the line break is satisfiable.  Exit 1 = reproduced.
use std::io::Write;
use std::process::Command;

fn run(repo: &str, text: &str, name: &str) -> String {
    let path = std::env::temp_dir().join(name);
    let mut f = std::fs::File::create(&path).unwrap();
    f.write_all(text.as_bytes()).unwrap();
    let target = std::env::var("CARGO_TARGET_DIR").unwrap_or_else(|_| "/tmp/pumpkin-verif-scratch/replay-target".into());
    let out = Command::new("cargo")
        .args(["run", "--offline", "-q", "--manifest-path", &format!("{repo}/Cargo.toml"), "-p", "pumpkin-solver", "--bin", "pumpkin-solver", "--"])
        .arg(&path)
        .env("CARGO_TARGET_DIR", format!("{target}-bin"))
        .output()
        .expect("cannot run cargo");
    let so = String::from_utf8_lossy(&out.stdout).to_string();
    let se = String::from_utf8_lossy(&out.stderr).to_string();
    let verdict = so.lines().find(|l| l.starts_with("s ")).map(|l| l.to_string());
    verdict.unwrap_or_else(|| format!("no verdict (exit {:?}): {}", out.status.code(), se.lines().last().unwrap_or("")))
}

fn main() {
    let repo = std::env::var("PUMPKIN_REPO").unwrap_or_else(|_| "/repo".into());
    let a = run(&repo, "p cnf 3 0\n", "pv_f59_a.cnf");
    let b = run(&repo, "p cnf 3 0", "pv_f59_b.cnf");
    let c = run(&repo, "c empty formula\np cnf 0 0", "pv_f59_c.cnf");
    println!("`p cnf 3 0` + line break: {a}");
    println!("`p cnf 3 0` at end of file: {b}");
    println!("comment, `p cnf 0 0` at end of file: {c}");
    if a != b || a != c || !a.starts_with("s SATISFIABLE") {
        println!("REPRODUCED: a header that ends the file is not recognised: `{b}` / `{c}` instead of `{a}`");
        std::process::exit(1);
    }
    println!("ok: all spellings give {a}");
}
