//! F38 (C13): a domain that becomes empty while the declarations are compiled (set_in outside the declared range, an alias
//! between variables with disjoint ranges) panics with `Cannot create an empty domain` instead of =====UNSATISFIABLE=====.
//! Exit 1 = reproduced.
use std::io::Write;
use std::process::Command;

fn run(name: &str, model: &str, args: &[&str]) -> (String, String) {
    let repo = std::env::var("PUMPKIN_REPO").unwrap_or_else(|_| "/repo".into());
    let target = std::env::var("CARGO_TARGET_DIR").unwrap_or_else(|_| "/tmp/pumpkin-verif-scratch/replay-target".into());
    let path = std::env::temp_dir().join(name);
    std::fs::File::create(&path).unwrap().write_all(model.as_bytes()).unwrap();
    let out = Command::new("cargo")
        .args(["run", "--offline", "-q", "--manifest-path", &format!("{repo}/Cargo.toml"), "-p", "pumpkin-solver", "--bin", "pumpkin-solver", "--"])
        .args(args).arg(&path)
        .env("CARGO_TARGET_DIR", format!("{target}-bin")).env("RUST_BACKTRACE", "0")
        .output().expect("cannot run cargo");
    (String::from_utf8_lossy(&out.stdout).to_string(), String::from_utf8_lossy(&out.stderr).to_string())
}

fn main() {
    let mut bad = vec![];
    for (name, model) in [("pv_f38a.fzn", "var 1..3: x :: output_var;\nconstraint set_in(x, 5..7);\nsolve satisfy;\n"),
                          ("pv_f38b.fzn", "var 1..3: a :: output_var;\nvar 5..7: b :: output_var = a;\nsolve satisfy;\n")] {
        let (so, se) = run(name, model, &[]);
        if !so.contains("=====UNSATISFIABLE=====") {
            bad.push(format!("{}: {}", model.replace('\n', " "), if se.contains("Cannot create an empty domain") { "panic `Cannot create an empty domain`".to_string() } else { format!("printed {:?}", so) }));
        }
    }
    if bad.is_empty() { println!("ok: both models are reported unsatisfiable"); }
    else { println!("REPRODUCED: {}", bad.join(" | ")); std::process::exit(1); }
}
