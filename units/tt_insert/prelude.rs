#![feature(allocator_api)]
#![allow(unused_imports)]
use vstd::prelude::*;
use std::rc::Rc;
use std::ops::Range;
use std::cmp::max;
use std::cmp::min;
//@@SPEC macros.rs@@
verus! {
//@@SPEC std_minmax.rs@@
//@@SPEC std_vec_splice.rs@@
broadcast use {std_minmax_axioms::axiom_max_i32, std_minmax_axioms::axiom_min_i32};
pub trait IntegerVariable {}
pub struct LocalId { pub v: u32 }
//@@EXTRACT s_task@@
#[verifier::allow(autoderive_clone_without_spec)]
//@@EXTRACT s_profile@@
//@@SPEC tt_defs.rs@@
//@@SPEC lemmas/tt_height.rs@@
pub mod checks { use super::*;
verus! {
broadcast use {std_minmax_axioms::axiom_max_i32, std_minmax_axioms::axiom_min_i32};
//@@EXTRACT c_before@@
//@@EXTRACT c_between@@
//@@EXTRACT c_split_start@@
//@@EXTRACT c_overlap@@
//@@EXTRACT c_split_end@@
//@@EXTRACT c_after@@
} // verus!
}
//@@EXTRACT ins@@
//@@EXTRACT ins_new@@
} // verus!
fn main() {}
