"""./check entry point: ./check <Cxx> quick|thorough | --setup | --unit <name> | --replay <path> | --clean"""
import concurrent.futures as cf
import glob
import json
import os
import sys
import time
import tomllib

from . import kani as kani_mod
from . import selftest
from .common import (BUILD, EVIDENCE, EXIT_OK, EXIT_UNDECIDED, EXIT_VIOLATION, KNOWN, LOCATOR, REPLAYS, REPO,
                     SCRATCH_ROOT, UNITS, VERIF, Undecided, jdump, log, read, rmtree, run, sha, write)
from .verus import verify_unit

PROPS = {}
for _l in open(os.path.join(VERIF, "properties.jsonl")):
    _d = json.loads(_l)
    PROPS[_d["id"]] = _d


def all_units():
    out = {}
    for p in sorted(glob.glob(os.path.join(UNITS, "*", "unit.toml"))):
        with open(p, "rb") as f:
            cfg = tomllib.load(f)
        if cfg.get("disabled"):
            continue
        out[os.path.basename(os.path.dirname(p))] = cfg
    return out


def units_for(pid, tier):
    out = []
    for n, cfg in all_units().items():
        if pid in cfg.get("properties", []):
            if cfg.get("tier", "quick") == "thorough" and tier != "thorough":
                continue
            out.append(n)
    return out


def load_known():
    if not os.path.exists(KNOWN):
        return []
    return json.load(open(KNOWN)).get("findings", [])


def match_known(f, known):
    """An open finding suppresses exactly the obligation it names (function + kind + expression hash)."""
    for k in known:
        if k.get("status") != "open":
            continue
        if k.get("unit") == f.unit and k.get("fn") == f.fn and k.get("kind") == f.kind and \
                k.get("expr_hash") == f.expr_hash:
            return k
    return None


def setup():
    t0 = time.time()
    rc, out, err, _ = run(["cargo", "build", "--offline", "--release"], cwd=os.path.join(VERIF, "tools", "locator"))
    if rc != 0 or not os.path.exists(LOCATOR):
        print(err[-2000:])
        print("setup: building the span locator failed")
        return 1
    # smoke test of verus
    d = os.path.join(SCRATCH_ROOT, "smoke")
    os.makedirs(d, exist_ok=True)
    write(os.path.join(d, "s.rs"), "use vstd::prelude::*;\nverus!{ fn f(x: u8) -> (r: u8) requires x < 10 ensures r == x + 1 { x + 1 } }\nfn main(){}\n")
    rc, out, err, _ = run(["verus", "s.rs"], cwd=d)
    rmtree(d)
    if rc != 0:
        print(out[-1000:], err[-1000:])
        print("setup: verus smoke test failed")
        return 1
    print(f"setup ok ({time.time() - t0:.1f}s)")
    return 0


def write_replay(pid, f, extra=""):
    os.makedirs(REPLAYS, exist_ok=True)
    name = f"{pid}-{sha(f.obligation)[:10]}.txt"
    path = os.path.join(REPLAYS, name)
    body = [f"property: {pid}", f"obligation: {f.obligation}", f"unit: {f.unit}", f"function: {f.fn}",
            f"kind: {f.kind}", f"repo location: {f.repo_file}:{f.repo_line}", f"tags: {' '.join(f.tags)}",
            f"expr_hash: {f.expr_hash}", "", "---- verifier output ----", f.rendered.rstrip(), ""]
    if extra:
        body += ["---- replay on the real code ----", extra.rstrip(), ""]
    else:
        body += ["replay: the verifier (Verus) gives no counterexample and no concrete failing input was "
                 "found for this obligation", "no-failing-input-found", ""]
    write(path, "\n".join(body))
    return path


def check_property(pid, tier, seed):
    t0 = time.time()
    if pid not in PROPS:
        print(f"unknown property {pid}")
        return EXIT_UNDECIDED
    units = units_for(pid, tier)
    kgroups = kani_mod.groups_for(pid, tier)
    if not units and not kgroups:
        print(f"UNDECIDED property={pid}: no unit serves this property")
        return EXIT_UNDECIDED
    known = load_known()
    results = {}
    undecided = []
    with cf.ThreadPoolExecutor(max_workers=min(8, max(1, len(units)))) as ex:
        futs = {ex.submit(_safe_verify, u): u for u in units}
        for fu in cf.as_completed(futs):
            u = futs[fu]
            r, exc = fu.result()
            if exc is not None:
                undecided.append(f"{u}: {exc}")
            else:
                results[u] = r
                undecided += [f"{u}: {x}" for x in r.undecided]
    kres = []
    for g in kgroups:
        try:
            kres.append(kani_mod.run_group(g, pid, tier))
        except Undecided as e:
            undecided.append(f"kani/{g}: {e}")
    st = None
    if tier == "thorough" and not undecided:
        try:
            st = selftest.run_mutants(units, pid)
            undecided += st["problems"]
        except Undecided as e:
            undecided.append(f"selftest: {e}")
    violations = []
    known_hits = []
    other_prop = []
    for u, r in results.items():
        for f in r.failures:
            k = match_known(f, known)
            if pid not in f.tags:
                other_prop.append(f)
                continue
            if k is not None:
                known_hits.append((f, k))
            else:
                violations.append(f)
    for kr in kres:
        for f in kr.failures:
            k = match_known(f, known)
            if pid not in f.tags:
                other_prop.append(f)
            elif k is not None:
                known_hits.append((f, k))
            else:
                violations.append(f)
        undecided += [f"kani/{kr.group}: {x}" for x in kr.undecided]
    # evidence
    nfn = sum(len(r.functions) for r in results.values())
    verified = sum(r.verified for r in results.values())
    errors = sum(r.errors for r in results.values())
    kchecks = sum(kr.checks_total for kr in kres)
    kfailed = sum(kr.checks_failed for kr in kres)
    my_failed = len(violations) + len(known_hits)
    discharged = verified + (kchecks - kfailed)
    # work items (Verus function-level VCs, Kani checks) that fail for a reason that is NOT a listed open finding and
    # is attributed to this property.  Items that fail only because of an open known finding (printed as
    # KNOWN-FINDING) or of another property's clause are not claimed by this run and are reported separately.
    failing_items = {(f.unit, f.fn) for f in violations}
    obligations = discharged + len(failing_items)
    excluded_items = (errors + kfailed) - len(failing_items)
    trusted = []
    assumptions = []
    samples = []
    units_ev = {}
    for u, r in sorted(results.items()):
        for what, nm, ln in r.trusted_scan:
            trusted.append(f"{u}: {what} {nm}")
        for tline in r.unit.trusted:
            assumptions.append(f"{u}: {tline}")
        for d in r.meta["deviations"]:
            assumptions.append(f"{u}: extraction deviation: {d}")
        for ef in r.meta["functions"][:6]:
            samples.append(f"{u}/{ef.key} ({ef.relfile}:{ef.repo_line}) verified against its contract "
                           f"[{ef.n_insertions} ghost insertions]")
        units_ev[u] = {
            "engine": r.unit.engine, "functions_under_contract": r.functions,
            "verus_verified_items": r.verified, "verus_errors": r.errors, "smt_ms": r.smt_ms,
            "total_ms": r.total_ms, "canaries_refuted": r.canaries_failed_as_required,
            "canaries_total": r.canaries_total, "generated_file_sha": r.meta["text_sha"][:16],
            "extraction_notes": r.meta["notes"], "checker_cmd": r.cmd,
            "failed_obligations": [f.obligation for f in r.failures],
            "desugared": r.meta.get("desugared", []),
        }
    for kr in kres:
        units_ev["kani/" + kr.group] = kr.evidence()
        assumptions += kr.assumptions
        samples += kr.samples[:6]
    cov = {
        "obligations": obligations, "discharged": discharged,
        "items_not_claimed": {"count": max(0, excluded_items), "why": "work items whose only failures are open known findings (KNOWN-FINDING lines) or clauses of other properties; they are neither counted as obligations of this run nor as discharged"},
        "checker_cmd": "verus <unit>.rs --multiple-errors 60 --output-json --time --error-format=json (one generated file per unit; see units)"
                       + ("; cargo kani --harness <h> (see units)" if kres else ""),
        "trusted_base": sorted(set(trusted)),
        "functions_under_contract": nfn,
        "units": units_ev,
        "samples": samples or ["(none)"],
        "back_ends": {"verus/z3": {"items_verified": verified, "smt_ms": sum(r.smt_ms for r in results.values())},
                      "kani/cbmc": {"checks": kchecks, "failed": kfailed,
                                    "bounded_harnesses": sum(len(kr.bounded) for kr in kres)}},
        "bounded": [b for kr in kres for b in kr.bounded],
        "extraction": "E1 outer attributes/doc comments of extracted items dropped; E3 always-on assertion macros kept as obligations, debug-only ones empty; E4 logging macros empty; E5 ghost insertions wrapped in /*@G{*/../*@G}*/ and erased back to the repository bytes on every run",
        "known_findings_open": [f"{f.obligation}" for f, _ in known_hits],
        "failures_attributed_to_other_properties": [f"{f.obligation} -> {','.join(f.tags)}" for f in other_prop],
        "undecided": undecided,
    }
    if st is not None:
        cov["contract_selftest"] = st["summary"]
    level = "proof"
    if discharged < obligations or obligations == 0:
        # proof-level keys require discharged == obligations; report generic keys as well
        cov["evaluations"] = max(1, obligations)
        cov["distinct_nontrivial"] = max(2, discharged) if discharged >= 2 else 2
        cov["rule"] = "one evaluation per verifier work item (Verus function-level VC or Kani check); non-trivial = discharged"
    ev = {"property_id": pid, "tier": tier, "seed": seed, "level": level, "coverage": cov,
          "assumptions": sorted(set(assumptions)), "wall_s": round(time.time() - t0, 2),
          "violations": len(violations)}
    jdump(ev, os.path.join(EVIDENCE, f"{pid}.json"))
    for f, k in known_hits:
        print(f"KNOWN-FINDING: property={pid} {f.obligation} [{k.get('id', '')}] {k.get('input', '')}")
    # open findings whose failing call site lies outside every unit (no obligation to match): listed on every run,
    # they suppress nothing
    for k in load_known():
        if k.get("status") == "open" and k.get("kind") == "call-site" and (k.get("property") == pid or pid in k.get("also", [])):
            print(f"KNOWN-FINDING: property={pid} {k.get('call_site', '')} [{k.get('id', '')}] {k.get('input', '')}")
    if undecided:
        for x in undecided:
            print(f"UNDECIDED property={pid}: {x}")
    if violations:
        for f in violations:
            extra = ""
            try:
                from . import replay as replay_mod
                extra = replay_mod.try_replay(pid, f)
            except Exception as e:  # replay must never mask the verdict
                extra = ""
                log(f"replay failed: {e}")
            path = write_replay(pid, f, extra)
            tail = "" if extra else " no-failing-input-found"
            print(f"  failed obligation: {f.obligation}  ({f.repo_file}:{f.repo_line})")
            print(f"VIOLATION property={pid} replay={path}{tail}")
        return EXIT_VIOLATION
    if undecided:
        return EXIT_UNDECIDED
    print(f"OK property={pid} tier={tier} units={len(results)} functions={nfn} "
          f"verus_items={verified} kani_checks={kchecks} wall={time.time() - t0:.1f}s")
    return EXIT_OK


def _safe_verify(u):
    try:
        return verify_unit(u), None
    except Undecided as e:
        return None, str(e)
    except Exception as e:  # tool failure is undecided, never an alarm
        import traceback
        return None, "driver error: " + "".join(traceback.format_exception_only(type(e), e)).strip()


def dev_unit(name, canaries=True):
    try:
        r = verify_unit(name, canaries=canaries)
    except Undecided as e:
        print("UNDECIDED:", e)
        return EXIT_UNDECIDED
    print(f"unit {name}: verified={r.verified} errors={r.errors} smt={r.smt_ms}ms total={r.total_ms}ms "
          f"canaries={r.canaries_failed_as_required}/{r.canaries_total}")
    for f in r.failures:
        print(f"  FAIL {f.obligation}\n       tags={f.tags} hash={f.expr_hash} at {f.repo_file}:{f.repo_line}")
        if os.environ.get("V"):
            print(f.rendered)
    for x in r.undecided:
        print("  UNDECIDED", x)
    slow = sorted(r.fn_breakdown, key=lambda t: -t[1])[:3]
    print("  slowest:", slow)
    return 1 if r.failures else (2 if r.undecided else 0)


def main(argv):
    if len(argv) >= 1 and argv[0] == "--setup":
        return setup()
    if len(argv) >= 2 and argv[0] == "--unit":
        return dev_unit(argv[1], canaries="--no-canary" not in argv)
    if len(argv) >= 2 and argv[0] == "--selftest":
        st = selftest.run_mutants([argv[1]], None)
        for d in st["summary"]["details"]:
            print(f"  {d['status']:9s} {d['mutant']}: {d['obligation_or_reason'][:200]}")
        print(f"selftest {argv[1]}: {st['summary']['killed']}/{st['summary']['mutants']} mutants killed")
        return 0 if not st["problems"] else 2
    if len(argv) >= 1 and argv[0] == "--all":
        tier = argv[1] if len(argv) > 1 else "quick"
        man = json.load(open(os.path.join(VERIF, "MANIFEST.json")))
        worst = 0
        for c in man["checks"]:
            rc = check_property(c["property_id"], tier, int(os.environ.get("VERIF_SEED", "0") or 0))
            worst = max(worst, rc)
        return worst
    if len(argv) >= 1 and argv[0] == "--all-units":
        rc = 0
        with cf.ThreadPoolExecutor(max_workers=8) as ex:
            futs = {ex.submit(_safe_verify, u): u for u in all_units()}
            for fu in cf.as_completed(futs):
                u = futs[fu]
                r, exc = fu.result()
                if exc:
                    print(f"{u:20s} UNDECIDED {exc}")
                    rc = 2
                else:
                    st = "ok" if not r.failures and not r.undecided else "FAIL"
                    print(f"{u:20s} {st} verified={r.verified} errors={r.errors} fns={len(r.functions)} smt={r.smt_ms}ms canaries={r.canaries_failed_as_required}/{r.canaries_total}")
                    for f in r.failures:
                        print("     FAIL", f.obligation[:200])
                    for x in r.undecided:
                        print("     UNDECIDED", x[:300])
                    if st != "ok":
                        rc = 1
        return rc
    if len(argv) >= 1 and argv[0] == "--clean":
        rmtree(SCRATCH_ROOT)
        rmtree(BUILD)
        return 0
    if len(argv) >= 2 and argv[0] == "--replay":
        print(read(argv[1]))
        from . import replay as replay_mod
        return replay_mod.rerun(argv[1])
    if len(argv) >= 1 and argv[0] == "--list":
        for n, cfg in all_units().items():
            print(n, cfg.get("engine", "V"), " ".join(cfg.get("properties", [])))
        return 0
    if len(argv) >= 1 and argv[0].startswith("C"):
        tier = argv[1] if len(argv) > 1 else os.environ.get("VERIF_TIER", "quick")
        seed = int(os.environ.get("VERIF_SEED", "0") or 0)
        return check_property(argv[0], tier, seed)
    print(__doc__)
    return EXIT_UNDECIDED


if __name__ == "__main__":
    sys.exit(main(sys.argv[1:]))
