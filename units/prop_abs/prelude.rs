use vstd::prelude::*;
//@@SPEC macros.rs@@
//@@EXTRACT macro_predicate@@
//@@EXTRACT macro_conjunction@@
verus! {
//@@SPEC vocab.rs@@
//@@SPEC contracts/integer_variable_consumer.rs@@
//@@SPEC prop_ctx.rs@@
//@@SPEC std_minmax.rs@@
broadcast use {conv_axioms::axiom_from_empty_domain, std_minmax_axioms::axiom_max_i32, std_minmax_axioms::axiom_min_i32};

pub open spec fn abs_int(v: int) -> int { if v >= 0 { v } else { -v } }
pub assume_specification [i32::abs] (x: i32) -> (r: i32)
    requires x != i32::MIN      // i32::MIN.abs() overflows (panic in debug builds, wrap in release builds)
    ensures r == abs_int(x as int);
// not used by the pinned text; a change that introduces it (seed C16-6) is then decided instead of ending as `unsupported construct`
pub assume_specification [i32::unsigned_abs] (x: i32) -> (r: u32)
    ensures r == (if x >= 0 { x as int } else { -(x as int) });
pub assume_specification [i32::saturating_abs] (x: i32) -> (r: i32)
    ensures r == (if x == i32::MIN { i32::MAX as int } else { abs_int(x as int) });

// A-VIEWRANGE: the value of a variable / view is an i32 (explanations are only ever evaluated on such assignments)
#[verifier::external_body]
pub proof fn axiom_eval_in_i32<V: IntegerVariable>(v: &V, a: Asg)
    ensures i32::MIN <= v.eval(a) <= i32::MAX {}

pub struct AbsoluteValuePropagator<VA, VB> {
    pub signed: VA,
    pub absolute: VB,
}
pub open spec fn abs_holds<VA: IntegerVariable, VB: IntegerVariable>(p: &AbsoluteValuePropagator<VA, VB>, x: Asg) -> bool {
    p.absolute.eval(x) == abs_int(p.signed.eval(x))
}

impl<VA: IntegerVariable, VB: IntegerVariable> AbsoluteValuePropagator<VA, VB> {
//@@EXTRACT abs@@
}
} // verus!
fn main() {}
