//@append pumpkin-solver/src/branching/variable_selection/most_constrained.rs

// ===== appended by /verif (engine K, group `branching`) — only compiled under cfg(kani) =====
#[cfg(kani)]
mod verif_kani_most_constrained {
    use super::*;
    use crate::basic_types::Random;
    use crate::engine::Assignments;

    #[derive(Debug)]
    struct AnyRandom;
    impl Random for AnyRandom {
        fn generate_bool(&mut self, _probability: f64) -> bool {
            kani::any()
        }
        fn generate_usize_in_range(&mut self, range: std::ops::Range<usize>) -> usize {
            let v: usize = kani::any();
            kani::assume(range.start <= v && v < range.end);
            v
        }
        fn generate_i32_in_range(&mut self, range: std::ops::Range<i32>) -> i32 {
            let v: i32 = kani::any();
            kani::assume(range.start <= v && v < range.end);
            v
        }
        fn generate_f64(&mut self) -> f64 {
            0.5
        }
        fn get_weighted_choice(&mut self, weights: &[f64]) -> Option<usize> {
            if weights.is_empty() {
                None
            } else {
                let v: usize = kani::any();
                kani::assume(v < weights.len());
                Some(v)
            }
        }
    }

    #[kani::proof]
    #[kani::unwind(5)]
    fn var_most_constrained() {
        let mut assignments = Assignments::default();
        let (l0, u0, l1, u1, l2, u2): (i32, i32, i32, i32, i32, i32) = kani::any();
        kani::assume(l0 <= u0 && l1 <= u1 && l2 <= u2);
        kani::assume((u0 as i64 - l0 as i64) <= i32::MAX as i64);
        kani::assume((u1 as i64 - l1 as i64) <= i32::MAX as i64);
        kani::assume((u2 as i64 - l2 as i64) <= i32::MAX as i64);
        let x0 = assignments.grow(l0, u0);
        let x1 = assignments.grow(l1, u1);
        let x2 = assignments.grow(l2, u2);
        let vars = [x0, x1, x2];
        let mut rng = AnyRandom;
        let mut ctx = SelectionContext::new(&assignments, &mut rng);
        let mut sel = MostConstrained::new(&vars, &[2, 1, 2]);
        let r: Option<DomainId> = VariableSelector::<DomainId>::select_variable(&mut sel, &mut ctx);
        let all_fixed = l0 == u0 && l1 == u1 && l2 == u2;
        match r {
            None => assert!(all_fixed),
            Some(v) => {
                assert!(v == x0 || v == x1 || v == x2);
                assert!(!assignments.is_domain_assigned(&v));
            }
        }
    }
}
