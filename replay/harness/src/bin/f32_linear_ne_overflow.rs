//! F32 (C16): LinearNotEqualPropagator accumulates the fixed part of the left-hand side in i32.
//! Exit 1 = reproduced.
use pumpkin_solver::constraints;
use pumpkin_solver::results::solution_iterator::IteratedSolution;
use pumpkin_solver::termination::Indefinite;
use pumpkin_solver::variables::TransformableVariable;
use pumpkin_solver::Solver;

fn main() {
    let r = std::panic::catch_unwind(|| {
        let mut solver = Solver::default();
        // x0 = x1 = 2e9, x2 in [0, 1]:  x0 + x1 + x2 != 4e9 - 2^32 (= -294967296): always true, 2 solutions
        let x0 = solver.new_bounded_integer(2_000_000_000, 2_000_000_000);
        let x1 = solver.new_bounded_integer(2_000_000_000, 2_000_000_000);
        let x2 = solver.new_bounded_integer(0, 1);
        if solver.add_constraint(constraints::not_equals(vec![x0.scaled(1), x1.scaled(1), x2.scaled(1)], -294_967_296)).post().is_err() {
            return Err("reported infeasible at the root".to_string());
        }
        let mut brancher = solver.default_brancher();
        let mut termination = Indefinite;
        let mut it = solver.get_solution_iterator(&mut brancher, &mut termination);
        let mut n = 0;
        loop {
            match it.next_solution() {
                IteratedSolution::Solution(..) => n += 1,
                _ => break,
            }
            if n > 20 { break; }
        }
        if n == 2 { Ok(format!("{n} solutions")) } else { Err(format!("{n} solutions, expected 2")) }
    });
    let what = "x0 = x1 = 2e9, x2 in [0, 1], x0 + x1 + x2 != -294967296";
    match r {
        Ok(Ok(s)) => println!("ok: {s}"),
        Ok(Err(e)) => { println!("REPRODUCED: {what}: {e}"); std::process::exit(1); }
        Err(_) => { println!("REPRODUCED: {what}: panic (arithmetic overflow in the linear not-equal propagator)"); std::process::exit(1); }
    }
}
