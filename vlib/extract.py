"""Mechanical extraction of real function text from /repo and ghost insertion (DESIGN.md 2.1).

The text handed to Verus is a byte-for-byte slice of the repository file; the only additions are the
ghost insertions listed in the unit's contracts.vspec, each wrapped in /*@G{*/ ... /*@G}*/ markers so that
erasing them reproduces the extracted bytes exactly (checked on every run).
"""
import json
import os
import re
import tomllib

from .common import LOCATOR, REPO, SPEC, UNITS, Undecided, read, rmtree, run, scratch, sha

G_OPEN, G_CLOSE = "/*@G{*/", "/*@G}*/"
G_RE = re.compile(re.escape(G_OPEN) + r".*?" + re.escape(G_CLOSE), re.S)

_loc_cache = {}


def locate(relfile, root=None):
    root = root or REPO
    path = os.path.join(root, relfile)
    if not os.path.exists(path):
        raise Undecided(f"lost anchor: file {relfile} does not exist")
    return _locate_path(path, relfile)


def desugar(loc, relfile, fn_paths, rules, _pass=0, optional=()):
    """Engine V-D: apply the closed list of mechanical desugarings (DESIGN.md 2.1b) to the named functions of a
    file and re-locate the rewritten text.  Returns (new_loc, records)."""
    src = loc["src"]
    rewrites = []
    records = []
    for fp in fn_paths:
        for it in loc["by_path"].get(fp, []):
            if "D10" in rules:
                # call through a function-pointer FIELD (Verus has no function-pointer types): the stub type of the
                # field offers `call` with a deterministic uninterpreted result
                for m in re.finditer(r"\(self\.([a-z_0-9]+)\)\(", src[it["start"]:it["end"]]):
                    a, b = it["start"] + m.start(), it["start"] + m.end()
                    new = "self." + m.group(1) + ".call("
                    rewrites.append((a, b, new))
                    records.append({"fn": fp, "rule": "D10 (self.F)(ARGS) [F a function-pointer field]  =>  self.F.call(ARGS)",
                                    "original": src[a:b], "rewritten": new})
                for m in re.finditer(r"\bfn\(&([A-Za-z_0-9]+)\) -> usize", src[it["start"]:it["end"]]):
                    a, b = it["start"] + m.start(), it["start"] + m.end()
                    new = "MappingFn<" + m.group(1) + ">"
                    rewrites.append((a, b, new))
                    records.append({"fn": fp, "rule": "D10 parameter type fn(&T) -> usize  =>  MappingFn<T> (stub type)",
                                    "original": src[a:b], "rewritten": new})
            if "D28" in rules:
                # an iterator of references that the function collects at once is taken as the vector of those references
                for m in re.finditer(r"impl Iterator<Item = (&'[a-z]+ [A-Za-z_0-9<>]+)> \+ Clone", src[it["start"]:it["end"]]):
                    a, b = it["start"] + m.start(), it["start"] + m.end()
                    new = "Vec<" + m.group(1) + ">"
                    rewrites.append((a, b, new))
                    records.append({"fn": fp, "rule": "D28 parameter type impl Iterator<Item = &'a T> + Clone  =>  Vec<&'a T>",
                                    "original": src[a:b], "rewritten": new})
                for m in re.finditer(r"([a-z_]+)\.collect::<Vec<_>>\(\)", src[it["start"]:it["end"]]):
                    a, b = it["start"] + m.start(), it["start"] + m.end()
                    new = m.group(1)
                    rewrites.append((a, b, new))
                    records.append({"fn": fp, "rule": "D28 X.collect::<Vec<_>>() [X the iterator parameter]  =>  X",
                                    "original": src[a:b], "rewritten": new})
            if "D51" in rules:
                # premises handed on as a chained iterator: the elements of X followed by E (stub value with that meaning)
                for m in re.finditer(r"\b([a-z_][a-z_0-9]*)\.iter\(\)\.copied\(\)\.chain\(std::iter::once\(([^()]*)\)\)", src[it["start"]:it["end"]]):
                    a, b = it["start"] + m.start(), it["start"] + m.end()
                    new = f"pv_chain_once(&{m.group(1)}, {m.group(2)})"
                    rewrites.append((a, b, new))
                    records.append({"fn": fp, "rule": "D51 X.iter().copied().chain(std::iter::once(E))  =>  pv_chain_once(&X, E)   (stub value: the elements of X in order, then E)",
                                    "original": src[a:b], "rewritten": new})
            if "D52" in rules:
                for m in re.finditer(r"\b([a-z_][a-z_0-9]*)\.iter\(\)\.copied\(\)\.collect\(\)", src[it["start"]:it["end"]]):
                    a, b = it["start"] + m.start(), it["start"] + m.end()
                    new = f"pv_collect_copied(&{m.group(1)})"
                    rewrites.append((a, b, new))
                    records.append({"fn": fp, "rule": "D52 X.iter().copied().collect()  =>  pv_collect_copied(&X)   (stub: a collection with the elements of X in order; the target type is the declared one)",
                                    "original": src[a:b], "rewritten": new})
            if "D61" in rules:
                # S.get_domains().map(|v| E).collect::<Vec<_>>()  =>  push loop over the vector of the solution's domains
                seg = src[it["start"]:it["end"]]
                for m in re.finditer(r"([a-z_][a-z_0-9]*)\s*\.get_domains\(\)\s*\.map\(\|([a-z_][a-z_0-9]*)\| ([^\n]+)\)\s*\.collect::<Vec<_>>\(\)", seg):
                    a, b = it["start"] + m.start(), it["start"] + m.end()
                    S, v, E = m.group(1), m.group(2), m.group(3)
                    new = (f"{{ let pv_d = {S}.pv_domains(); let mut pv_c = Vec::new(); let mut pv_k: usize = 0; while pv_k < pv_d.len() {{ let {v} = pv_d[pv_k]; pv_k += 1; pv_c.push({E}); }} pv_c }}")
                    rewrites.append((a, b, new))
                    records.append({"fn": fp, "rule": "D61 S.get_domains().map(|v| E).collect::<Vec<_>>()  =>  { let d = S.pv_domains(); push loop over d }   (pv_domains: the vector of the domain ids the iterator yields, in order)",
                                    "original": src[a:b], "rewritten": new})
            if "D63" in rules:
                # V.retain(|&p| C);  =>  filtering loop into a fresh vector that replaces V   (C only reads)
                seg = src[it["start"]:it["end"]]
                for m in re.finditer(r"([a-z_][a-z_0-9]*)\.retain\(\|&([a-z_][a-z_0-9]*)\| ([^\n]+)\);", seg):
                    a, b = it["start"] + m.start(), it["start"] + m.end()
                    V, pvar, C = m.group(1), m.group(2), m.group(3)
                    new = (f"{{ let mut pv_keep = Vec::new(); let mut pv_q: usize = 0; while pv_q < {V}.len() {{ let {pvar} = {V}[pv_q]; pv_q += 1; "
                           f"if {C} {{ pv_keep.push({pvar}); }} }} {V} = pv_keep; }}")
                    rewrites.append((a, b, new))
                    records.append({"fn": fp, "rule": "D63 V.retain(|&p| C);  =>  { filtering loop over V into a fresh vector; V = that vector }   (items are Copy, C only reads)",
                                    "original": src[a:b], "rewritten": new})
            if "D70" in rules:
                # X.iter().filter_map(|x| { B }).collect::<Vec<T>>()  =>  push loop: let o = { B }; if let Some(v) = o { push(v) }
                # (B is a block that evaluates to an Option; it may update locals of the enclosing function; no `return`)
                seg = src[it["start"]:it["end"]]
                m = re.search(r"([a-z_][a-z_0-9\.]*?)\s*\.iter\(\)\s*\.filter_map\(\|([a-z_][a-z_0-9]*)\|\s*\{", seg)
                if m:
                    depth, k = 1, m.end()
                    while k < len(seg) and depth > 0:
                        depth += {"{": 1, "}": -1}.get(seg[k], 0)
                        k += 1
                    body = seg[m.end():k - 1]
                    tail = re.match(r"\s*\)\s*\.collect::<(Vec<[^;]+?>)>\(\)", seg[k:])
                    if tail and not re.search(r"\breturn\b", body):
                        X, xv, ty = m.group(1), m.group(2), tail.group(1)
                        new = (f"{{ let mut pv_c: {ty} = Vec::new(); let mut pv_i: usize = 0; while pv_i < {X}.len() {{ let {xv} = &{X}[pv_i]; pv_i += 1; "
                               f"let pv_o = {{ {body} }}; if let Some(pv_v) = pv_o {{ pv_c.push(pv_v); }} }} pv_c }}")
                        a0, b0 = it["start"] + m.start(), it["start"] + k + tail.end()
                        rewrites.append((a0, b0, new))
                        records.append({"fn": fp, "rule": "D70 X.iter().filter_map(|x| { B }).collect::<Vec<T>>()  =>  { push loop over X: let o = { B }; if let Some(v) = o { push(v) } }",
                                        "original": src[a0:b0], "rewritten": new})
                for m2 in re.finditer(r"([a-z_][a-z_0-9]*)\.sort_by\(\|[a-z_]+, [a-z_]+\| [^\n]+\);", seg):
                    a0, b0 = it["start"] + m2.start(), it["start"] + m2.end()
                    new = f"pv_sort_by(&mut {m2.group(1)});"
                    rewrites.append((a0, b0, new))
                    records.append({"fn": fp, "rule": "D70 V.sort_by(|a, b| E);  =>  pv_sort_by(&mut V);   (a permutation of V: the order itself is not modelled)",
                                    "original": src[a0:b0], "rewritten": new})
                for m3 in re.finditer(r"([a-z_][a-z_0-9]*)\.to_vec\(\)", seg):
                    a0, b0 = it["start"] + m3.start(), it["start"] + m3.end()
                    new = f"pv_to_vec({m3.group(1)})"
                    rewrites.append((a0, b0, new))
                    records.append({"fn": fp, "rule": "D70 S.to_vec()  =>  pv_to_vec(S)   (a vector with the elements of the slice)", "original": src[a0:b0], "rewritten": new})
            if "D68" in rules:
                # X.iter().filter(|v| C).for_each(|w| { B })  =>  index loop: if C { B }   (v: &&T, w: &T; B a block without return/break/continue)
                seg = src[it["start"]:it["end"]]
                m = re.search(r"([a-z_][a-z_0-9\.]*?)\s*\.iter\(\)\s*\.filter\(\|([a-z_][a-z_0-9]*)\| ([^\n]+)\)\s*\.for_each\(\|([a-z_][a-z_0-9]*)\|\s*\{", seg)
                if m:
                    depth, k = 1, m.end()
                    while k < len(seg) and depth > 0:
                        depth += {"{": 1, "}": -1}.get(seg[k], 0)
                        k += 1
                    body = seg[m.end():k - 1]
                    tail = re.match(r"\s*\)", seg[k:])
                    # (a `break` / `continue` inside a closure body can only target a loop inside that body; a `return` would leave the closure)
                    if tail and not re.search(r"\breturn\b", body):
                        X, fv, C, bv = m.group(1), m.group(2), m.group(3), m.group(4)
                        new = (f"{{ let mut pv_i: usize = 0; while pv_i < {X}.len() {{ let pv_item = &{X}[pv_i]; pv_i += 1; "
                               f"if {{ let {fv} = &pv_item; {C} }} {{ let {bv} = pv_item; {body} }} }} }}")
                        a0, b0 = it["start"] + m.start(), it["start"] + k + tail.end()
                        rewrites.append((a0, b0, new))
                        records.append({"fn": fp, "rule": "D68 X.iter().filter(|v| C).for_each(|w| { B })  =>  { index loop over X: if C { B } }   (v: &&T, w: &T)",
                                        "original": src[a0:b0], "rewritten": new})
            if "D66" in rules or "D67" in rules:
                # ranges in parentheses followed by an adaptor: (LO..=HI).filter(|b| C).collect::<Vec<_>>()  /  (LO..HI).find(|b| C)
                seg = src[it["start"]:it["end"]]
                def _range_before(pos):
                    """pos: index of the `)` that closes the parenthesised range; returns (open index, lo, hi, inclusive) or None"""
                    depth, k = 0, pos
                    while k >= 0:
                        if seg[k] == ")":
                            depth += 1
                        elif seg[k] == "(":
                            depth -= 1
                            if depth == 0:
                                break
                        k -= 1
                    if k < 0:
                        return None
                    inner = seg[k + 1:pos]
                    d2 = 0
                    for j, ch in enumerate(inner):
                        if ch in "([{":
                            d2 += 1
                        elif ch in ")]}":
                            d2 -= 1
                        elif d2 == 0 and inner.startswith("..", j):
                            incl = inner.startswith("..=", j)
                            return k, inner[:j].strip(), inner[j + (3 if incl else 2):].strip(), incl
                    return None
                if "D66" in rules:
                    for m in re.finditer(r"\)\s*\.filter\(\|([a-z_][a-z_0-9]*)\| ([^\n]+)\)\s*\.collect::<Vec<_>>\(\)", seg):
                        rb = _range_before(m.start())
                        if not rb or not rb[3]:
                            continue
                        k, lo, hi, _ = rb
                        v, C = m.group(1), m.group(2)
                        new = (f"{{ let mut pv_c = Vec::new(); let pv_hi = {hi}; let mut pv_v = {lo}; let mut pv_go = pv_v <= pv_hi; while pv_go {{ "
                               f"{{ let {v} = &pv_v; if {C} {{ pv_c.push(pv_v); }} }} if pv_v < pv_hi {{ pv_v += 1; }} else {{ pv_go = false; }} }} pv_c }}")
                        a0, b0 = it["start"] + k, it["start"] + m.end()
                        rewrites.append((a0, b0, new))
                        records.append({"fn": fp, "rule": "D66 (LO..=HI).filter(|b| C).collect::<Vec<_>>()  =>  { counting loop over LO..=HI pushing the values for which C holds }   (no overflow at HI == i32::MAX: the counter is not incremented past HI)",
                                        "original": src[a0:b0], "rewritten": new})
                if "D67" in rules:
                    for m in re.finditer(r"\)\s*\.find\(\|([a-z_][a-z_0-9]*)\| ([^\n]+)\)", seg):
                        rb = _range_before(m.start())
                        if not rb:
                            continue
                        k, lo, hi, incl = rb
                        v, C = m.group(1), m.group(2)
                        if incl:
                            # inclusive: the counter is not incremented past HI
                            new = (f"{{ let mut pv_f: Option<i32> = None; let pv_hi = {hi}; let mut pv_v = {lo}; let mut pv_go = pv_v <= pv_hi; while pv_go {{ "
                                   f"if {{ let {v} = &pv_v; {C} }} {{ pv_f = Some(pv_v); break; }} if pv_v < pv_hi {{ pv_v += 1; }} else {{ pv_go = false; }} }} pv_f }}")
                        else:
                            new = (f"{{ let mut pv_f: Option<i32> = None; let pv_hi = {hi}; let mut pv_v = {lo}; while pv_v < pv_hi {{ "
                                   f"if {{ let {v} = &pv_v; {C} }} {{ pv_f = Some(pv_v); break; }} pv_v += 1; }} pv_f }}")
                        a0, b0 = it["start"] + k, it["start"] + m.end()
                        rewrites.append((a0, b0, new))
                        records.append({"fn": fp, "rule": "D67 (LO..HI).find(|b| C) / (LO..=HI).find(|b| C)  =>  { search loop over the range: Some(first value for which C holds) or None }",
                                        "original": src[a0:b0], "rewritten": new})
            if "D64" in rules:
                # (E as f64 / 2.0).floor() as i32  =>  pv_half_floor(E)   (E a non-negative i32: exact in f64)
                seg = src[it["start"]:it["end"]]
                for m in re.finditer(r"\(([^()]*(?:\([^()]*\)[^()]*)*) as f64 / 2\.0\)\.floor\(\) as i32", seg):
                    a, b = it["start"] + m.start(), it["start"] + m.end()
                    new = f"pv_half_floor({m.group(1)})"
                    rewrites.append((a, b, new))
                    records.append({"fn": fp, "rule": "D64 (E as f64 / 2.0).floor() as i32  =>  pv_half_floor(E)   (E / 2 for a non-negative i32 E; exact in f64)",
                                    "original": src[a:b], "rewritten": new})
            if "D62" in rules:
                # S.get_domains().flat_map(|v| { STMTS; [E1, .., En] }).collect::<Vec<_>>()  =>  push loop: STMTS, then one push per item
                seg = src[it["start"]:it["end"]]
                m = re.search(r"([a-z_][a-z_0-9]*)\s*\.get_domains\(\)\s*\.flat_map\(\|([a-z_][a-z_0-9]*)\|\s*\{", seg)
                if m:
                    # the closure block
                    depth, k = 1, m.end()
                    while k < len(seg) and depth > 0:
                        depth += {"{": 1, "}": -1}.get(seg[k], 0)
                        k += 1
                    block = seg[m.end():k - 1]
                    tail = re.match(r"\s*\)\s*\.collect::<Vec<_>>\(\)", seg[k:])
                    lb = block.rfind("[")
                    if tail and lb >= 0 and block.rstrip().endswith("]"):
                        stmts = re.sub(r"//[^\n]*", "", block[:lb])
                        inner = block[lb + 1:block.rstrip().rfind("]")]
                        items, depth2, cur = [], 0, ""
                        for ch in inner:
                            if ch in "([{":
                                depth2 += 1
                            elif ch in ")]}":
                                depth2 -= 1
                            if ch == "," and depth2 == 0:
                                items.append(cur.strip()); cur = ""
                            else:
                                cur += ch
                        if cur.strip():
                            items.append(cur.strip())
                        S, v = m.group(1), m.group(2)
                        pushes = " ".join(f"pv_c.push({e});" for e in items)
                        new = (f"{{ let pv_d = {S}.pv_domains(); let mut pv_c = Vec::new(); let mut pv_k: usize = 0; while pv_k < pv_d.len() {{ let {v} = pv_d[pv_k]; pv_k += 1; {stmts.strip()} {pushes} }} pv_c }}")
                        a, b = it["start"] + m.start(), it["start"] + k + tail.end()
                        rewrites.append((a, b, new))
                        records.append({"fn": fp, "rule": "D62 S.get_domains().flat_map(|v| { STMTS; [E1, .., En] }).collect::<Vec<_>>()  =>  push loop over S.pv_domains(): STMTS, then one push per item",
                                        "original": src[a:b], "rewritten": new})
            if "D60" in rules:
                # BUF.extend(OPT.iter().map(|x| E));  [OPT an Option]  =>  if let Some(x) = &OPT { BUF.pv_push(E); }
                seg = src[it["start"]:it["end"]]
                for m in re.finditer(r"([a-z_][a-z_0-9]*)\.extend\(\s*([a-z_][a-z_0-9\.]*?)\s*\.iter\(\)\s*\.map\(\|([a-z_][a-z_0-9]*)\| ([^\n]+?)\),?\s*\);", seg):
                    a, b = it["start"] + m.start(), it["start"] + m.end()
                    new = f"if let Some({m.group(3)}) = &{m.group(2)} {{ {m.group(1)}.pv_push({m.group(4)}); }}"
                    rewrites.append((a, b, new))
                    records.append({"fn": fp, "rule": "D60 BUF.extend(OPT.iter().map(|x| E));  (OPT an Option)  =>  if let Some(x) = &OPT { BUF.pv_push(E); }",
                                    "original": src[a:b], "rewritten": new})
            if "D59" in rules:
                # E.unwrap_or_else(|| { panic!(..) })  =>  E.unwrap()   (the same control flow: a panic when E is None; only the message differs)
                seg = src[it["start"]:it["end"]]
                for m in re.finditer(r"\.unwrap_or_else\(\|\|\s*\{?\s*panic!\(", seg):
                    depth, k, instr = 0, m.start() + len(".unwrap_or_else"), False
                    while k < len(seg):
                        c = seg[k]
                        if instr:
                            if c == "\\":
                                k += 1
                            elif c == '"':
                                instr = False
                        elif c == '"':
                            instr = True
                        elif c == "(":
                            depth += 1
                        elif c == ")":
                            depth -= 1
                            if depth == 0:
                                break
                        k += 1
                    if k >= len(seg):
                        raise Undecided(f"{fp}: rule D59 cannot find the end of unwrap_or_else(..)")
                    a, b = it["start"] + m.start(), it["start"] + k + 1
                    rewrites.append((a, b, ".unwrap()"))
                    records.append({"fn": fp, "rule": "D59 E.unwrap_or_else(|| panic!(..))  =>  E.unwrap()   (a panic when E is None either way; the message is not modelled)",
                                    "original": src[a:b], "rewritten": ".unwrap()"})
            if "D58" in rules:
                # A.iter().zip(B.iter()).filter(|(_, &w)| C).map(|(x, &w)| E).collect::<Box<[_]>>() over two shared slices
                # `Rc<[T]>` that the function only iterates: an index loop up to the shorter length
                seg = src[it["start"]:it["end"]]
                pat = re.compile(r"([a-z_][a-z_0-9]*)\s*\.iter\(\)\s*\.zip\(([a-z_][a-z_0-9]*)\.iter\(\)\)\s*"
                                 r"\.filter\(\|\((_|[a-z_][a-z_0-9]*), &([a-z_][a-z_0-9]*)\)\| ([^\n]+?)\)\s*"
                                 r"\.map\(\|\(([a-z_][a-z_0-9]*), &([a-z_][a-z_0-9]*)\)\| ([^\n]+?)\)\s*"
                                 r"\.collect::<Box<\[_\]>>\(\)")
                m = pat.search(seg)
                if not m:
                    raise Undecided(f"{fp}: the zip/filter/map/collect chain of rule D58 is not there (changed shape)")
                A, B, f1, f2, C, m1, m2, E = m.groups()
                fl = (f"let {f1} = &{A}[pv_i]; " if f1 != "_" else "") + f"let {f2} = {B}[pv_i]; "
                rt = re.search(r"->\s*Box<\[(.+?)\]>\s*\{", seg)
                ty = f": Vec<{rt.group(1)}>" if rt else ""
                new = (f"{{ let mut pv_c{ty} = Vec::new(); let mut pv_i: usize = 0; while pv_i < {A}.len() && pv_i < {B}.len() {{ "
                       f"if {{ {fl}{C} }} {{ let {m1} = &{A}[pv_i]; let {m2} = {B}[pv_i]; pv_c.push({E}); }} pv_i += 1; }} pv_into_boxed(pv_c) }}")
                a, b = it["start"] + m.start(), it["start"] + m.end()
                rewrites.append((a, b, new))
                records.append({"fn": fp, "rule": "D58 A.iter().zip(B.iter()).filter(|(_, &w)| C).map(|(x, &w)| E).collect::<Box<[_]>>()  =>  index loop over 0..min(A.len(), B.len()) pushing E where C holds, then the boxed slice of the pushed items",
                                "original": src[a:b], "rewritten": new})
                for mm in re.finditer(r"\bRc<\[([A-Za-z_0-9]+)\]>", seg[:seg.find("{")]):
                    a, b = it["start"] + mm.start(), it["start"] + mm.end()
                    rewrites.append((a, b, f"Vec<{mm.group(1)}>"))
                    records.append({"fn": fp, "rule": "D58 parameter type Rc<[T]> (only iterated)  =>  Vec<T>", "original": src[a:b], "rewritten": f"Vec<{mm.group(1)}>"})
            if "D57" in rules:
                # a by-value `mut self` receiver (not supported by the installed Verus): the receiver is taken immutably and
                # moved into a mutable local at once; every `self` of the body is that local
                seg = src[it["start"]:it["end"]]
                m = re.search(r"\(\s*mut self\b", seg)
                if m:
                    depth, k = 0, m.start()
                    while k < len(seg):
                        if seg[k] == "(":
                            depth += 1
                        elif seg[k] == ")":
                            depth -= 1
                            if depth == 0:
                                break
                        k += 1
                    bo = seg.find("{", k)
                    bc = seg.rfind("}")
                    if bo < 0 or bc <= bo:
                        raise Undecided(f"{fp}: rule D57 cannot find the body")
                    body = seg[bo + 1:bc]
                    parts = re.split(r'("(?:\\.|[^"\\])*")', body)
                    body2 = "".join(x if i % 2 else re.sub(r"\bself\b", "pv_self", x) for i, x in enumerate(parts))
                    new = seg[:m.start()] + "(self" + seg[m.end():bo + 1] + "\n        let mut pv_self = self;" + body2 + seg[bc:]
                    rewrites.append((it["start"], it["end"], new))
                    records.append({"fn": fp, "rule": "D57 fn f(mut self, ..) { B }  =>  fn f(self, ..) { let mut pv_self = self; B[self := pv_self] }",
                                    "original": seg[:bo + 1].strip(), "rewritten": (seg[:m.start()] + "(self" + seg[m.end():bo + 1]).strip() + " let mut pv_self = self; ..."})
            if "D56" in rules:
                # status lines of the FlatZinc output protocol: appended to the ghost local `pv_log` (declared by the contract file)
                table = [('println!("==========");', 'pv_emit!(pv_log, Complete);'),
                         ('println!("{MSG_UNSATISFIABLE}");', 'pv_emit!(pv_log, Unsat);'),
                         ('println!("{MSG_UNKNOWN}");', 'pv_emit!(pv_log, Unknown);')]
                seg = src[it["start"]:it["end"]]
                covered_spans = []
                for pat_txt, new in table:
                    k = seg.find(pat_txt)
                    while k >= 0:
                        a, b = it["start"] + k, it["start"] + k + len(pat_txt)
                        rewrites.append((a, b, new))
                        covered_spans.append((k, k + len(pat_txt)))
                        records.append({"fn": fp, "rule": "D56 println!(<status line>)  =>  pv_emit!(pv_log, ..);   (the unit's macro expands to proof { pv_log = pv_log.push(Marker::..); }; \"==========\" = Complete, {MSG_UNSATISFIABLE} = Unsat, {MSG_UNKNOWN} = Unknown; pv_log is a ghost local sequence declared at the start of the body, the output in program order)",
                                        "original": src[a:b], "rewritten": new})
                        k = seg.find(pat_txt, k + 1)
                for m in re.finditer(r"\b(println|print|eprintln)!", seg):
                    if not any(a <= m.start() < b for a, b in covered_spans):
                        raise Undecided(f"{fp}: an output macro is not covered by the status-line table of rule D56")
            if "D55" in rules:
                for m in re.finditer(r"\b([a-z_][a-z_0-9]*)\.into_iter\(\)\.collect\(\)", src[it["start"]:it["end"]]):
                    a, b = it["start"] + m.start(), it["start"] + m.end()
                    new = f"pv_into_vec({m.group(1)})"
                    rewrites.append((a, b, new))
                    records.append({"fn": fp, "rule": "D55 S.into_iter().collect()  =>  pv_into_vec(S)   (stub: a vector with exactly the elements of the set, in some order)",
                                    "original": src[a:b], "rewritten": new})
            if "D42" in rules:
                # in-place sort / dedup of a vector of integers: stubs with the documented effect (spec/std_sort_dedup.rs)
                for m in re.finditer(r"\b([a-z_][a-z_0-9]*)\.(sort|dedup)\(\);", src[it["start"]:it["end"]]):
                    a, b = it["start"] + m.start(), it["start"] + m.end()
                    new = f"pv_{m.group(2)}(&mut {m.group(1)});"
                    rewrites.append((a, b, new))
                    records.append({"fn": fp, "rule": "D42 V.sort(); / V.dedup();  =>  pv_sort(&mut V); / pv_dedup(&mut V);   (stubs: ascending permutation / consecutive repetitions removed)",
                                    "original": src[a:b], "rewritten": new})
            if "D33" in rules:
                # a clause given as `impl IntoIterator<Item = T>` that the function maps over once: a vector of the items
                for m in re.finditer(r"impl IntoIterator<Item = ([A-Za-z_0-9]+)>", src[it["start"]:it["end"]]):
                    a, b = it["start"] + m.start(), it["start"] + m.end()
                    new = "Vec<" + m.group(1) + ">"
                    rewrites.append((a, b, new))
                    records.append({"fn": fp, "rule": "D33 parameter type impl IntoIterator<Item = T>  =>  Vec<T>",
                                    "original": src[a:b], "rewritten": new})
            if "D25" in rules:
                # a reason buffer `impl Extend<T> + AsRef<[T]>` is used as a sequence that is appended to and read back:
                # the anonymous type becomes the stub `PvBuf<T>`, `.extend(std::iter::once(E))` becomes `.pv_push(E)`
                for m in re.finditer(r"impl Extend<([A-Za-z_0-9]+)>(?: \+ AsRef<\[\1\]>)?", src[it["start"]:it["end"]]):
                    a, b = it["start"] + m.start(), it["start"] + m.end()
                    new = "PvBuf<" + m.group(1) + ">"
                    rewrites.append((a, b, new))
                    records.append({"fn": fp, "rule": "D25 parameter type impl Extend<T> + AsRef<[T]>  =>  PvBuf<T> (stub: a sequence; assumes the buffer returns through as_ref what was appended through extend)",
                                    "original": src[a:b], "rewritten": new})
                for m in re.finditer(r"\.extend\(std::iter::once\(((?:[^()]|\([^()]*\))*)\)\)", src[it["start"]:it["end"]]):
                    a, b = it["start"] + m.start(), it["start"] + m.end()
                    new = ".pv_push(" + m.group(1) + ")"
                    rewrites.append((a, b, new))
                    records.append({"fn": fp, "rule": "D25 BUF.extend(std::iter::once(E))  =>  BUF.pv_push(E)",
                                    "original": src[a:b], "rewritten": new})
            for v in it.get("vd", []):
                if v["rule"] == "D16" and "D17" in rules and "D16" not in rules:
                    # D17: the same syntactic candidate, usize bounds
                    pat = src[v["pat"][0]:v["pat"][1]]
                    lo = src[v["lo"][0]:v["lo"][1]]
                    hi = src[v["hi"][0]:v["hi"][1]]
                    new = (f"let mut pv_{pat}: u128 = ({lo}) as u128; let pv_{pat}_hi: u128 = ({hi}) as u128; while pv_{pat} <= pv_{pat}_hi {{ let {pat}: usize = pv_{pat} as usize; pv_{pat} += 1;")
                    rewrites.append((v["call"][0], v["call"][1], new))
                    records.append({"fn": fp, "rule": "D17 for x in LO..=HI { B } (usize bounds)  =>  let mut k: u128 = LO; while k <= HI { let x = k as usize; k += 1; B }   (the counter is a u128 so that HI = usize::MAX does not overflow)",
                                    "original": src[v["call"][0]:v["call"][1]], "rewritten": new})
                    continue
                if v["rule"] == "D4" and "D44" in rules and "D4" not in rules:
                    recv = src[v["recv"][0]:v["recv"][1]]
                    pat = src[v["pat"][0]:v["pat"][1]]
                    body = src[v["body"][0]:v["body"][1]]
                    m_it = re.search(r"\s*\.iter\(\)\s*$", recv)
                    if not m_it or not pat.startswith("&"):
                        raise Undecided(f"{fp}: D44 needs `X.iter().for_each(|&p| B)`")
                    recv0 = recv[:m_it.start()]
                    new = (f"{{ let mut pv_e: usize = 0; while pv_e < {recv0}.len() {{ let {pat[1:].strip()} = {recv0}[pv_e]; pv_e += 1; {body}; }} }}")
                    rewrites.append((v["call"][0], v["call"][1], new))
                    records.append({"fn": fp, "rule": "D44 X.iter().for_each(|&p| B)  =>  { let mut e = 0; while e < X.len() { let p = X[e]; e += 1; B; } }   (X is not changed by B)",
                                    "original": src[v["call"][0]:v["call"][1]], "rewritten": new})
                    continue
                if v["rule"] not in rules:
                    continue
                if v["rule"] == "D18":
                    recv = src[v["recv"][0]:v["recv"][1]]
                    lo = src[v["lo"][0]:v["lo"][1]]
                    hi = src[v["hi"][0]:v["hi"][1]]
                    arg = src[v["arg"][0]:v["arg"][1]]
                    new = f"{recv}.pv_splice({lo}, {hi}, {arg});"
                    rewrites.append((v["call"][0], v["call"][1], new))
                    records.append({"fn": fp, "rule": "D18 let _ = V.splice(LO..HI, ARG);  =>  V.pv_splice(LO, HI, ARG);   (spec/std_vec_splice.rs: the documented effect of Vec::splice whose iterator is dropped at once; panics unless LO <= HI <= len)",
                                    "original": src[v["call"][0]:v["call"][1]], "rewritten": new})
                    continue
                if v["rule"] == "D37":
                    recv = src[v["recv"][0]:v["recv"][1]]
                    xs = src[v["src"][0]:v["src"][1]]
                    new = f"{recv}.pv_extend(&{xs})"
                    rewrites.append((v["call"][0], v["call"][1], new))
                    records.append({"fn": fp, "rule": "D37 BUF.extend(X.iter().copied())  =>  BUF.pv_extend(&X)   (the elements of X are appended in order)",
                                    "original": src[v["call"][0]:v["call"][1]], "rewritten": new})
                    continue
                if v["rule"] == "D36":
                    ex = src[v["expr"][0]:v["expr"][1]]
                    names = v["names"]
                    binds = " ".join(f"let {nm} = &{ex}[{i}];" for i, nm in enumerate(names) if nm)
                    new = f"if {ex}.len() == {len(names)} {{ {binds}"
                    rewrites.append((v["call"][0], v["call"][1], new))
                    records.append({"fn": fp, "rule": "D36 if let [p0, .., pn-1] = S { B }  =>  if S.len() == n { let pi = &S[i]; B }   (identifiers and wildcards only, no rest pattern)",
                                    "original": src[v["call"][0]:v["call"][1]], "rewritten": new})
                    continue
                if v["rule"] == "D34":
                    lhs = src[v["lhs"][0]:v["lhs"][1]]
                    rhs = src[v["rhs"][0]:v["rhs"][1]]
                    new = f"{{ let pv_and = {rhs}; {lhs} = {lhs} && pv_and; }}"
                    rewrites.append((v["call"][0], v["call"][1], new))
                    records.append({"fn": fp, "rule": "D34 L &= R (bool)  =>  { let r = R; L = L && r; }   (R is evaluated unconditionally, as with `&`)",
                                    "original": src[v["call"][0]:v["call"][1]], "rewritten": new})
                    continue
                if v["rule"] == "D32":
                    recv = src[v["recv"][0]:v["recv"][1]]
                    pat = src[v["pat"][0]:v["pat"][1]]
                    body = src[v["body"][0]:v["body"][1]]
                    new = (f"{{ let mut pv_c = Vec::new(); let pv_src = {recv}; let mut pv_k: usize = 0; while pv_k < pv_src.len() {{ let {pat} = pv_src[pv_k]; pv_k += 1; "
                           f"let pv_e = {body}; pv_c.push(pv_e); }} pv_c }}")
                    rewrites.append((v["call"][0], v["call"][1], new))
                    records.append({"fn": fp, "rule": "D32 X.into_iter().map(|p| E).collect::<Vec<_>>()  =>  { let mut out = Vec::new(); index loop over X { let e = E; out.push(e) } out }   (X a vector of copyable items)",
                                    "original": src[v["call"][0]:v["call"][1]], "rewritten": new})
                    continue
                if v["rule"] == "D30":
                    pat = src[v["pat"][0]:v["pat"][1]]
                    ex = src[v["expr"][0]:v["expr"][1]]
                    # keep a loop label, if any, on the while loop
                    # the rewrite starts at the `for` keyword: a label in front of it stays in the text, but the `let`s must
                    # come before the label, so a labelled loop is wrapped in a block
                    a0 = v["call"][0]
                    if v.get("label"):
                        la = src.rfind("'" + v["label"], 0, a0)
                        if la < 0 or src[la:a0].strip() != "'" + v["label"] + ":":
                            raise Undecided(f"{fp}: D30: label of the for loop not found")
                        a0 = la
                        lab = "'" + v["label"] + ": "
                    else:
                        lab = ""
                    new = (f"let pv_seq_{pat} = {ex}; let mut pv_n_{pat}: usize = 0; {lab}while pv_n_{pat} < pv_seq_{pat}.len() {{ let {pat} = pv_seq_{pat}[pv_n_{pat}]; pv_n_{pat} += 1;")
                    rewrites.append((a0, v["call"][1], new))
                    records.append({"fn": fp, "rule": "D30 for p in E { B }  =>  let s = E; let mut n = 0; while n < s.len() { let p = s[n]; n += 1; B }   (E is evaluated once to an indexable sequence of copyable items; Verus `for` has no `continue`)",
                                    "original": src[v["call"][0]:v["call"][1]], "rewritten": new})
                    continue
                if v["rule"] == "D54":
                    pat = src[v["pat"][0]:v["pat"][1]]
                    ex = src[v["expr"][0]:v["expr"][1]]
                    new = (f"let pv_seq_{pat} = {ex}; let mut pv_n_{pat}: usize = 0; while pv_n_{pat} < pv_seq_{pat}.len() {{ let {pat} = pv_seq_{pat}[pv_n_{pat}]; pv_n_{pat} += 1;")
                    rewrites.append((v["call"][0], v["call"][1], new))
                    records.append({"fn": fp, "rule": "D54 for p in E { B } (E a vector handed over by value, copyable items)  =>  let s = E; let mut n = 0; while n < s.len() { let p = s[n]; n += 1; B }",
                                    "original": src[v["call"][0]:v["call"][1]], "rewritten": new})
                    continue
                if v["rule"] == "D69":
                    g = lambda k: src[v[k][0]:v[k][1]]
                    recv, init, fpat, fbody, acc, item, body = g("recv"), g("init"), g("fpat"), g("fbody"), g("acc"), g("item"), g("body")
                    new = (f"{{ let mut pv_acc = {init}; let mut pv_k: usize = 0; while pv_k < {recv}.len() {{ let pv_item = (pv_k, &{recv}[pv_k]); pv_k += 1; "
                           f"if {{ let {fpat} = &pv_item; {fbody} }} {{ pv_acc = {{ let {acc} = pv_acc; let {item} = pv_item; {body} }}; }} }} pv_acc }}")
                    rewrites.append((v["call"][0], v["call"][1], new))
                    records.append({"fn": fp, "rule": "D69 X.iter().enumerate().filter(|(i, _)| C).fold(INIT, |ACC, ITEM| E)  =>  { accumulator loop over (k, &X[k]): if C { acc = E } }   (filter's pattern binds references: `let (i, _) = &item`)",
                                    "original": src[v["call"][0]:v["call"][1]], "rewritten": new})
                    continue
                if v["rule"] == "D65":
                    buf = src[v["buf"][0]:v["buf"][1]]
                    recv = src[v["recv"][0]:v["recv"][1]]
                    idx = src[v["idx"][0]:v["idx"][1]]
                    pat = src[v["pat"][0]:v["pat"][1]]
                    body = src[v["body"][0]:v["body"][1]]
                    new = (f"{{ let mut pv_i: usize = 0; while pv_i < {recv}.len() {{ let {idx} = pv_i; let {pat} = &{recv}[pv_i]; pv_i += 1; let pv_e = {body}; {buf}.push(pv_e); }} }}")
                    rewrites.append((v["call"][0], v["call"][1], new))
                    records.append({"fn": fp, "rule": "D65 BUF.extend(X.iter().enumerate().map(|(i, p)| E))  =>  { index loop: let i = k; let p = &X[k]; BUF.push(E) }   (BUF a vector)",
                                    "original": src[v["call"][0]:v["call"][1]], "rewritten": new})
                    continue
                if v["rule"] == "D53":
                    recv = src[v["recv"][0]:v["recv"][1]]
                    idx = src[v["idx"][0]:v["idx"][1]]
                    pat = src[v["pat"][0]:v["pat"][1]]
                    body = src[v["body"][0]:v["body"][1]]
                    if not v.get("is_block"):
                        body = "{ " + body + "; }"
                    new = (f"{{ let mut pv_i: usize = 0; while pv_i < {recv}.len() {{ let {idx} = pv_i; let {pat} = &{recv}[pv_i]; pv_i += 1; {body} }} }}")
                    rewrites.append((v["call"][0], v["call"][1], new))
                    records.append({"fn": fp, "rule": "D53 X.iter().enumerate().for_each(|(i, p)| B)  =>  { index loop: let i = k; let p = &X[k]; B }",
                                    "original": src[v["call"][0]:v["call"][1]], "rewritten": new})
                    continue
                if v["rule"] == "D49":
                    recv = src[v["recv"][0]:v["recv"][1]]
                    pat = src[v["pat"][0]:v["pat"][1]]
                    body = src[v["body"][0]:v["body"][1]]
                    new = (f"{{ let mut pv_any = false; let mut pv_a: usize = 0; while pv_a < {recv}.len() {{ let {pat} = &{recv}[pv_a]; pv_a += 1; "
                           f"let pv_t = {body}; pv_any = pv_any || pv_t; }} pv_any }}")
                    rewrites.append((v["call"][0], v["call"][1], new))
                    records.append({"fn": fp, "rule": "D49 X.iter().any(|p| C)  =>  { let mut any = false; index loop { let t = C; any = any || t; } any }   (C is evaluated for every element: it only reads)",
                                    "original": src[v["call"][0]:v["call"][1]], "rewritten": new})
                    continue
                if v["rule"] == "D50":
                    recv = src[v["recv"][0]:v["recv"][1]]
                    pat = src[v["pat"][0]:v["pat"][1]]
                    body = src[v["body"][0]:v["body"][1]]
                    new = (f"{{ let mut pv_c = Vec::new(); let pv_src = {recv}; let mut pv_k: usize = 0; while pv_k < pv_src.len() {{ let {pat} = pv_src[pv_k]; pv_k += 1; "
                           f"let pv_e = {body}; pv_c.push(pv_e); }} pv_c }}")
                    rewrites.append((v["call"][0], v["call"][1], new))
                    records.append({"fn": fp, "rule": "D50 X.into_iter().map(|p| E) (an `impl IntoIterator` argument)  =>  the vector of the mapped items, built by an index loop (X a vector of copyable items)",
                                    "original": src[v["call"][0]:v["call"][1]], "rewritten": new})
                    continue
                if v["rule"] == "D48":
                    lhs = src[v["lhs"][0]:v["lhs"][1]]
                    rhs = src[v["rhs"][0]:v["rhs"][1]]
                    new = f"{{ let pv_or = {rhs}; {lhs} = {lhs} || pv_or; }}"
                    rewrites.append((v["call"][0], v["call"][1], new))
                    records.append({"fn": fp, "rule": "D48 L |= R (bool)  =>  { let r = R; L = L || r; }   (R is evaluated unconditionally, as with `|`)",
                                    "original": src[v["call"][0]:v["call"][1]], "rewritten": new})
                    continue
                if v["rule"] == "D47":
                    recv = src[v["recv"][0]:v["recv"][1]]
                    pat = src[v["pat"][0]:v["pat"][1]]
                    body = src[v["body"][0]:v["body"][1]]
                    new = (f"{{ let mut pv_f: Option<usize> = None; let mut pv_q: usize = 0; while pv_q < {recv}.len() {{ let {pat} = &{recv}[pv_q]; "
                           f"if {body} {{ pv_f = Some(pv_q); break; }} pv_q += 1; }} match pv_f {{ Some(pv_at) => Some(&mut {recv}[pv_at]), None => None }} }}")
                    rewrites.append((v["call"][0], v["call"][1], new))
                    records.append({"fn": fp, "rule": "D47 X.iter_mut().find(|p| C)  =>  { search loop for the first k with C for p = &X[k]; Some(&mut X[k]) or None }   (C only reads p)",
                                    "original": src[v["call"][0]:v["call"][1]], "rewritten": new})
                    continue
                if v["rule"] == "D45":
                    pat = src[v["pat"][0]:v["pat"][1]]
                    recv = src[v["recv"][0]:v["recv"][1]]
                    new = (f"while {recv}.len() > 0 {{ let {pat} = {recv}.remove(0);")
                    rewrites.append((v["call"][0], v["call"][1], new))
                    records.append({"fn": fp, "rule": "D45 for p in V.drain(..) { B }  =>  while V.len() > 0 { let p = V.remove(0); B }   (same items in the same order; when B leaves early the rest stays in V instead of being dropped - V is not used afterwards)",
                                    "original": src[v["call"][0]:v["call"][1]], "rewritten": new})
                    continue
                if v["rule"] == "D43":
                    pat = src[v["pat"][0]:v["pat"][1]]
                    lo = src[v["lo"][0]:v["lo"][1]]
                    hi = src[v["hi"][0]:v["hi"][1]]
                    new = (f"let pv_lo_{pat} = {lo}; let mut pv_rv_{pat} = {hi}; while pv_rv_{pat} > pv_lo_{pat} {{ pv_rv_{pat} -= 1; let {pat} = pv_rv_{pat};")
                    rewrites.append((v["call"][0], v["call"][1], new))
                    records.append({"fn": fp, "rule": "D43 for x in (LO..HI).rev() { B }  =>  let lo = LO; let mut n = HI; while n > lo { n -= 1; let x = n; B }   (both bounds are evaluated once, as the range expression does; no `continue` in B)",
                                    "original": src[v["call"][0]:v["call"][1]], "rewritten": new})
                    continue
                if v["rule"] == "D41":
                    pat = src[v["pat"][0]:v["pat"][1]]
                    ex = src[v["expr"][0]:v["expr"][1]]
                    new = (f"let pv_seq_{pat} = &{ex}; let mut pv_n_{pat}: usize = 0; while pv_n_{pat} < pv_seq_{pat}.len() {{ let {pat} = &pv_seq_{pat}[pv_n_{pat}]; pv_n_{pat} += 1;")
                    rewrites.append((v["call"][0], v["call"][1], new))
                    records.append({"fn": fp, "rule": "D41 for p in &E { B }  =>  let s = &E; let mut n = 0; while n < s.len() { let p = &s[n]; n += 1; B }   (E is borrowed once; the loop has no `continue` of its own, a `break` keeps its meaning)",
                                    "original": src[v["call"][0]:v["call"][1]], "rewritten": new})
                    continue
                if v["rule"] == "D31":
                    recv = src[v["recv"][0]:v["recv"][1]]
                    lo = src[v["lo"][0]:v["lo"][1]]
                    hi = src[v["hi"][0]:v["hi"][1]]
                    fn_ = "pv_slice_incl" if v.get("closed") else "pv_slice"
                    new = f"{fn_}(&{recv}, {lo}, {hi})"
                    rewrites.append((v["call"][0], v["call"][1], new))
                    records.append({"fn": fp, "rule": "D31 &V[A..B] / &V[A..=B]  =>  pv_slice(&V, A, B) / pv_slice_incl(&V, A, B)   (stubs with the sub-sequence as result and the std bounds check as precondition)",
                                    "original": src[v["call"][0]:v["call"][1]], "rewritten": new})
                    continue
                if v["rule"] == "D26":
                    recv = src[v["recv"][0]:v["recv"][1]]
                    body = src[v["body"][0]:v["body"][1]]
                    new = f"(match {recv} {{ Some(pv_some) => Some(pv_some), None => {body} }})"
                    rewrites.append((v["call"][0], v["call"][1], new))
                    records.append({"fn": fp, "rule": "D26 OPT.or_else(|| E)  =>  (match OPT { Some(x) => Some(x), None => E })",
                                    "original": src[v["call"][0]:v["call"][1]], "rewritten": new})
                    continue
                if v["rule"] == "D23":
                    recv = src[v["recv"][0]:v["recv"][1]]
                    pat = src[v["pat"][0]:v["pat"][1]]
                    body = src[v["body"][0]:v["body"][1]]
                    new = (f"{{ let mut pv_p: usize = 0; let mut pv_r: Option<usize> = None; while pv_p < {recv}.len() {{ let {pat} = &{recv}[pv_p]; "
                           f"if {body} {{ pv_r = Some(pv_p); break; }} pv_p += 1; }} pv_r }}")
                    rewrites.append((v["call"][0], v["call"][1], new))
                    records.append({"fn": fp, "rule": "D23 X.iter().position(|p| C)  =>  { index loop: the first k with C for p = &X[k], or None }",
                                    "original": src[v["call"][0]:v["call"][1]], "rewritten": new})
                    continue
                if v["rule"] == "D40":
                    rhs = src[v["rhs"][0]:v["rhs"][1]]
                    places = [src[a:b] for a, b in v["places"]]
                    assigns = " ".join(f"{pl} = pv_t.{i};" for i, pl in enumerate(places))
                    new = f"{{ let pv_t = {rhs}; {assigns} }}"
                    rewrites.append((v["call"][0], v["call"][1], new))
                    records.append({"fn": fp, "rule": "D40 (A, B) = E  =>  { let t = E; A = t.0; B = t.1; }   (E is evaluated first, then the places are assigned left to right, as the destructuring assignment does)",
                                    "original": src[v["call"][0]:v["call"][1]], "rewritten": new})
                    continue
                if v["rule"] == "D39":
                    recv = src[v["recv"][0]:v["recv"][1]]
                    init = src[v["init"][0]:v["init"][1]]
                    acc = src[v["acc"][0]:v["acc"][1]]
                    pat = src[v["pat"][0]:v["pat"][1]]
                    body = src[v["body"][0]:v["body"][1]]
                    new = (f"{{ let mut pv_acc = {init}; let mut pv_k: usize = 0; while pv_k < {recv}.len() {{ let {pat} = &{recv}[pv_k]; pv_k += 1; "
                           f"pv_acc = {{ let {acc} = pv_acc; {body} }}; }} pv_acc }}")
                    rewrites.append((v["call"][0], v["call"][1], new))
                    records.append({"fn": fp, "rule": "D39 X.iter().fold(INIT, |acc, p| E)  =>  { let mut acc = INIT; index loop { let p = &X[k]; acc = E } acc }",
                                    "original": src[v["call"][0]:v["call"][1]], "rewritten": new})
                    continue
                if v["rule"] == "D38":
                    recv = src[v["recv"][0]:v["recv"][1]]
                    fpat = src[v["fpat"][0]:v["fpat"][1]]
                    fbody = src[v["fbody"][0]:v["fbody"][1]]
                    pat = src[v["pat"][0]:v["pat"][1]]
                    body = src[v["body"][0]:v["body"][1]]
                    tail = "pv_c" if src[v["call"][0]:v["call"][1]].rstrip().endswith("collect::<Vec<_>>()") else "pv_c.into()"
                    m_t = re.search(r"collect::<([^<>]+)>\(\)$", src[v["call"][0]:v["call"][1]].rstrip())
                    if m_t and tail != "pv_c":
                        tail = f"{{ let pv_r: {m_t.group(1)} = pv_c.into(); pv_r }}"
                    # filter's closure sees `&(usize, &T)` (pattern `&(i, _)`), map's closure sees `(usize, &T)`; the pair is Copy
                    ann = ""
                    if tail == "pv_c.into()":
                        # a bare `.collect()` that is the function's tail expression: the vector has the declared return type
                        m_rt = re.search(r"->\s*(Vec<.+?>)\s*\{", src[it["start"]:it["end"]])
                        if m_rt and src[v["call"][1]:it["end"]].strip() == "}":
                            ann, tail = f": {m_rt.group(1)}", "pv_c"
                    # `|(a, b)|` on filter's `&(usize, &T)` argument binds references (default binding modes): destructure `&pv_item`
                    fsrc = "pv_item" if v.get("fderef", True) else "&pv_item"
                    once = ""
                    if v.get("tail") and v["tail"][1] > v["tail"][0]:
                        once = f" pv_c.push({src[v['tail'][0]:v['tail'][1]]});"
                    new = (f"{{ let mut pv_c{ann} = Vec::new(); let mut pv_k: usize = 0; while pv_k < {recv}.len() {{ let pv_item = (pv_k, &{recv}[pv_k]); pv_k += 1; "
                           f"if {{ let {fpat} = {fsrc}; {fbody} }} {{ let {pat} = pv_item; pv_c.push({body}); }} }}{once} {tail} }}")
                    rewrites.append((v["call"][0], v["call"][1], new))
                    records.append({"fn": fp, "rule": "D38 X.iter().enumerate().filter(|&(i, _)| C).map(|(_, q)| E)[.chain(std::iter::once(T))].collect()  =>  { let mut out = Vec::new(); index loop { let item = (k, &X[k]); if { let (i, _) = item [&item for the pattern (i, _)]; C } { let (_, q) = item; out.push(E) } } [out.push(T);] out }",
                                    "original": src[v["call"][0]:v["call"][1]], "rewritten": new})
                    continue
                if v["rule"] == "D22":
                    recv = src[v["recv"][0]:v["recv"][1]]
                    fpat = src[v["fpat"][0]:v["fpat"][1]]
                    fbody = src[v["fbody"][0]:v["fbody"][1]]
                    pat = src[v["pat"][0]:v["pat"][1]]
                    body = src[v["body"][0]:v["body"][1]]
                    tail = "pv_c" if src[v["call"][0]:v["call"][1]].rstrip().endswith("collect::<Vec<_>>()") else "pv_c.into()"
                    if (tail != "pv_c" and "ret" in it and src[it["ret"][0]:it["ret"][1]].strip().startswith("Vec<")
                            and src[v["call"][1]:it["body_close"]].strip() == ""):
                        tail = "pv_c"
                    # filter's closure sees `&&T`, map's closure sees `&T`
                    new = (f"{{ let mut pv_c = Vec::new(); let mut pv_k: usize = 0; while pv_k < {recv}.len() {{ let {pat} = &{recv}[pv_k]; pv_k += 1; "
                           f"if {{ let {fpat} = &{pat}; {fbody} }} {{ pv_c.push({body}); }} }} {tail} }}")
                    rewrites.append((v["call"][0], v["call"][1], new))
                    records.append({"fn": fp, "rule": "D22 X.iter().filter(|p| C).map(|q| E).collect()  =>  { let mut out = Vec::new(); index loop { let q = &X[k]; if { let p = &q; C } { out.push(E) } } out }",
                                    "original": src[v["call"][0]:v["call"][1]], "rewritten": new})
                    continue
                if v["rule"] == "D21":
                    recv = src[v["recv"][0]:v["recv"][1]]
                    pat = src[v["pat"][0]:v["pat"][1]]
                    body = src[v["body"][0]:v["body"][1]]
                    new = f"(match {recv} {{ Some({pat}) => {body}, None => false }})"
                    rewrites.append((v["call"][0], v["call"][1], new))
                    records.append({"fn": fp, "rule": "D21 OPT.is_some_and(|x| E)  =>  (match OPT { Some(x) => E, None => false })   (Verus does not see into a closure without its own ensures clause)",
                                    "original": src[v["call"][0]:v["call"][1]], "rewritten": new})
                    continue
                if v["rule"] == "D20":
                    recv = src[v["recv"][0]:v["recv"][1]]
                    new = f"pv_iter_copied(&{recv})"
                    rewrites.append((v["call"][0], v["call"][1], new))
                    records.append({"fn": fp, "rule": "D20 X.iter().copied() (as an argument)  =>  pv_iter_copied(&X)   (a stub value whose items are the elements of X in order)",
                                    "original": src[v["call"][0]:v["call"][1]], "rewritten": new})
                    continue
                if v["rule"] == "D19":
                    recv = src[v["recv"][0]:v["recv"][1]]
                    idx = src[v["idx"][0]:v["idx"][1]]
                    pat = src[v["pat"][0]:v["pat"][1]]
                    take = src[v["take"][0]:v["take"][1]]
                    skip = src[v["skip"][0]:v["skip"][1]]
                    new = (f"let pv_{idx}_take: usize = {take}; let pv_{idx}_end: usize = if pv_{idx}_take < {recv}.len() {{ pv_{idx}_take }} else {{ {recv}.len() }}; "
                           f"let mut pv_{idx}: usize = {skip}; while pv_{idx} < pv_{idx}_end {{ let {idx} = pv_{idx}; let {pat} = &{recv}[pv_{idx}]; pv_{idx} += 1;")
                    rewrites.append((v["call"][0], v["call"][1], new))
                    records.append({"fn": fp, "rule": "D19 for (i, p) in X.iter().enumerate().take(A).skip(B) { B }  =>  let e = min(A, X.len()); let mut k = B; while k < e { let i = k; let p = &X[k]; k += 1; B }",
                                    "original": src[v["call"][0]:v["call"][1]], "rewritten": new})
                    continue
                if v["rule"] == "D7":
                    recv = src[v["recv"][0]:v["recv"][1]]
                    stmts = src[v["block"][0] + 1:v["tail"][0]]
                    tail = src[v["tail"][0]:v["tail"][1]]
                    rest = src[v["tail"][1]:v["block"][1]]
                    if rest.strip() not in ("", ";"):
                        raise Undecided(f"{fp}: D7 candidate has trailing text after the tail expression")
                    new = ("match " + recv + " {\n Ok(pv_ok_value) => Ok(pv_ok_value),\n Err(_) => {" + stmts
                           + "Err(" + tail + ")\n}\n}")
                    rewrites.append((v["call"][0], v["call"][1], new))
                    records.append({"fn": fp, "rule": "D7 RECV.map_err(|_| { S; E })  =>  match RECV { Ok(v) => Ok(v), Err(_) => { S; Err(E) } }",
                                    "original": src[v["call"][0]:v["call"][1]], "rewritten": new})
                elif v["rule"] == "D3":
                    recv = src[v["recv"][0]:v["recv"][1]]
                    pat = src[v["pat"][0]:v["pat"][1]]
                    body = src[v["body"][0]:v["body"][1]]
                    new = ("{ let mut pv_collected = Vec::new(); for " + pat + " in " + recv + " { if " + body
                           + " { pv_collected.push(*" + pat + "); } } pv_collected }")
                    rewrites.append((v["call"][0], v["call"][1], new))
                    records.append({"fn": fp, "rule": "D3 X.iter().filter(|p| C).copied().collect::<Vec<_>>()  =>  { let mut out = Vec::new(); for p in X.iter() { if C { out.push(*p); } } out }",
                                    "original": src[v["call"][0]:v["call"][1]], "rewritten": new})
                elif v["rule"] == "D16":
                    pat = src[v["pat"][0]:v["pat"][1]]
                    lo = src[v["lo"][0]:v["lo"][1]]
                    hi = src[v["hi"][0]:v["hi"][1]]
                    new = (f"let mut pv_{pat}: i64 = ({lo}) as i64; let pv_{pat}_hi: i64 = ({hi}) as i64; while pv_{pat} <= pv_{pat}_hi {{ let {pat}: i32 = pv_{pat} as i32; pv_{pat} += 1;")
                    rewrites.append((v["call"][0], v["call"][1], new))
                    records.append({"fn": fp, "rule": "D16 for x in LO..=HI { B } (i32 bounds)  =>  let mut k: i64 = LO; while k <= HI { let x = k as i32; k += 1; B }   (the counter is an i64 so that HI = i32::MAX does not overflow)",
                                    "original": src[v["call"][0]:v["call"][1]], "rewritten": new})
                elif v["rule"] == "D1":
                    recv = src[v["recv"][0]:v["recv"][1]]
                    idx = src[v["idx"][0]:v["idx"][1]]
                    pat = src[v["pat"][0]:v["pat"][1]]
                    new = (f"let mut pv_{idx}: usize = 0; while pv_{idx} < {recv}.len() {{ let {idx} = pv_{idx}; let {pat} = &{recv}[pv_{idx}]; pv_{idx} += 1;")
                    rewrites.append((v["call"][0], v["call"][1], new))
                    records.append({"fn": fp, "rule": "D1 for (i, p) in X.iter().enumerate() { B }  =>  let mut k = 0; while k < X.len() { let i = k; let p = &X[k]; k += 1; B }",
                                    "original": src[v["call"][0]:v["call"][1]], "rewritten": new})
                elif v["rule"] == "D2":
                    recv = src[v["recv"][0]:v["recv"][1]]
                    idx = src[v["idx"][0]:v["idx"][1]]
                    pat = src[v["pat"][0]:v["pat"][1]]
                    body = src[v["body"][0]:v["body"][1]]
                    new = (f"{{ let mut pv_c = Vec::new(); let mut pv_{idx}: usize = 0; while pv_{idx} < {recv}.len() {{ let {idx} = pv_{idx}; let {pat} = &{recv}[pv_{idx}]; pv_{idx} += 1; "
                           f"match {body} {{ Some(pv_e) => {{ pv_c.push(pv_e); }} None => {{}} }} }} pv_c.into() }}")
                    rewrites.append((v["call"][0], v["call"][1], new))
                    records.append({"fn": fp, "rule": "D2 X.iter().enumerate().filter_map(|(j, q)| E).collect()  =>  { let mut out = Vec::new(); index loop { match E { Some(e) => out.push(e), None => {} } } out.into() }   (assumes FromIterator and From<Vec<_>> of the target agree)",
                                    "original": src[v["call"][0]:v["call"][1]], "rewritten": new})
                elif v["rule"] == "D15":
                    recv = src[v["recv"][0]:v["recv"][1]]
                    pat = src[v["pat"][0]:v["pat"][1]]
                    body = src[v["body"][0]:v["body"][1]]
                    if pat.startswith("&"):
                        bind = f"let {pat[1:].strip()} = {recv}[pv_k];"      # `|&x|` binds a copy of the element
                    else:
                        bind = f"let {pat} = &{recv}[pv_k];"
                    tail = "pv_c" if src[v["call"][0]:v["call"][1]].rstrip().endswith("collect::<Vec<_>>()") else "pv_c.into()"
                    # an explicit vector type as the target of the collect: the target is the vector itself
                    if re.search(r"collect::<Vec<.*>>\(\)$", src[v["call"][0]:v["call"][1]].rstrip(), re.S):
                        tail = "pv_c"
                    # the collect is the tail expression of a function declared to return a Vec: the target is the vector itself
                    if (tail != "pv_c" and "ret" in it and src[it["ret"][0]:it["ret"][1]].strip().startswith("Vec<")
                            and src[v["call"][1]:it["body_close"]].strip() == ""):
                        tail = "pv_c"
                    if tail == "pv_c.into()" and "D15:boxed" in rules:
                        tail = "pv_into_boxed(pv_c)"     # the target is a boxed slice (stub: same elements)
                    new = (f"{{ let mut pv_c = Vec::new(); let mut pv_k: usize = 0; while pv_k < {recv}.len() {{ {bind} pv_k += 1; pv_c.push({body}); }} {tail} }}")
                    rewrites.append((v["call"][0], v["call"][1], new))
                    records.append({"fn": fp, "rule": "D15 X.iter().map(|p| E).collect()  =>  { let mut out = Vec::new(); index loop { out.push(E) } out.into() }   (assumes FromIterator and From<Vec<_>> of the target agree)",
                                    "original": src[v["call"][0]:v["call"][1]], "rewritten": new})
                elif v["rule"] == "D14":
                    recv = src[v["recv"][0]:v["recv"][1]]
                    pat = src[v["pat"][0]:v["pat"][1]]
                    new = ("let mut pv_i: usize = 0; while pv_i < " + recv + ".len() { let " + pat + " = " + recv + "[pv_i]; pv_i += 1;")
                    rewrites.append((v["call"][0], v["call"][1], new))
                    records.append({"fn": fp, "rule": "D14 for p in X.iter().copied() { B }  =>  let mut i = 0; while i < X.len() { let p = X[i]; i += 1; B }   (Verus for-loops do not support `continue`)",
                                    "original": src[v["call"][0]:v["call"][1]], "rewritten": new})
                elif v["rule"] == "D13":
                    recv = src[v["recv"][0]:v["recv"][1]]
                    pat = src[v["pat"][0]:v["pat"][1]]
                    body = src[v["body"][0]:v["body"][1]]
                    if pat.startswith("&") and re.fullmatch(r"&\s*[A-Za-z_][A-Za-z_0-9]*", pat):
                        # `|&x|` (a dereferencing pattern, which Verus does not accept) binds a copy
                        new = ("match " + recv + " { Some(pv_ref) => { let " + pat[1:].strip() + " = *pv_ref; Some(" + body
                               + ") }, None => None }")
                    else:
                        new = "match " + recv + " { Some(" + pat + ") => Some(" + body + "), None => None }"
                    rewrites.append((v["call"][0], v["call"][1], new))
                    records.append({"fn": fp, "rule": "D13 OPT.map(|p| B)  =>  match OPT { Some(p) => Some(B), None => None }",
                                    "original": src[v["call"][0]:v["call"][1]], "rewritten": new})
                elif v["rule"] == "D12":
                    recv = src[v["recv"][0]:v["recv"][1]]
                    pat = src[v["pat"][0]:v["pat"][1]]
                    body = src[v["body"][0]:v["body"][1]]
                    new = ("{ let mut pv_collected = Vec::new(); for pv_item in " + recv + " { let " + pat + " = &pv_item; if " + body
                           + " { pv_collected.push(pv_item); } } pv_collected }")
                    rewrites.append((v["call"][0], v["call"][1], new))
                    records.append({"fn": fp, "rule": "D12 X.into_iter().filter(|p| C).collect::<Vec<_>>()  =>  { let mut out = Vec::new(); for item in X { let p = &item; if C { out.push(item); } } out }",
                                    "original": src[v["call"][0]:v["call"][1]], "rewritten": new})
                elif v["rule"] == "D11":
                    recv = src[v["recv"][0]:v["recv"][1]]
                    pat = src[v["pat"][0]:v["pat"][1]]
                    body = src[v["body"][0]:v["body"][1]]
                    ty = src[v["ty"][0]:v["ty"][1]]
                    new = ("{ let mut pv_sum: " + ty + " = 0; for " + pat + " in " + recv + " { pv_sum = pv_sum + (" + body
                           + "); } pv_sum }")
                    rewrites.append((v["call"][0], v["call"][1], new))
                    records.append({"fn": fp, "rule": "D11 X.iter().map(|p| E).sum::<T>()  =>  { let mut s: T = 0; for p in X.iter() { s = s + (E); } s }",
                                    "original": src[v["call"][0]:v["call"][1]], "rewritten": new})
                elif v["rule"] == "D8":
                    name = src[v["name"][0]:v["name"][1]]
                    new = "std::cmp::" + name
                    rewrites.append((v["func"][0], v["func"][1], new))
                    records.append({"fn": fp, "rule": "D8 i32::max(A, B) / i32::min(A, B)  =>  std::cmp::max(A, B) / std::cmp::min(A, B)",
                                    "original": src[v["func"][0]:v["func"][1]], "rewritten": new})
                elif v["rule"] == "D4":
                    recv = src[v["recv"][0]:v["recv"][1]]
                    pat = src[v["pat"][0]:v["pat"][1]]
                    body = src[v["body"][0]:v["body"][1]]
                    if not v.get("is_block"):
                        body = "{ " + body + "; }"
                    new = "for " + pat + " in " + recv + " " + body
                    rewrites.append((v["call"][0], v["call"][1], new))
                    records.append({"fn": fp, "rule": "D4 X.iter().for_each(|p| B)  =>  for p in X.iter() { B }",
                                    "original": src[v["call"][0]:v["call"][1]], "rewritten": new})
    if not rewrites:
        if _pass > 0 or all(r in optional for r in rules):
            return loc, []
        raise Undecided(f"{relfile}: desugaring requested for {fn_paths} but no candidate of rules {[r for r in rules if r not in optional]} found")
    if len(rewrites) != len(records):
        raise Undecided(f"{relfile}: internal error: desugaring rewrites and records out of step")
    # nested candidates: the innermost ones are rewritten in this pass, the enclosing ones in the next pass
    # (on the re-located text), so that an inner rewrite is not lost in the text an outer rule copies
    paired = sorted(zip(rewrites, records), key=lambda t: (t[0][1] - t[0][0], t[0][0]))
    chosen, postponed = [], False
    for (a, b, new), rec in paired:
        if any(not (b <= a2 or b2 <= a) for (a2, b2, _), _ in chosen):
            postponed = True
            continue
        chosen.append(((a, b, new), rec))
    chosen.sort(key=lambda t: t[0][0], reverse=True)
    for (a, b, new), _ in chosen:
        src = src[:a] + new + src[b:]
    records = [rec for _, rec in chosen]
    d = scratch("vd")
    try:
        tmp = os.path.join(d, os.path.basename(relfile))
        with open(tmp, "w", encoding="utf-8") as f:
            f.write(src)
        new_loc = _locate_path(tmp, relfile + " (desugared)")
    finally:
        rmtree(d)
    if postponed:
        if _pass >= 4:
            raise Undecided(f"{relfile}: desugaring does not reach a fixed point")
        new_loc, more = desugar(new_loc, relfile, fn_paths, rules, _pass + 1, optional)
        records += more
    return new_loc, records


def auto_inline(loc, relfile, fn_paths, known_names):
    """D9 (automatic): a call `self.h(args)` to a method `h` that is neither under contract in this unit nor part
    of the prelude is replaced by the body of `h` when `h` is a single-expression `&self` method of the same file
    (parameters substituted textually).  This keeps a refactoring that merely extracts a helper decidable: the
    caller is verified against the helper's real text.  Returns (new_loc, records) or (loc, []) if nothing to do."""
    src = loc["src"]
    rewrites, records = [], []
    helpers = {}
    for it in loc["items"]:
        if it.get("kind") == "method" and "single_expr" in it and not it["path"].startswith("mod tests::"):
            helpers.setdefault(it["name"], []).append(it)
    for fp in fn_paths:
        for it in loc["by_path"].get(fp, []):
            for c in it.get("self_calls", []):
                name = c["name"]
                if name in known_names or name not in helpers or len(helpers[name]) != 1:
                    continue
                h = helpers[name][0]
                if len(h["params"]) != len(c["args"]) or h["path"] == fp:
                    continue
                body = src[h["single_expr"][0]:h["single_expr"][1]]
                for pname, (a, b) in zip(h["params"], c["args"]):
                    body = re.sub(r"\b" + re.escape(pname) + r"\b", "(" + src[a:b].replace("\\", "\\\\") + ")", body)
                new = "(" + body + ")"
                rewrites.append((c["call"][0], c["call"][1], new))
                records.append({"fn": fp, "rule": "D9 self.h(args) => (body of the single-expression helper h with its parameters substituted)",
                                "helper": h["path"], "original": src[c["call"][0]:c["call"][1]], "rewritten": new})
    if not rewrites:
        return loc, []
    rewrites.sort(reverse=True)
    last = len(src) + 1
    for a, b, new in rewrites:
        if b > last:
            raise Undecided(f"{relfile}: nested helper calls cannot be inlined")
        src = src[:a] + new + src[b:]
        last = a
    d = scratch("vd9")
    try:
        tmp = os.path.join(d, os.path.basename(relfile))
        with open(tmp, "w", encoding="utf-8") as f:
            f.write(src)
        new_loc = _locate_path(tmp, relfile + " (helpers inlined)")
    finally:
        rmtree(d)
    return new_loc, records


def _locate_path(path, relfile):
    src_bytes = open(path, "rb").read()
    key = (path, sha(src_bytes))
    if key in _loc_cache:
        return _loc_cache[key]
    rc, out, err, _ = run([LOCATOR, path])
    if rc != 0:
        raise Undecided(f"locator failed on {relfile}: {err.strip()[:300]}")
    data = json.loads(out)
    src = src_bytes.decode("utf-8")
    # proc-macro2 reports *byte* offsets; convert them to offsets into the decoded str so that all slicing
    # below is on the decoded text (non-ASCII files are handled uniformly).
    if not src.isascii():
        b2c = {}
        b = 0
        for i, ch in enumerate(src):
            b2c[b] = i
            b += len(ch.encode("utf-8"))
        b2c[b] = len(src)

        def conv(v):
            if isinstance(v, bool):
                return v
            if isinstance(v, int):
                return b2c[v]
            if isinstance(v, list):
                return [conv(x) for x in v]
            return v
        for it in data["items"]:
            for k in list(it.keys()):
                if k in ("start", "end", "item_start", "sig_start", "sig_end", "ret", "where", "body_open",
                         "body_close", "loops", "container"):
                    it[k] = conv(it[k])
            if "single_expr" in it:
                it["single_expr"] = conv(it["single_expr"])
            for c in it.get("self_calls", []):
                c["call"] = conv(c["call"])
                c["args"] = conv(c["args"])
            for v in it.get("vd", []):
                for k in list(v.keys()):
                    if k not in ("rule", "is_block"):
                        v[k] = conv(v[k])
    data["src"] = src
    items = {}
    for it in data["items"]:
        items.setdefault(it["path"], []).append(it)
    data["by_path"] = items
    # sanity: spans must be consistent with the text
    for it in data["items"]:
        if "body_open" in it and it["kind"] in ("fn", "method", "trait_method"):
            if src[it["body_open"]] != "{" or src[it["body_close"]] != "}":
                raise Undecided(f"locator span mismatch in {relfile} at {it['path']}")
    _loc_cache[key] = data
    return data


def find_item(loc, relfile, path):
    cands = loc["by_path"].get(path, [])
    cands = [c for c in cands if not c["path"].startswith("mod tests::")]
    if not cands:
        raise Undecided(f"lost anchor: `{path}` not found in {relfile}")
    if len(cands) > 1:
        raise Undecided(f"ambiguous anchor: `{path}` occurs {len(cands)} times in {relfile}")
    return cands[0]


# ------------------------------------------------------------------------------------------------
# contracts.vspec


class FnSpec:
    def __init__(self, key):
        self.key = key
        self.ret = None
        self.sig = []        # lines
        self.attr = []
        self.body_start = []
        self.body_end = []
        self.loops = {}      # k -> lines
        self.loop_ends = {}  # k -> lines inserted before the closing brace of loop k
        self.anchored = []   # (mode, n, text, lines)
        self.used = False


def parse_vspec(path):
    specs = {}
    if not os.path.exists(path):
        return specs
    cur = None
    target = None
    raw_lines = []
    for line in read(path).split("\n"):
        # `#include <file under spec/>`: one contract text shared between the unit that proves it and the units that assume it
        if line.startswith("#include "):
            inc = os.path.join(SPEC, line.split(None, 1)[1].strip())
            if not os.path.exists(inc):
                raise Undecided(f"{path}: included contract file {inc} not found")
            raw_lines += read(inc).split("\n")
        else:
            raw_lines.append(line)
    for ln, line in enumerate(raw_lines, 1):
        if line.startswith("## "):
            key = line[3:].strip()
            if key in specs:
                raise Undecided(f"{path}:{ln}: duplicate section {key}")
            cur = FnSpec(key)
            specs[key] = cur
            target = None
            continue
        if line.startswith("#!"):      # comment line of the vspec file itself
            continue
        if line.startswith("#") and not line.startswith("#["):
            if cur is None:
                raise Undecided(f"{path}:{ln}: directive outside a section")
            parts = line[1:].split(None, 1)
            d = parts[0]
            arg = parts[1].strip() if len(parts) > 1 else ""
            if d == "ret":
                cur.ret = arg
                target = None
            elif d == "sig":
                target = cur.sig
            elif d == "attr":
                target = cur.attr
            elif d == "body_start":
                target = cur.body_start
            elif d == "body_end":
                target = cur.body_end
            elif d == "loop":
                k = int(arg)
                target = cur.loops.setdefault(k, [])
            elif d == "loop_end":
                k = int(arg)
                target = cur.loop_ends.setdefault(k, [])
            elif d in ("before", "after"):
                m = re.match(r"(\d+)\s+`(.*)`\s*$", arg)
                if not m:
                    raise Undecided(f"{path}:{ln}: bad anchor directive")
                target = []
                cur.anchored.append((d, int(m.group(1)), m.group(2), target))
            else:
                raise Undecided(f"{path}:{ln}: unknown directive #{d}")
            continue
        if target is not None:
            target.append(line)
        elif line.strip() and cur is not None:
            raise Undecided(f"{path}:{ln}: text outside a directive")
    return specs


def _ghost(lines, inline=False):
    text = "\n".join(lines).rstrip()
    if not text.strip():
        return ""
    if inline:
        return G_OPEN + text + G_CLOSE
    return G_OPEN + "\n" + text + "\n" + G_CLOSE


# ------------------------------------------------------------------------------------------------


class ExtractedFn:
    """One function of the repository, with its ghost insertions applied."""

    def __init__(self, relfile, loc, it, key, spec):
        self.relfile = relfile
        self.key = key
        self.path = it["path"]
        self.name = it["name"]
        self.it = it
        src = loc["src"]
        self.start = it["item_start"]
        # skip whitespace after dropped attributes
        while src[self.start] in " \t\r\n":
            self.start += 1
        self.end = it["end"]
        self.raw = src[self.start:self.end]
        self.dropped_attrs = src[it["start"]:self.start].strip() if it["start"] < self.start else ""
        self.closures = it.get("closures", 0)
        self.nloops = len(it.get("loops", []))
        self.repo_line = src.count("\n", 0, self.start) + 1
        ins = []   # (offset, order, text)
        if spec is not None:
            spec.used = True
            if spec.attr:
                ins.append((self.start, 0, _ghost(spec.attr) + "\n"))
            if spec.ret:
                if "ret" not in it:
                    raise Undecided(f"{key}: #ret given but the function has no return type")
                ins.append((it["ret"][0], 1, G_OPEN + "(" + spec.ret + ": " + G_CLOSE))
                ins.append((it["ret"][1], 0, G_OPEN + ")" + G_CLOSE))
            if spec.sig:
                pos = it.get("body_open")
                if pos is None:
                    pos = it["end"] - 1     # the `;` of a bodiless trait method
                ins.append((pos, 0, "\n" + _ghost(spec.sig) + "\n"))
            if spec.body_start:
                ins.append((it["body_open"] + 1, 0, "\n" + _ghost(spec.body_start)))
            if spec.body_end:
                ins.append((it["body_close"], 0, _ghost(spec.body_end) + "\n"))
            for k, lines in spec.loops.items():
                loops = it.get("loops", [])
                if k < 1 or k > len(loops):
                    raise Undecided(f"lost anchor: {key} has {len(loops)} loops, contract refers to loop {k}")
                ins.append((loops[k - 1][1], 0, "\n" + _ghost(lines) + "\n"))
            for k, lines in spec.loop_ends.items():
                loops = it.get("loops", [])
                if k < 1 or k > len(loops):
                    raise Undecided(f"lost anchor: {key} has {len(loops)} loops, contract refers to the end of loop {k}")
                ins.append((loops[k - 1][2] - 1, 0, "\n" + _ghost(lines) + "\n"))
            for mode, n, text, lines in spec.anchored:
                pos = -1
                search_from = self.start
                for _ in range(n):
                    pos = src.find(text, search_from, self.end)
                    if pos < 0:
                        break
                    search_from = pos + 1
                if pos < 0:
                    raise Undecided(f"lost anchor: {key}: statement text `{text}` (occurrence {n}) not found")
                if mode == "before":
                    ins.append((pos, 0, _ghost(lines) + "\n"))
                else:
                    ins.append((pos + len(text), 0, "\n" + _ghost(lines) + "\n"))
        ins.sort(key=lambda t: (t[0], t[1]))
        out = []
        cur = self.start
        self.segments = []   # (gen_rel_offset, repo_offset, length) of verbatim segments
        gen = 0
        for off, _, text in ins:
            if off < cur or off > self.end:
                raise Undecided(f"{key}: overlapping or out-of-range ghost insertion")
            seg = src[cur:off]
            self.segments.append((gen, cur, len(seg)))
            out.append(seg)
            gen += len(seg)
            out.append(text)
            gen += len(text)
            cur = off
        seg = src[cur:self.end]
        self.segments.append((gen, cur, len(seg)))
        out.append(seg)
        self.text = "".join(out)
        self.n_insertions = len(ins)
        erased = G_RE.sub("", self.text)
        # insertion wrappers add newlines outside the markers; erase-check is modulo whitespace only there
        if _squash(erased) != _squash(self.raw):
            raise Undecided(f"{key}: ghost erasure check failed")
        self.erasure_exact = _exec_tokens(erased) == _exec_tokens(self.raw)
        if not self.erasure_exact:
            raise Undecided(f"{key}: ghost erasure check failed (token level)")

    def repo_offset(self, gen_rel):
        for g, r, n in self.segments:
            if g <= gen_rel <= g + n:
                return r + (gen_rel - g)
        # inside ghost text: map to the next verbatim segment
        for g, r, n in self.segments:
            if g >= gen_rel:
                return r
        return self.end


def _squash(s):
    return re.sub(r"\s+", "", s)


def _exec_tokens(s):
    return re.findall(r"[A-Za-z_0-9]+|[^\sA-Za-z_0-9]", s)


class Unit:
    def __init__(self, name, root=None):
        self.name = name
        self.dir = os.path.join(UNITS, name)
        self.root = root or REPO
        cfg_path = os.path.join(self.dir, "unit.toml")
        if not os.path.exists(cfg_path):
            raise Undecided(f"unknown unit {name}")
        with open(cfg_path, "rb") as f:
            self.cfg = tomllib.load(f)
        self.properties = self.cfg.get("properties", [])
        self.arith_properties = self.cfg.get("arith_properties", ["C16"])
        self.engine = self.cfg.get("engine", "V")
        self.trusted = self.cfg.get("trusted", [])
        self.description = self.cfg.get("description", "")
        self.rlimit = self.cfg.get("rlimit", None)
        self.expected_fns = self.cfg.get("expected_verified_min", None)

    def generate(self):
        """Returns (text, meta).  meta: functions (with generated line ranges), extraction notes."""
        specs = parse_vspec(os.path.join(self.dir, "contracts.vspec"))
        slots = {}
        has = {}     # optional methods: "item::method" -> present in the repository text?
        defaults = {}       # generated line of an emitted trait default -> (key, repo file)
        default_files = {}
        fns = []
        notes = []
        deviations = []
        desugared = []
        prelude_text = read(os.path.join(self.dir, "prelude.rs"))
        for sp in re.findall(r"//@@SPEC\s+(\S+)@@", prelude_text):
            if os.path.exists(os.path.join(SPEC, sp)):
                prelude_text += read(os.path.join(SPEC, sp))
        known_names = set(re.findall(r"\bfn\s+([A-Za-z_0-9]+)", prelude_text))
        for it0 in self.cfg.get("item", []):
            known_names |= set(it0.get("methods", []))
        for item in self.cfg.get("item", []):
            relfile = item["file"]
            loc = locate(relfile, self.root)
            iid = item["id"]
            if item.get("desugar") or item.get("desugar_optional"):
                # desugar_optional: rules that only apply to shapes the pinned text does not have (a change may introduce them)
                targets = ([item["path"] + "::" + m for m in item["methods"]] if "methods" in item else [item["path"]])
                # optional methods that the impl has are desugared like the others
                targets += [item["path"] + "::" + m for m in item.get("optional_methods", []) if loc["by_path"].get(item["path"] + "::" + m)]
                loc, recs = desugar(loc, relfile, targets, list(item.get("desugar", [])) + list(item.get("desugar_optional", [])),
                                    optional=tuple(item.get("desugar_optional", [])))
                desugared += recs
            if "methods" in item and item.get("kind") not in ("macro", "raw"):
                targets = [item["path"] + "::" + m for m in item["methods"]]
                loc, recs = auto_inline(loc, relfile, targets, known_names)
                desugared += recs
            if "methods" in item:
                header_mode = item.get("header", "repo")
                cont = None
                if header_mode == "repo":
                    cands = [c for c in loc["by_path"].get(item["path"], []) if not c["path"].startswith("mod tests::")]
                    if len(cands) > 1:
                        # several impl blocks with the same header: take the one enclosing the first requested method
                        first = find_item(loc, relfile, item["path"] + "::" + item["methods"][0])
                        cands = [c for c in cands if c["start"] <= first["start"] and first["end"] <= c["end"]]
                    if len(cands) != 1:
                        raise Undecided(f"lost anchor: container `{item['path']}` not found (or ambiguous) in {relfile}")
                    cont = cands[0]
                src = loc["src"]
                parts = []
                cspec = specs.get(iid)
                if header_mode == "repo":
                    hs = cont["item_start"]
                    while src[hs] in " \t\r\n":
                        hs += 1
                    parts.append(("text", src[hs:cont["body_open"] + 1] + "\n"))
                if cspec is not None:
                    cspec.used = True
                    if cspec.body_start:
                        parts.append(("text", _ghost(cspec.body_start) + "\n"))
                else:
                    deviations.append(f"{iid}: container header `{item['path']}` supplied by the prelude, not the repository")
                for extra in item.get("assoc", []):
                    a = find_item(loc, relfile, item["path"] + "::" + extra)
                    parts.append(("text", "    " + src[a["item_start"]:a["end"]].strip() + "\n"))
                for m in item.get("optional_methods", []):
                    # a method the impl may or may not override (the trait has a default): extracted when present;
                    # the prelude can ask with /*@@HAS id::m@@*/ and supply the default with //@@IFMISSING id::m@@
                    present = bool(loc["by_path"].get(item["path"] + "::" + m))
                    has[f"{iid}::{m}"] = present
                    default_files[f"{iid}::{m}"] = relfile
                    deviations.append(f"{iid}::{m}: optional method, {'present in' if present else 'ABSENT from'} `{item['path']}` (absent = the trait default applies)")
                for m in list(item["methods"]) + [m for m in item.get("optional_methods", []) if has.get(f"{iid}::{m}")]:
                    mit = find_item(loc, relfile, item["path"] + "::" + m)
                    key = f"{iid}::{m}"
                    ef = ExtractedFn(relfile, loc, mit, key, specs.get(key))
                    fns.append(ef)
                    parts.append(("fn", ef))
                if header_mode == "repo":
                    parts.append(("text", "}\n"))
                slots[iid] = parts
            elif item.get("kind") == "macro":
                mit = find_item(loc, relfile, item["path"])
                src = loc["src"]
                text = src[mit["item_start"]:mit["end"]]
                for a, b in item.get("rewrite", []):
                    if a not in text:
                        raise Undecided(f"lost anchor: macro rewrite source `{a}` not found in {item['path']}")
                    text = text.replace(a, b)
                    deviations.append(f"{iid}: macro path rewrite `{a}` -> `{b}` (E2)")
                slots[iid] = [("text", text.strip() + "\n")]
            elif item.get("kind") == "tail":
                # the closing statements of a function, from the anchor `from` to the end of its body, copied verbatim into
                # a wrapper function whose header the prelude gives (everything before the anchor is dropped: the wrapper's
                # parameters stand for the values computed there).  `rewrite_all` replaces every occurrence of a text
                # (zero occurrences are fine); output macros that remain afterwards are not understood.
                mit = find_item(loc, relfile, item["path"])
                src = loc["src"]
                body = src[mit["start"]:mit["body_close"]]
                if body.count(item["from"]) != 1:
                    raise Undecided(f"lost anchor: tail anchor `{item['from']}` occurs {body.count(item['from'])} times in {item['path']}")
                a0 = mit["start"] + body.index(item["from"])
                text = src[a0:mit["body_close"]]
                for a, b in item.get("rewrite_all", []):
                    text = text.replace(a, b)
                if re.search(r"\b(println|print|eprintln)!", text):
                    raise Undecided(f"{iid}: an output macro in the tail of {item['path']} is not covered by the unit's rewrite_all table")
                deviations.append(f"{iid}: tail of `{item['path']}` from `{item['from']}`; the statements before it are dropped, output macros are rewritten to calls on the ghost output log ({len(item.get('rewrite_all', []))} patterns)")
                slots[iid] = [("region", (iid, relfile, text.rstrip() + "\n"))]
            elif item.get("kind") == "raw":
                # a non-function item copied verbatim (struct / enum / const / type)
                mit = find_item(loc, relfile, item["path"])
                src = loc["src"]
                s = mit["item_start"]
                while src[s] in " \t\r\n":
                    s += 1
                text = src[s:mit["end"]]
                for a, b in item.get("rewrite", []):
                    if a not in text:
                        raise Undecided(f"lost anchor: raw item rewrite source `{a}` not found in {item['path']}")
                    text = text.replace(a, b)
                    deviations.append(f"{iid}: raw item rewrite `{a}` -> `{b}` (visibility only)")
                slots[iid] = [("text", text + "\n")]
            else:
                mit = find_item(loc, relfile, item["path"])
                ef = ExtractedFn(relfile, loc, mit, iid, specs.get(iid))
                fns.append(ef)
                slots[iid] = [("fn", ef)]
        for k, s in specs.items():
            if not s.used and k not in has:
                raise Undecided(f"unit {self.name}: contract section `{k}` matches no extracted function")
        prelude = read(os.path.join(self.dir, "prelude.rs"))
        out = []
        line = 1
        used = set()

        def emit(text):
            nonlocal line
            out.append(text)
            line += text.count("\n")

        def _has(mm):
            if mm.group(1) not in has:
                raise Undecided(f"unit {self.name}: prelude asks HAS {mm.group(1)}, which is not an optional method of an item")
            return "true" if has[mm.group(1)] else "false"

        for pl in prelude.split("\n"):
            pl = re.sub(r"/\*@@HAS\s+(\S+)@@\*/", _has, pl)
            mi = re.match(r"\s*//@@IFMISSING\s+(\S+)@@\s?(.*)$", pl)
            if mi:
                if mi.group(1) not in has:
                    raise Undecided(f"unit {self.name}: prelude asks IFMISSING {mi.group(1)}, which is not an optional method of an item")
                if not has[mi.group(1)]:
                    defaults[line] = (mi.group(1), default_files.get(mi.group(1), ""), "handler not overridden (the trait's empty default applies)")
                    emit(mi.group(2) + "    // the trait's default (the impl does not override it)\n")
                else:
                    emit("\n")
                continue
            m = re.match(r"\s*//@@(EXTRACT|SPEC)\s+(\S+)@@\s*$", pl)
            if not m:
                emit(pl + "\n")
                continue
            kind, arg = m.group(1), m.group(2)
            if kind == "SPEC":
                p = os.path.join(SPEC, arg)
                if not os.path.exists(p):
                    raise Undecided(f"unit {self.name}: spec file {arg} missing")
                emit(f"// ---- spec/{arg} ----\n")
                emit(read(p).rstrip("\n") + "\n")
                emit(f"// ---- end spec/{arg} ----\n")
                continue
            if arg not in slots:
                raise Undecided(f"unit {self.name}: prelude refers to unknown item {arg}")
            used.add(arg)
            emit(f"// ---- extracted: {arg} ----\n")
            for kind2, obj in slots[arg]:
                if kind2 == "text":
                    emit(obj)
                elif kind2 == "region":
                    l0 = line
                    emit(obj[2])
                    for ln in range(l0, line + 1):
                        defaults[ln] = (obj[0], obj[1], "tail of the function")
                else:
                    ef = obj
                    ef.gen_line_start = line
                    ef.gen_char_start = sum(len(x) for x in out)
                    emit(ef.text)
                    ef.gen_line_end = line
                    emit("\n")
            emit(f"// ---- end extracted: {arg} ----\n")
        for iid in slots:
            if iid not in used:
                raise Undecided(f"unit {self.name}: item {iid} has no slot in the prelude")
        text = "".join(out)
        for ef in fns:
            if ef.dropped_attrs:
                notes.append({"fn": ef.key, "dropped_outer_attributes_and_docs_sha": sha(ef.dropped_attrs)[:12],
                              "has_cfg": "cfg(" in ef.dropped_attrs})
                if re.search(r"#\[cfg\(", ef.dropped_attrs):
                    raise Undecided(f"{ef.key}: carries a #[cfg] attribute; extraction would change its meaning")
        meta = {"functions": fns, "notes": notes, "deviations": deviations, "desugared": desugared,
                "text_sha": sha(text), "defaults": defaults}
        return text, meta
