#![feature(allocator_api)]
use vstd::prelude::*;
//@@SPEC macros.rs@@
macro_rules! debug { ($($arg:tt)*) => { } }
verus! {
// ---- propositional vocabulary (MaxSAT works on 0-1 variables) ----
pub type Asg = spec_fn(int) -> bool;
pub type Model = spec_fn(Asg) -> bool;
#[derive(Clone, Copy, PartialEq, Eq, Structural)]
pub struct Literal { pub var: u32, pub positive: bool }
pub open spec fn lit_holds(l: Literal, a: Asg) -> bool { if l.positive { a(l.var as int) } else { !a(l.var as int) } }
impl vstd::std_specs::ops::NotSpecImpl for Literal {
    open spec fn obeys_not_spec() -> bool { true }
    open spec fn not_req(self) -> bool { true }
    open spec fn not_spec(self) -> Literal { Literal { var: self.var, positive: !self.positive } }
}
impl std::ops::Not for Literal {
    type Output = Literal;
    fn not(self) -> (r: Literal) { Literal { var: self.var, positive: !self.positive } }
}
#[derive(Clone, Copy)]
pub struct Predicate { pub lit: Literal }
impl Literal {
    pub fn get_true_predicate(&self) -> (r: Predicate) ensures r.lit == *self { Predicate { lit: *self } }
}
pub trait ClauseLike { spec fn preds(&self) -> Seq<Predicate>; }
impl<const N: usize> ClauseLike for [Predicate; N] { open spec fn preds(&self) -> Seq<Predicate> { self@ } }
pub open spec fn clause_holds(c: Seq<Predicate>, a: Asg) -> bool { exists|i: int| #![trigger c[i]] 0 <= i < c.len() && lit_holds(c[i].lit, a) }

#[derive(Clone, Copy)]
pub struct WeightedLiteral { pub literal: Literal, pub weight: u64 }

// the weighted sum of the literals that hold
pub open spec fn wsum(lits: Seq<WeightedLiteral>, a: Asg) -> int decreases lits.len() {
    if lits.len() == 0 { 0 } else { wsum(lits.drop_last(), a) + if lit_holds(lits.last().literal, a) { lits.last().weight as int } else { 0 } }
}
pub open spec fn total(lits: Seq<WeightedLiteral>) -> int decreases lits.len() {
    if lits.len() == 0 { 0 } else { total(lits.drop_last()) + lits.last().weight }
}
pub type Root = spec_fn(Literal) -> Option<bool>;
// weight of the literals that are true at the root
pub open spec fn rt_sum(lits: Seq<WeightedLiteral>, root: Root) -> int decreases lits.len() {
    if lits.len() == 0 { 0 } else { rt_sum(lits.drop_last(), root) + if root(lits.last().literal) == Some(true) { lits.last().weight as int } else { 0 } }
}
// the literals without a root value, in order
pub open spec fn rest(lits: Seq<WeightedLiteral>, root: Root) -> Seq<WeightedLiteral> decreases lits.len() {
    if lits.len() == 0 { Seq::empty() } else if root(lits.last().literal) is None { rest(lits.drop_last(), root).push(lits.last()) } else { rest(lits.drop_last(), root) }
}
// an assignment that agrees with every root value
pub open spec fn respects(a: Asg, root: Root) -> bool { forall|l: Literal| #![trigger root(l)] root(l) is Some ==> lit_holds(l, a) == root(l)->Some_0 }

pub proof fn lemma_split(lits: Seq<WeightedLiteral>, root: Root, a: Asg)
    requires respects(a, root)
    ensures wsum(lits, a) == rt_sum(lits, root) + wsum(rest(lits, root), a)
    decreases lits.len()
{
    if lits.len() > 0 {
        lemma_split(lits.drop_last(), root, a);
        let l = lits.last();
        if root(l.literal) is None {
            assert(rest(lits, root).drop_last() == rest(lits.drop_last(), root));
        }
    }
}
pub proof fn lemma_lower(lits: Seq<WeightedLiteral>, j: int, root: Root, a: Asg)
    requires respects(a, root), 0 <= j < lits.len(), root(lits[j].literal) is None, lit_holds(lits[j].literal, a)
    ensures wsum(lits, a) >= rt_sum(lits, root) + lits[j].weight
    decreases lits.len()
{
    if j == lits.len() - 1 {
        lemma_split(lits.drop_last(), root, a);
        lemma_wsum_nonneg(rest(lits.drop_last(), root), a);
    } else {
        lemma_lower(lits.drop_last(), j, root, a);
    }
}
pub proof fn lemma_wsum_nonneg(lits: Seq<WeightedLiteral>, a: Asg)
    ensures 0 <= wsum(lits, a) <= total(lits)
    decreases lits.len()
{ if lits.len() > 0 { lemma_wsum_nonneg(lits.drop_last(), a); } }
pub proof fn lemma_rt_bounds(lits: Seq<WeightedLiteral>, root: Root)
    ensures 0 <= rt_sum(lits, root) <= total(lits)
    decreases lits.len()
{ if lits.len() > 0 { lemma_rt_bounds(lits.drop_last(), root); } }
pub proof fn lemma_rt_mono(lits: Seq<WeightedLiteral>, r1: Root, r2: Root)
    requires forall|l: Literal| #![trigger r1(l)] r1(l) is Some ==> r2(l) == r1(l)
    ensures rt_sum(lits, r1) <= rt_sum(lits, r2)
    decreases lits.len()
{ if lits.len() > 0 { lemma_rt_mono(lits.drop_last(), r1, r2); } }
pub proof fn lemma_total_take(lits: Seq<WeightedLiteral>, i: int)
    requires 0 <= i <= lits.len()
    ensures total(lits.take(i)) <= total(lits)
    decreases lits.len() - i
{
    if i < lits.len() {
        lemma_total_take(lits, i + 1);
        assert(lits.take(i + 1).drop_last() == lits.take(i));
    } else { assert(lits.take(i) == lits); }
}

pub proof fn lemma_rest_members(lits: Seq<WeightedLiteral>, root: Root)
    ensures forall|i: int| #![trigger rest(lits, root)[i]] 0 <= i < rest(lits, root).len() ==>
                exists|j: int| #![trigger lits[j]] 0 <= j < lits.len() && lits[j] == rest(lits, root)[i] && root(lits[j].literal) is None,
            total(rest(lits, root)) <= total(lits),
    decreases lits.len()
{
    if lits.len() > 0 {
        lemma_rest_members(lits.drop_last(), root);
        let pre = rest(lits.drop_last(), root);
        assert forall|i: int| #![trigger rest(lits, root)[i]] 0 <= i < rest(lits, root).len() implies
            exists|j: int| #![trigger lits[j]] 0 <= j < lits.len() && lits[j] == rest(lits, root)[i] && root(lits[j].literal) is None by {
            if i < pre.len() {
                assert(rest(lits, root)[i] == pre[i]);
                let j = choose|j: int| #![trigger lits.drop_last()[j]] 0 <= j < lits.drop_last().len() && lits.drop_last()[j] == pre[i] && root(lits.drop_last()[j].literal) is None;
                assert(lits[j] == lits.drop_last()[j]);
            } else {
                assert(lits[lits.len() - 1] == rest(lits, root)[i]);
            }
        }
        if root(lits.last().literal) is None {
            assert(rest(lits, root).drop_last() == pre);
        }
    }
}
#[derive(Clone, Copy)]
pub enum ConstraintOperationError { InfeasibleClause }
pub struct Solver { pub model: Ghost<Model>, pub root: Ghost<Root> }
impl Solver {
    // a root value is shared by every assignment of the model (C01/C02 at the API)
    pub open spec fn wf(&self) -> bool { forall|a: Asg| #![trigger (self.model@)(a)] (self.model@)(a) ==> respects(a, self.root@) }
    pub open spec fn unsat(&self) -> bool { forall|a: Asg| !(#[trigger] (self.model@)(a)) }
    #[verifier::external_body]
    pub fn get_literal_value(&self, literal: Literal) -> (r: Option<bool>) ensures r == (self.root@)(literal) { unimplemented!() }
    #[verifier::external_body]
    pub fn add_clause<I: ClauseLike>(&mut self, clause: I) -> (r: Result<(), ConstraintOperationError>)
        requires old(self).wf()
        ensures final(self).wf(),
            forall|a: Asg| #![trigger (final(self).model@)(a)] (final(self).model@)(a) <==> ((old(self).model@)(a) && clause_holds(clause.preds(), a)),
            forall|l: Literal| #![trigger (final(self).root@)(l)] (old(self).root@)(l) is Some ==> (final(self).root@)(l) == (old(self).root@)(l),
            // the same for a unit clause, spelled out
            clause.preds().len() == 1 ==> forall|a: Asg| #![trigger (final(self).model@)(a)] (final(self).model@)(a) <==> ((old(self).model@)(a) && lit_holds(clause.preds()[0].lit, a)),
            r is Err ==> final(self).unsat(),
    { unimplemented!() }
}

#[derive(Clone, Copy)]
pub enum PseudoBooleanEncoding { GeneralizedTotalizer, CardinalityNetwork }
#[derive(Clone, Copy)]
pub enum EncodingError { RootPropagationConflict, CannotStrengthen, TriviallyUnsatisfiable }

pub assume_specification<T> [std::mem::take] (x: &mut T) -> (r: T)
    where T: std::default::Default,
    ensures r == *old(x), call_ensures(T::default, (), *final(x));

pub struct Instant { pub x: u8 }
impl Instant {
    #[verifier::external_body] pub fn now() -> Instant { unimplemented!() }
}

// m1 = the assignments of m0 whose weighted sum is within k (read modulo auxiliary variables: ASSUMED of the encodings)
pub open spec fn restricted(m0: Model, m1: Model, lits: Seq<WeightedLiteral>, k: int) -> bool {
    forall|a: Asg| #![trigger m1(a)] #![trigger m0(a)] m1(a) <==> (m0(a) && wsum(lits, a) <= k)
}
//@@SPEC contracts/pbe_defs.rs@@
pub trait PseudoBooleanConstraintEncoderInterface {
    spec fn lits(&self) -> Seq<WeightedLiteral>;
    fn encode_at_most_k(weighted_literals: Vec<WeightedLiteral>, k: u64, solver: &mut Solver) -> (r: Result<Self, EncodingError>)
        where Self: Sized
        requires old(solver).wf()
        ensures final(solver).wf(),
            r matches Ok(e) ==> e.lits() == weighted_literals@ && restricted(old(solver).model@, final(solver).model@, weighted_literals@, k as int),
            r is Err ==> forall|a: Asg| #![trigger (old(solver).model@)(a)] (old(solver).model@)(a) ==> wsum(weighted_literals@, a) > k,
            forall|a: Asg| #![trigger (final(solver).model@)(a)] (final(solver).model@)(a) ==> (old(solver).model@)(a);
    fn strengthen_at_most_k(&mut self, k: u64, solver: &mut Solver) -> (r: Result<(), EncodingError>)
        requires old(solver).wf()
        ensures final(solver).wf(), final(self).lits() == old(self).lits(),
            r is Ok ==> restricted(old(solver).model@, final(solver).model@, old(self).lits(), k as int),
            r is Err ==> forall|a: Asg| #![trigger (old(solver).model@)(a)] (old(solver).model@)(a) ==> wsum(old(self).lits(), a) > k,
            forall|a: Asg| #![trigger (final(solver).model@)(a)] (final(solver).model@)(a) ==> (old(solver).model@)(a);
}
pub struct GeneralisedTotaliserEncoder { pub l: Ghost<Seq<WeightedLiteral>> }
pub struct CardinalityNetworkEncoder { pub l: Ghost<Seq<WeightedLiteral>> }
impl PseudoBooleanConstraintEncoderInterface for GeneralisedTotaliserEncoder {
    open spec fn lits(&self) -> Seq<WeightedLiteral> { self.l@ }
    #[verifier::external_body]
    fn encode_at_most_k(weighted_literals: Vec<WeightedLiteral>, k: u64, solver: &mut Solver) -> (r: Result<Self, EncodingError>) { unimplemented!() }
    #[verifier::external_body]
    fn strengthen_at_most_k(&mut self, k: u64, solver: &mut Solver) -> (r: Result<(), EncodingError>) { unimplemented!() }
}
impl PseudoBooleanConstraintEncoderInterface for CardinalityNetworkEncoder {
    open spec fn lits(&self) -> Seq<WeightedLiteral> { self.l@ }
    #[verifier::external_body]
    fn encode_at_most_k(weighted_literals: Vec<WeightedLiteral>, k: u64, solver: &mut Solver) -> (r: Result<Self, EncodingError>) { unimplemented!() }
    #[verifier::external_body]
    fn strengthen_at_most_k(&mut self, k: u64, solver: &mut Solver) -> (r: Result<(), EncodingError>) { unimplemented!() }
}

pub enum State {
    New(Vec<WeightedLiteral>),
    Encoded(Box<dyn PseudoBooleanConstraintEncoderInterface>),
    Preprocessed(Vec<WeightedLiteral>),
    TriviallySatisfied,
}
pub struct PseudoBooleanConstraintEncoder {
    pub state: State,
    pub constant_term: u64,
    pub k_previous: u64,
    pub encoding_algorithm: PseudoBooleanEncoding,
    // ghost: the objective this encoder was created for (never assigned by the code under contract)
    pub all: Ghost<Seq<WeightedLiteral>>,
    pub c0: Ghost<int>,
}
impl PseudoBooleanConstraintEncoder {
    pub open spec fn cost(&self, a: Asg) -> int { self.c0@ + wsum(self.all@, a) }
    // what the wrapper knows about the assignments of the current model `m`, per life-cycle state
    pub open spec fn inv(&self, m: Model) -> bool {
        &&& self.c0@ >= 0 && self.c0@ + total(self.all@) <= u64::MAX
        &&& match self.state {
            State::New(l) => l@ == self.all@ && self.constant_term == self.c0@,
            State::Preprocessed(l) => (forall|a: Asg| #![trigger m(a)] m(a) ==> self.cost(a) == self.constant_term + wsum(l@, a) && self.cost(a) <= self.k_previous)
                && self.constant_term + total(l@) <= u64::MAX,
            State::Encoded(e) => forall|a: Asg| #![trigger m(a)] m(a) ==> self.cost(a) == self.constant_term + wsum(e.lits(), a) && self.cost(a) <= self.k_previous,
            State::TriviallySatisfied => forall|a: Asg| #![trigger m(a)] m(a) ==> self.cost(a) == self.constant_term && self.cost(a) <= self.k_previous,
        }
    }
    pub open spec fn cost_fn(&self) -> spec_fn(Asg) -> int { |a: Asg| self.cost(a) }
    pub open spec fn is_new(&self) -> bool { self.state is New }
    pub open spec fn k_prev(&self) -> int { self.k_previous as int }
    // what `inv` gives the caller (the linear search needs exactly this to keep lowering the bound)
    pub proof fn lemma_inv_bounds(&self, m: Model, a: Asg)
        requires self.inv(m), !self.is_new(), m(a)
        ensures self.cost(a) <= self.k_prev()
    { }
    // the number of calls that may still leave assignments above the requested bound in the model
    pub open spec fn slack(&self) -> nat { match self.state { State::New(_) => 1, State::Preprocessed(_) => 1, _ => 0 } }

//@@EXTRACT pbe@@
}
} // verus!
fn main() {}
