//! F51 (C13): the parser dropped the right-hand side of a set-domain declaration (`var {1,3}: x = y;`) and
//! merge_equivalences skipped such declarations: x was not linked to y, assignments with x != y were printed.
//! Exit 1 = reproduced.
use std::io::Write;
use std::process::Command;

fn run(name: &str, model: &str, args: &[&str]) -> (String, String) {
    let repo = std::env::var("PUMPKIN_REPO").unwrap_or_else(|_| "/repo".into());
    let target = std::env::var("CARGO_TARGET_DIR").unwrap_or_else(|_| "/tmp/pumpkin-verif-scratch/replay-target".into());
    let path = std::env::temp_dir().join(name);
    std::fs::File::create(&path).unwrap().write_all(model.as_bytes()).unwrap();
    let out = Command::new("cargo")
        .args(["run", "--offline", "-q", "--manifest-path", &format!("{repo}/Cargo.toml"), "-p", "pumpkin-solver", "--bin", "pumpkin-solver", "--"])
        .args(args).arg(&path)
        .env("CARGO_TARGET_DIR", format!("{target}-bin")).env("RUST_BACKTRACE", "0")
        .output().expect("cannot run cargo");
    (String::from_utf8_lossy(&out.stdout).to_string(), String::from_utf8_lossy(&out.stderr).to_string())
}


fn main() {
    let (so, _se) = run("pv_f51.fzn", "var 1..3: y :: output_var;\nvar {1,3}: x :: output_var = y;\nsolve satisfy;\n", &["-a"]);
    let mut bad = 0; let mut n = 0; let (mut x, mut y) = (None, None);
    for l in so.lines() {
        if let Some(v) = l.strip_prefix("x = ") { x = v.trim_end_matches(';').parse::<i32>().ok(); }
        if let Some(v) = l.strip_prefix("y = ") { y = v.trim_end_matches(';').parse::<i32>().ok(); }
        if l.starts_with("----------") { n += 1; if x != y { bad += 1; } }
    }
    println!("var 1..3: y; var {{1,3}}: x = y; -a: {n} solutions, x != y in {bad} of them (expected 2 solutions, x = y)");
    if n == 2 && bad == 0 && so.contains("==========") { println!("ok"); } else { println!("REPRODUCED"); std::process::exit(1); }
}
