//! Span locator: prints, as JSON, the byte spans of every item of a Rust source file.
//! It only *finds spans*; the text that is verified is sliced out of the original file by the driver.
use std::fmt::Write as _;

use proc_macro2::Span;
use quote::ToTokens;
use syn::spanned::Spanned;
use syn::visit::Visit;

fn esc(s: &str) -> String {
    let mut o = String::new();
    for c in s.chars() {
        match c {
            '"' => o.push_str("\\\""),
            '\\' => o.push_str("\\\\"),
            '\n' => o.push_str("\\n"),
            '\t' => o.push_str("\\t"),
            '\r' => o.push_str("\\r"),
            c if (c as u32) < 0x20 => {
                let _ = write!(o, "\\u{:04x}", c as u32);
            }
            c => o.push(c),
        }
    }
    o
}

struct Conv {
    // char offset -> byte offset
    char_to_byte: Vec<usize>,
}
impl Conv {
    fn new(src: &str) -> Self {
        let mut v: Vec<usize> = src.char_indices().map(|(b, _)| b).collect();
        v.push(src.len());
        Conv { char_to_byte: v }
    }
    fn range(&self, s: Span) -> (usize, usize) {
        let r = s.byte_range();
        // proc-macro2's fallback byte_range is in *char* offsets for non-ASCII files in some versions;
        // we detect this by construction: the driver only accepts ASCII-clean conversions (checked there).
        let _ = &self.char_to_byte;
        (r.start, r.end)
    }
}

#[derive(Default)]
struct EscapeFinder {
    escapes: usize,
}
impl<'ast> Visit<'ast> for EscapeFinder {
    fn visit_expr_return(&mut self, _: &'ast syn::ExprReturn) {
        self.escapes += 1;
    }
    fn visit_expr_break(&mut self, _: &'ast syn::ExprBreak) {
        self.escapes += 1;
    }
    fn visit_expr_continue(&mut self, _: &'ast syn::ExprContinue) {
        self.escapes += 1;
    }
    fn visit_expr_try(&mut self, _: &'ast syn::ExprTry) {
        self.escapes += 1;
    }
}

// a `continue` without label that belongs to the loop whose body is visited (nested loops and closures are skipped)
#[derive(Default)]
struct OwnContinueFinder { found: bool }
impl<'ast> Visit<'ast> for OwnContinueFinder {
    fn visit_expr_continue(&mut self, e: &'ast syn::ExprContinue) { if e.label.is_none() { self.found = true; } }
    fn visit_expr_while(&mut self, _: &'ast syn::ExprWhile) {}
    fn visit_expr_for_loop(&mut self, _: &'ast syn::ExprForLoop) {}
    fn visit_expr_loop(&mut self, _: &'ast syn::ExprLoop) {}
    fn visit_expr_closure(&mut self, _: &'ast syn::ExprClosure) {}
}

#[derive(Default)]
struct LoopFinder {
    loops: Vec<(usize, usize, usize)>, // (expr start, body open brace, expr end)
    closures: usize,
    vd: Vec<String>, // desugaring candidates (closed list, DESIGN.md 2.1b)
    self_calls: Vec<String>, // `self.name(args)` method calls (for D9: inlining of single-expression helpers)
}
impl<'ast> Visit<'ast> for LoopFinder {
    fn visit_expr_while(&mut self, e: &'ast syn::ExprWhile) {
        let s = e.span().byte_range();
        let b = e.body.brace_token.span.open().byte_range();
        self.loops.push((s.start, b.start, s.end));
        syn::visit::visit_expr_while(self, e);
    }
    fn visit_expr_for_loop(&mut self, e: &'ast syn::ExprForLoop) {
        let s = e.span().byte_range();
        let b = e.body.brace_token.span.open().byte_range();
        self.loops.push((s.start, b.start, s.end));
        // D16: for PAT in LO..=HI { ... }   (an inclusive i32 range; rewritten to a while loop because Verus `for` has no `continue`)
        if let (syn::Pat::Ident(_), syn::Expr::Range(rg)) = (&*e.pat, &*e.expr) {
            if let (Some(lo), Some(hi), syn::RangeLimits::Closed(_)) = (&rg.start, &rg.end, &rg.limits) {
                let p0 = e.pat.span().byte_range();
                let l = lo.span().byte_range();
                let h = hi.span().byte_range();
                self.vd.push(format!(
                    "{{\"rule\":\"D16\",\"call\":[{},{}],\"pat\":[{},{}],\"lo\":[{},{}],\"hi\":[{},{}]}}",
                    s.start, b.start + 1, p0.start, p0.end, l.start, l.end, h.start, h.end
                ));
            }
        }
        // D1: for (I, P) in X.iter().enumerate() { ... }
        if let (syn::Pat::Tuple(pt), syn::Expr::MethodCall(en)) = (&*e.pat, &*e.expr) {
            if en.method == "enumerate" && en.args.is_empty() && pt.elems.len() == 2 {
                if let (syn::Expr::MethodCall(it), syn::Pat::Ident(_), syn::Pat::Ident(_)) = (&*en.receiver, &pt.elems[0], &pt.elems[1]) {
                    if it.method == "iter" && it.args.is_empty() {
                        let recv = it.receiver.span().byte_range();
                        let p0 = pt.elems[0].span().byte_range();
                        let p1 = pt.elems[1].span().byte_range();
                        self.vd.push(format!(
                            "{{\"rule\":\"D1\",\"call\":[{},{}],\"recv\":[{},{}],\"idx\":[{},{}],\"pat\":[{},{}]}}",
                            s.start, b.start + 1, recv.start, recv.end, p0.start, p0.end, p1.start, p1.end
                        ));
                    }
                }
            }
        }
        // D30: for PAT in EXPR { ... }   (PAT an identifier; EXPR evaluated once to an indexable sequence).  Only loops
        // that Verus cannot take as they are: a `continue` of their own, or a label (target of a labelled break).
        if let syn::Pat::Ident(_) = &*e.pat {
            let mut cf = OwnContinueFinder::default();
            cf.visit_block(&e.body);
            if cf.found || e.label.is_some() {
                let p0 = e.pat.span().byte_range();
                let ex = e.expr.span().byte_range();
                let label = match &e.label { Some(l) => format!("\"{}\"", l.name.ident), None => "null".to_string() };
                let for_kw = e.for_token.span().byte_range();
                self.vd.push(format!(
                    "{{\"rule\":\"D30\",\"call\":[{},{}],\"pat\":[{},{}],\"expr\":[{},{}],\"label\":{}}}",
                    for_kw.start, b.start + 1, p0.start, p0.end, ex.start, ex.end, label
                ));
            }
        }
        // D54: for PAT in EXPR { ... } over a vector handed over by value (EXPR a call or a path; no `continue`, no label)
        if let syn::Pat::Ident(_) = &*e.pat {
            let by_value = matches!(&*e.expr, syn::Expr::Path(_))
                || matches!(&*e.expr, syn::Expr::MethodCall(m) if !["iter", "iter_mut", "enumerate", "rev", "drain", "copied", "into_iter", "skip", "take", "flatten"].contains(&m.method.to_string().as_str()))
                || matches!(&*e.expr, syn::Expr::Call(_));
            if by_value && e.label.is_none() {
                let mut cf = OwnContinueFinder::default();
                cf.visit_block(&e.body);
                if !cf.found {
                    let p0 = e.pat.span().byte_range();
                    let ex = e.expr.span().byte_range();
                    let for_kw = e.for_token.span().byte_range();
                    self.vd.push(format!(
                        "{{\"rule\":\"D54\",\"call\":[{},{}],\"pat\":[{},{}],\"expr\":[{},{}]}}",
                        for_kw.start, b.start + 1, p0.start, p0.end, ex.start, ex.end
                    ));
                }
            }
        }
        // D45: for PAT in V.drain(..) { ... }   (the whole vector is drained front to back)
        if let syn::Expr::MethodCall(dr) = &*e.expr {
            if dr.method == "drain" && dr.args.len() == 1 && e.label.is_none() {
                if let syn::Expr::Range(rg) = &dr.args[0] {
                    if rg.start.is_none() && rg.end.is_none() {
                        let mut cf = OwnContinueFinder::default();
                        cf.visit_block(&e.body);
                        if !cf.found {
                            let p0 = e.pat.span().byte_range();
                            let rv = dr.receiver.span().byte_range();
                            let for_kw = e.for_token.span().byte_range();
                            self.vd.push(format!(
                                "{{\"rule\":\"D45\",\"call\":[{},{}],\"pat\":[{},{}],\"recv\":[{},{}]}}",
                                for_kw.start, b.start + 1, p0.start, p0.end, rv.start, rv.end
                            ));
                        }
                    }
                }
            }
        }
        // D43: for PAT in (LO..HI).rev() { ... }
        if let (syn::Pat::Ident(_), syn::Expr::MethodCall(rv)) = (&*e.pat, &*e.expr) {
            if rv.method == "rev" && rv.args.is_empty() && e.label.is_none() {
                if let syn::Expr::Paren(pr) = &*rv.receiver {
                    if let syn::Expr::Range(rg) = &*pr.expr {
                        if let (Some(lo), Some(hi), syn::RangeLimits::HalfOpen(_)) = (&rg.start, &rg.end, &rg.limits) {
                            let mut cf = OwnContinueFinder::default();
                            cf.visit_block(&e.body);
                            if !cf.found {
                                let p0 = e.pat.span().byte_range();
                                let l = lo.span().byte_range();
                                let h = hi.span().byte_range();
                                let for_kw = e.for_token.span().byte_range();
                                self.vd.push(format!(
                                    "{{\"rule\":\"D43\",\"call\":[{},{}],\"pat\":[{},{}],\"lo\":[{},{}],\"hi\":[{},{}]}}",
                                    for_kw.start, b.start + 1, p0.start, p0.end, l.start, l.end, h.start, h.end
                                ));
                            }
                        }
                    }
                }
            }
        }
        // D41: for PAT in &EXPR { ... }   (PAT an identifier bound to a reference to each item of an indexable sequence)
        if let (syn::Pat::Ident(_), syn::Expr::Reference(rf)) = (&*e.pat, &*e.expr) {
            if rf.mutability.is_none() && e.label.is_none() {
                let mut cf = OwnContinueFinder::default();
                cf.visit_block(&e.body);
                if !cf.found {
                    let p0 = e.pat.span().byte_range();
                    let ex = rf.expr.span().byte_range();
                    let for_kw = e.for_token.span().byte_range();
                    self.vd.push(format!(
                        "{{\"rule\":\"D41\",\"call\":[{},{}],\"pat\":[{},{}],\"expr\":[{},{}]}}",
                        for_kw.start, b.start + 1, p0.start, p0.end, ex.start, ex.end
                    ));
                }
            }
        }
        // D19: for (I, P) in X.iter().enumerate().take(A).skip(B) { ... }
        if let (syn::Pat::Tuple(pt), syn::Expr::MethodCall(sk)) = (&*e.pat, &*e.expr) {
            if sk.method == "skip" && sk.args.len() == 1 && pt.elems.len() == 2 {
                if let syn::Expr::MethodCall(tk) = &*sk.receiver {
                    if tk.method == "take" && tk.args.len() == 1 {
                        if let syn::Expr::MethodCall(en) = &*tk.receiver {
                            if en.method == "enumerate" && en.args.is_empty() {
                                if let (syn::Expr::MethodCall(it), syn::Pat::Ident(_), syn::Pat::Ident(_)) = (&*en.receiver, &pt.elems[0], &pt.elems[1]) {
                                    if it.method == "iter" && it.args.is_empty() {
                                        let recv = it.receiver.span().byte_range();
                                        let p0 = pt.elems[0].span().byte_range();
                                        let p1 = pt.elems[1].span().byte_range();
                                        let ta = tk.args[0].span().byte_range();
                                        let sa = sk.args[0].span().byte_range();
                                        self.vd.push(format!(
                                            "{{\"rule\":\"D19\",\"call\":[{},{}],\"recv\":[{},{}],\"idx\":[{},{}],\"pat\":[{},{}],\"take\":[{},{}],\"skip\":[{},{}]}}",
                                            s.start, b.start + 1, recv.start, recv.end, p0.start, p0.end, p1.start, p1.end, ta.start, ta.end, sa.start, sa.end
                                        ));
                                    }
                                }
                            }
                        }
                    }
                }
            }
        }
        // D14: for PAT in X.iter().copied() { ... }
        if let syn::Expr::MethodCall(cp) = &*e.expr {
            if cp.method == "copied" && cp.args.is_empty() {
                if let syn::Expr::MethodCall(it) = &*cp.receiver {
                    if it.method == "iter" && it.args.is_empty() {
                        let pat = e.pat.span().byte_range();
                        let recv = it.receiver.span().byte_range();
                        self.vd.push(format!(
                            "{{\"rule\":\"D14\",\"call\":[{},{}],\"recv\":[{},{}],\"pat\":[{},{}]}}",
                            s.start, b.start + 1, recv.start, recv.end, pat.start, pat.end
                        ));
                    }
                }
            }
        }
        syn::visit::visit_expr_for_loop(self, e);
    }
    fn visit_local(&mut self, l: &'ast syn::Local) {
        // D18: let _ = V.splice(LO..HI, ARG);   (the Splice iterator is dropped at once: the range is replaced by ARG)
        if let (syn::Pat::Wild(_), Some(init)) = (&l.pat, &l.init) {
            if let (syn::Expr::MethodCall(sp), None) = (&*init.expr, &init.diverge) {
                if sp.method == "splice" && sp.args.len() == 2 {
                    if let syn::Expr::Range(rg) = &sp.args[0] {
                        if let (Some(lo), Some(hi), syn::RangeLimits::HalfOpen(_)) = (&rg.start, &rg.end, &rg.limits) {
                            let st = l.span().byte_range();
                            let recv = sp.receiver.span().byte_range();
                            let lo = lo.span().byte_range();
                            let hi = hi.span().byte_range();
                            let arg = sp.args[1].span().byte_range();
                            self.vd.push(format!(
                                "{{\"rule\":\"D18\",\"call\":[{},{}],\"recv\":[{},{}],\"lo\":[{},{}],\"hi\":[{},{}],\"arg\":[{},{}]}}",
                                st.start, st.end, recv.start, recv.end, lo.start, lo.end, hi.start, hi.end, arg.start, arg.end
                            ));
                        }
                    }
                }
            }
        }
        syn::visit::visit_local(self, l);
    }
    fn visit_expr_loop(&mut self, e: &'ast syn::ExprLoop) {
        let s = e.span().byte_range();
        let b = e.body.brace_token.span.open().byte_range();
        self.loops.push((s.start, b.start, s.end));
        syn::visit::visit_expr_loop(self, e);
    }
    fn visit_expr_reference(&mut self, e: &'ast syn::ExprReference) {
        // D31: &V[A..B] / &V[A..=B]
        if e.mutability.is_none() {
            if let syn::Expr::Index(ix) = &*e.expr {
                if let syn::Expr::Range(rg) = &*ix.index {
                    if let (Some(lo), Some(hi)) = (&rg.start, &rg.end) {
                        let call = e.span().byte_range();
                        let recv = ix.expr.span().byte_range();
                        let l = lo.span().byte_range();
                        let h = hi.span().byte_range();
                        let closed = matches!(rg.limits, syn::RangeLimits::Closed(_));
                        self.vd.push(format!(
                            "{{\"rule\":\"D31\",\"call\":[{},{}],\"recv\":[{},{}],\"lo\":[{},{}],\"hi\":[{},{}],\"closed\":{}}}",
                            call.start, call.end, recv.start, recv.end, l.start, l.end, h.start, h.end, closed
                        ));
                    }
                }
            }
        }
        syn::visit::visit_expr_reference(self, e);
    }
    fn visit_expr_assign(&mut self, e: &'ast syn::ExprAssign) {
        // D40: (A, B, ..) = E   (destructuring assignment to place expressions)
        if let syn::Expr::Tuple(t) = &*e.left {
            if t.elems.len() >= 2 && t.elems.iter().all(|x| matches!(x, syn::Expr::Field(_) | syn::Expr::Path(_))) {
                let call = e.span().byte_range();
                let r = e.right.span().byte_range();
                let places: Vec<String> = t.elems.iter().map(|x| { let b = x.span().byte_range(); format!("[{},{}]", b.start, b.end) }).collect();
                self.vd.push(format!(
                    "{{\"rule\":\"D40\",\"call\":[{},{}],\"rhs\":[{},{}],\"places\":[{}]}}",
                    call.start, call.end, r.start, r.end, places.join(",")
                ));
            }
        }
        syn::visit::visit_expr_assign(self, e);
    }
    fn visit_expr_binary(&mut self, e: &'ast syn::ExprBinary) {
        // D48: L |= R  (on bools: Verus has no non-short-circuit `|`)
        if let syn::BinOp::BitOrAssign(_) = e.op {
            let call = e.span().byte_range();
            let l = e.left.span().byte_range();
            let r = e.right.span().byte_range();
            self.vd.push(format!(
                "{{\"rule\":\"D48\",\"call\":[{},{}],\"lhs\":[{},{}],\"rhs\":[{},{}]}}",
                call.start, call.end, l.start, l.end, r.start, r.end
            ));
        }
        // D34: L &= R  (on bools: Verus has no non-short-circuit `&`)
        if let syn::BinOp::BitAndAssign(_) = e.op {
            let call = e.span().byte_range();
            let l = e.left.span().byte_range();
            let r = e.right.span().byte_range();
            self.vd.push(format!(
                "{{\"rule\":\"D34\",\"call\":[{},{}],\"lhs\":[{},{}],\"rhs\":[{},{}]}}",
                call.start, call.end, l.start, l.end, r.start, r.end
            ));
        }
        syn::visit::visit_expr_binary(self, e);
    }
    fn visit_expr_if(&mut self, e: &'ast syn::ExprIf) {
        // D36: if let [P0, P1, ..] = S { ... }  with only identifiers / wildcards and no rest pattern
        if let syn::Expr::Let(l) = &*e.cond {
            if let syn::Pat::Slice(ps) = &*l.pat {
                let simple = ps.elems.iter().all(|p| matches!(p, syn::Pat::Ident(pi) if pi.by_ref.is_none() && pi.mutability.is_none() && pi.subpat.is_none()) || matches!(p, syn::Pat::Wild(_)));
                if simple {
                    let start = e.if_token.span().byte_range().start;
                    let open = e.then_branch.brace_token.span.open().byte_range();
                    let ex = l.expr.span().byte_range();
                    let names: Vec<String> = ps.elems.iter().map(|p| match p { syn::Pat::Ident(pi) => format!("\"{}\"", pi.ident), _ => "null".to_string() }).collect();
                    self.vd.push(format!(
                        "{{\"rule\":\"D36\",\"call\":[{},{}],\"expr\":[{},{}],\"names\":[{}]}}",
                        start, open.start + 1, ex.start, ex.end, names.join(",")
                    ));
                }
            }
        }
        syn::visit::visit_expr_if(self, e);
    }
    fn visit_expr_closure(&mut self, e: &'ast syn::ExprClosure) {
        self.closures += 1;
        syn::visit::visit_expr_closure(self, e);
    }
    fn visit_expr_call(&mut self, e: &'ast syn::ExprCall) {
        // D8: `i32::max(A, B)` / `i32::min(A, B)` (provided trait methods of Ord, called by path)
        if let syn::Expr::Path(p) = &*e.func {
            let segs: Vec<String> = p.path.segments.iter().map(|s| s.ident.to_string()).collect();
            if segs.len() == 2 && segs[0] == "i32" && (segs[1] == "max" || segs[1] == "min") && e.args.len() == 2 {
                let f = e.func.span().byte_range();
                self.vd.push(format!(
                    "{{\"rule\":\"D8\",\"func\":[{},{}],\"name\":[{},{}]}}",
                    f.start, f.end,
                    p.path.segments[1].ident.span().byte_range().start, p.path.segments[1].ident.span().byte_range().end
                ));
            }
        }
        syn::visit::visit_expr_call(self, e);
    }
    fn visit_expr_method_call(&mut self, e: &'ast syn::ExprMethodCall) {
        if let syn::Expr::Path(rp) = &*e.receiver {
            if rp.path.is_ident("self") {
                let call = e.span().byte_range();
                let args: Vec<String> = e.args.iter().map(|a| { let r = a.span().byte_range(); format!("[{},{}]", r.start, r.end) }).collect();
                self.self_calls.push(format!(
                    "{{\"name\":\"{}\",\"call\":[{},{}],\"args\":[{}]}}",
                    e.method, call.start, call.end, args.join(",")
                ));
            }
        }
        // D23: X.iter().position(|P| C)
        if e.method == "position" && e.args.len() == 1 {
            if let (syn::Expr::Closure(c), syn::Expr::MethodCall(it)) = (&e.args[0], &*e.receiver) {
                if it.method == "iter" && it.args.is_empty() && c.inputs.len() == 1 && matches!(c.inputs[0], syn::Pat::Ident(_)) {
                    let mut ef = EscapeFinder::default();
                    ef.visit_expr(&c.body);
                    if ef.escapes == 0 {
                        let call = e.span().byte_range();
                        let recv = it.receiver.span().byte_range();
                        let pat = c.inputs[0].span().byte_range();
                        let body = c.body.span().byte_range();
                        self.vd.push(format!(
                            "{{\"rule\":\"D23\",\"call\":[{},{}],\"recv\":[{},{}],\"pat\":[{},{}],\"body\":[{},{}]}}",
                            call.start, call.end, recv.start, recv.end, pat.start, pat.end, body.start, body.end
                        ));
                    }
                }
            }
        }
        // D49: X.iter().any(|P| C)
        if e.method == "any" && e.args.len() == 1 {
            if let (syn::Expr::Closure(c), syn::Expr::MethodCall(it)) = (&e.args[0], &*e.receiver) {
                if it.method == "iter" && it.args.is_empty() && c.inputs.len() == 1 && matches!(c.inputs[0], syn::Pat::Ident(_)) {
                    let mut ef = EscapeFinder::default();
                    ef.visit_expr(&c.body);
                    if ef.escapes == 0 {
                        let call = e.span().byte_range();
                        let recv = it.receiver.span().byte_range();
                        let pat = c.inputs[0].span().byte_range();
                        let body = c.body.span().byte_range();
                        self.vd.push(format!(
                            "{{\"rule\":\"D49\",\"call\":[{},{}],\"recv\":[{},{}],\"pat\":[{},{}],\"body\":[{},{}]}}",
                            call.start, call.end, recv.start, recv.end, pat.start, pat.end, body.start, body.end
                        ));
                    }
                }
            }
        }
        // D50: X.into_iter().map(|P| E)   (handed on as an `impl IntoIterator` argument)
        if e.method == "map" && e.args.len() == 1 {
            if let (syn::Expr::Closure(c), syn::Expr::MethodCall(it)) = (&e.args[0], &*e.receiver) {
                if it.method == "into_iter" && it.args.is_empty() && c.inputs.len() == 1 && matches!(c.inputs[0], syn::Pat::Ident(_)) {
                    let mut ef = EscapeFinder::default();
                    ef.visit_expr(&c.body);
                    if ef.escapes == 0 {
                        let call = e.span().byte_range();
                        let recv = it.receiver.span().byte_range();
                        let pat = c.inputs[0].span().byte_range();
                        let body = c.body.span().byte_range();
                        self.vd.push(format!(
                            "{{\"rule\":\"D50\",\"call\":[{},{}],\"recv\":[{},{}],\"pat\":[{},{}],\"body\":[{},{}]}}",
                            call.start, call.end, recv.start, recv.end, pat.start, pat.end, body.start, body.end
                        ));
                    }
                }
            }
        }
        // D47: X.iter_mut().find(|P| C)
        if e.method == "find" && e.args.len() == 1 {
            if let (syn::Expr::Closure(c), syn::Expr::MethodCall(it)) = (&e.args[0], &*e.receiver) {
                if it.method == "iter_mut" && it.args.is_empty() && c.inputs.len() == 1 && matches!(c.inputs[0], syn::Pat::Ident(_)) {
                    let mut ef = EscapeFinder::default();
                    ef.visit_expr(&c.body);
                    if ef.escapes == 0 {
                        let call = e.span().byte_range();
                        let recv = it.receiver.span().byte_range();
                        let pat = c.inputs[0].span().byte_range();
                        let body = c.body.span().byte_range();
                        self.vd.push(format!(
                            "{{\"rule\":\"D47\",\"call\":[{},{}],\"recv\":[{},{}],\"pat\":[{},{}],\"body\":[{},{}]}}",
                            call.start, call.end, recv.start, recv.end, pat.start, pat.end, body.start, body.end
                        ));
                    }
                }
            }
        }
        // D39: X.iter().fold(INIT, |ACC, P| BODY)
        if e.method == "fold" && e.args.len() == 2 {
            if let (syn::Expr::Closure(c), syn::Expr::MethodCall(it)) = (&e.args[1], &*e.receiver) {
                if it.method == "iter" && it.args.is_empty() && c.inputs.len() == 2 && matches!(c.inputs[1], syn::Pat::Ident(_)) {
                    let mut ef = EscapeFinder::default();
                    ef.visit_expr(&c.body);
                    if ef.escapes == 0 {
                        let call = e.span().byte_range();
                        let recv = it.receiver.span().byte_range();
                        let init = e.args[0].span().byte_range();
                        let acc = c.inputs[0].span().byte_range();
                        let pat = c.inputs[1].span().byte_range();
                        let body = c.body.span().byte_range();
                        self.vd.push(format!(
                            "{{\"rule\":\"D39\",\"call\":[{},{}],\"recv\":[{},{}],\"init\":[{},{}],\"acc\":[{},{}],\"pat\":[{},{}],\"body\":[{},{}]}}",
                            call.start, call.end, recv.start, recv.end, init.start, init.end, acc.start, acc.end, pat.start, pat.end, body.start, body.end
                        ));
                    }
                }
            }
        }
        // D37: BUF.extend(X.iter().copied())
        if e.method == "extend" && e.args.len() == 1 {
            if let syn::Expr::MethodCall(cp) = &e.args[0] {
                if cp.method == "copied" && cp.args.is_empty() {
                    if let syn::Expr::MethodCall(it) = &*cp.receiver {
                        if it.method == "iter" && it.args.is_empty() {
                            let call = e.span().byte_range();
                            let recv = e.receiver.span().byte_range();
                            let src_ = it.receiver.span().byte_range();
                            self.vd.push(format!(
                                "{{\"rule\":\"D37\",\"call\":[{},{}],\"recv\":[{},{}],\"src\":[{},{}]}}",
                                call.start, call.end, recv.start, recv.end, src_.start, src_.end
                            ));
                        }
                    }
                }
            }
        }
        // D26: OPT.or_else(|| E)
        if e.method == "or_else" && e.args.len() == 1 {
            if let syn::Expr::Closure(c) = &e.args[0] {
                if c.inputs.is_empty() {
                    let mut ef = EscapeFinder::default();
                    ef.visit_expr(&c.body);
                    if ef.escapes == 0 {
                        let call = e.span().byte_range();
                        let recv = e.receiver.span().byte_range();
                        let body = c.body.span().byte_range();
                        self.vd.push(format!(
                            "{{\"rule\":\"D26\",\"call\":[{},{}],\"recv\":[{},{}],\"body\":[{},{}]}}",
                            call.start, call.end, recv.start, recv.end, body.start, body.end
                        ));
                    }
                }
            }
        }
        // D21: OPT.is_some_and(|X| E)   (X an identifier, E without return/break/continue/?)
        if e.method == "is_some_and" && e.args.len() == 1 {
            if let syn::Expr::Closure(c) = &e.args[0] {
                if c.inputs.len() == 1 && matches!(c.inputs[0], syn::Pat::Ident(_)) {
                    let mut ef = EscapeFinder::default();
                    ef.visit_expr(&c.body);
                    if ef.escapes == 0 {
                        let call = e.span().byte_range();
                        let recv = e.receiver.span().byte_range();
                        let pat = c.inputs[0].span().byte_range();
                        let body = c.body.span().byte_range();
                        self.vd.push(format!(
                            "{{\"rule\":\"D21\",\"call\":[{},{}],\"recv\":[{},{}],\"pat\":[{},{}],\"body\":[{},{}]}}",
                            call.start, call.end, recv.start, recv.end, pat.start, pat.end, body.start, body.end
                        ));
                    }
                }
            }
        }
        // D20: X.iter().copied() used as a value (an argument): the elements of X in order
        if e.method == "copied" && e.args.is_empty() {
            if let syn::Expr::MethodCall(it) = &*e.receiver {
                if it.method == "iter" && it.args.is_empty() {
                    let call = e.span().byte_range();
                    let recv = it.receiver.span().byte_range();
                    self.vd.push(format!(
                        "{{\"rule\":\"D20\",\"call\":[{},{}],\"recv\":[{},{}]}}",
                        call.start, call.end, recv.start, recv.end
                    ));
                }
            }
        }
        // D7: RECV.map_err(|_| { STMTS; TAIL })   (closure ignores its argument, body has no return/break/continue/?)
        if e.method == "map_err" && e.args.len() == 1 {
            if let syn::Expr::Closure(c) = &e.args[0] {
                let ignores = c.inputs.len() == 1 && matches!(c.inputs[0], syn::Pat::Wild(_));
                if let (true, syn::Expr::Block(b)) = (ignores, &*c.body) {
                    let mut ef = EscapeFinder::default();
                    ef.visit_block(&b.block);
                    if let (0, Some(syn::Stmt::Expr(tail, None))) = (ef.escapes, b.block.stmts.last()) {
                        let call = e.span().byte_range();
                        let recv = e.receiver.span().byte_range();
                        let open = b.block.brace_token.span.open().byte_range().start;
                        let close = b.block.brace_token.span.close().byte_range().start;
                        let t = tail.span().byte_range();
                        self.vd.push(format!(
                            "{{\"rule\":\"D7\",\"call\":[{},{}],\"recv\":[{},{}],\"block\":[{},{}],\"tail\":[{},{}]}}",
                            call.start, call.end, recv.start, recv.end, open, close, t.start, t.end
                        ));
                    }
                }
            }
        }
        // D3: X.iter().filter(|PAT| COND).copied().collect::<Vec<_>>()
        if e.method == "collect" && e.args.is_empty() {
            if let syn::Expr::MethodCall(cp) = &*e.receiver {
                if cp.method == "copied" && cp.args.is_empty() {
                    if let syn::Expr::MethodCall(fl) = &*cp.receiver {
                        if fl.method == "filter" && fl.args.len() == 1 {
                            if let (syn::Expr::Closure(c), syn::Expr::MethodCall(it)) = (&fl.args[0], &*fl.receiver) {
                                if it.method == "iter" && it.args.is_empty() && c.inputs.len() == 1 {
                                    let mut ef = EscapeFinder::default();
                                    ef.visit_expr(&c.body);
                                    if ef.escapes == 0 {
                                        let call = e.span().byte_range();
                                        let recv = fl.receiver.span().byte_range();
                                        let pat = c.inputs[0].span().byte_range();
                                        let body = c.body.span().byte_range();
                                        self.vd.push(format!(
                                            "{{\"rule\":\"D3\",\"call\":[{},{}],\"recv\":[{},{}],\"pat\":[{},{}],\"body\":[{},{}]}}",
                                            call.start, call.end, recv.start, recv.end, pat.start, pat.end, body.start, body.end
                                        ));
                                    }
                                }
                            }
                        }
                    }
                }
            }
        }
        // D2: X.iter().enumerate().filter_map(|(J, Q)| BODY).collect()      D15: X.iter().map(|P| E).collect()
        if e.method == "collect" && e.args.is_empty() {
            // D38 with one trailing element: ...map(..).chain(std::iter::once(T)).collect()
            if let syn::Expr::MethodCall(ch) = &*e.receiver {
                if ch.method == "chain" && ch.args.len() == 1 {
                    if let (syn::Expr::Call(c), syn::Expr::MethodCall(inner)) = (&ch.args[0], &*ch.receiver) {
                        let fname = src_of_path(&c.func);
                        if (fname == "std::iter::once" || fname == "iter::once" || fname == "once") && c.args.len() == 1 {
                            let t = c.args[0].span().byte_range();
                            self.try_d38(e, inner, Some((t.start, t.end)));
                        }
                    }
                }
            }
            if let syn::Expr::MethodCall(fm) = &*e.receiver {
                if fm.method == "filter_map" && fm.args.len() == 1 {
                    if let (syn::Expr::Closure(c), syn::Expr::MethodCall(en)) = (&fm.args[0], &*fm.receiver) {
                        if en.method == "enumerate" && en.args.is_empty() && c.inputs.len() == 1 {
                            if let (syn::Expr::MethodCall(it), syn::Pat::Tuple(pt)) = (&*en.receiver, &c.inputs[0]) {
                                if it.method == "iter" && it.args.is_empty() && pt.elems.len() == 2 {
                                    let mut ef = EscapeFinder::default();
                                    ef.visit_expr(&c.body);
                                    if ef.escapes == 0 {
                                        let call = e.span().byte_range();
                                        let recv = it.receiver.span().byte_range();
                                        let p0 = pt.elems[0].span().byte_range();
                                        let p1 = pt.elems[1].span().byte_range();
                                        let body = c.body.span().byte_range();
                                        self.vd.push(format!(
                                            "{{\"rule\":\"D2\",\"call\":[{},{}],\"recv\":[{},{}],\"idx\":[{},{}],\"pat\":[{},{}],\"body\":[{},{}]}}",
                                            call.start, call.end, recv.start, recv.end, p0.start, p0.end, p1.start, p1.end, body.start, body.end
                                        ));
                                    }
                                }
                            }
                        }
                    }
                }
                // D32: X.into_iter().map(|P| E).collect::<Vec<_>>()
                if fm.method == "map" && fm.args.len() == 1 {
                    if let (syn::Expr::Closure(c), syn::Expr::MethodCall(it)) = (&fm.args[0], &*fm.receiver) {
                        if it.method == "into_iter" && it.args.is_empty() && c.inputs.len() == 1 && matches!(c.inputs[0], syn::Pat::Ident(_)) {
                            let mut ef = EscapeFinder::default();
                            ef.visit_expr(&c.body);
                            if ef.escapes == 0 {
                                let call = e.span().byte_range();
                                let recv = it.receiver.span().byte_range();
                                let pat = c.inputs[0].span().byte_range();
                                let body = c.body.span().byte_range();
                                self.vd.push(format!(
                                    "{{\"rule\":\"D32\",\"call\":[{},{}],\"recv\":[{},{}],\"pat\":[{},{}],\"body\":[{},{}]}}",
                                    call.start, call.end, recv.start, recv.end, pat.start, pat.end, body.start, body.end
                                ));
                            }
                        }
                    }
                }
                // D22: X.iter().filter(|P| C).map(|Q| E).collect()
                if fm.method == "map" && fm.args.len() == 1 {
                    if let (syn::Expr::Closure(cm), syn::Expr::MethodCall(fl)) = (&fm.args[0], &*fm.receiver) {
                        if fl.method == "filter" && fl.args.len() == 1 {
                            if let (syn::Expr::Closure(cf), syn::Expr::MethodCall(it)) = (&fl.args[0], &*fl.receiver) {
                                if it.method == "iter" && it.args.is_empty() && cm.inputs.len() == 1 && cf.inputs.len() == 1
                                    && matches!(cm.inputs[0], syn::Pat::Ident(_)) && matches!(cf.inputs[0], syn::Pat::Ident(_)) {
                                    let mut ef = EscapeFinder::default();
                                    ef.visit_expr(&cm.body);
                                    ef.visit_expr(&cf.body);
                                    if ef.escapes == 0 {
                                        let call = e.span().byte_range();
                                        let recv = it.receiver.span().byte_range();
                                        let fp = cf.inputs[0].span().byte_range();
                                        let fb = cf.body.span().byte_range();
                                        let mp = cm.inputs[0].span().byte_range();
                                        let mb = cm.body.span().byte_range();
                                        self.vd.push(format!(
                                            "{{\"rule\":\"D22\",\"call\":[{},{}],\"recv\":[{},{}],\"fpat\":[{},{}],\"fbody\":[{},{}],\"pat\":[{},{}],\"body\":[{},{}]}}",
                                            call.start, call.end, recv.start, recv.end, fp.start, fp.end, fb.start, fb.end, mp.start, mp.end, mb.start, mb.end
                                        ));
                                    }
                                }
                            }
                        }
                    }
                }
                self.try_d38(e, fm, None);
                if fm.method == "map" && fm.args.len() == 1 {
                    if let (syn::Expr::Closure(c), syn::Expr::MethodCall(it)) = (&fm.args[0], &*fm.receiver) {
                        if it.method == "iter" && it.args.is_empty() && c.inputs.len() == 1 && matches!(c.inputs[0], syn::Pat::Ident(_) | syn::Pat::Reference(_)) {
                            let mut ef = EscapeFinder::default();
                            ef.visit_expr(&c.body);
                            if ef.escapes == 0 {
                                let call = e.span().byte_range();
                                let recv = it.receiver.span().byte_range();
                                let pat = c.inputs[0].span().byte_range();
                                let body = c.body.span().byte_range();
                                self.vd.push(format!(
                                    "{{\"rule\":\"D15\",\"call\":[{},{}],\"recv\":[{},{}],\"pat\":[{},{}],\"body\":[{},{}]}}",
                                    call.start, call.end, recv.start, recv.end, pat.start, pat.end, body.start, body.end
                                ));
                            }
                        }
                    }
                }
            }
        }
        // D13: RECV.map(|PAT| BODY) on an Option receiver (if RECV is not an Option the rewritten text does not type-check)
        if e.method == "map" && e.args.len() == 1 {
            if let syn::Expr::Closure(c) = &e.args[0] {
                if c.inputs.len() == 1 {
                    let mut ef = EscapeFinder::default();
                    ef.visit_expr(&c.body);
                    if ef.escapes == 0 {
                        let call = e.span().byte_range();
                        let recv = e.receiver.span().byte_range();
                        let pat = c.inputs[0].span().byte_range();
                        let body = c.body.span().byte_range();
                        self.vd.push(format!(
                            "{{\"rule\":\"D13\",\"call\":[{},{}],\"recv\":[{},{}],\"pat\":[{},{}],\"body\":[{},{}]}}",
                            call.start, call.end, recv.start, recv.end, pat.start, pat.end, body.start, body.end
                        ));
                    }
                }
            }
        }
        // D12: X.into_iter().filter(|PAT| COND).collect::<Vec<_>>()   (PAT an identifier bound to a reference)
        if e.method == "collect" && e.args.is_empty() {
            if let syn::Expr::MethodCall(fl) = &*e.receiver {
                if fl.method == "filter" && fl.args.len() == 1 {
                    if let (syn::Expr::Closure(c), syn::Expr::MethodCall(it)) = (&fl.args[0], &*fl.receiver) {
                        if it.method == "into_iter" && it.args.is_empty() && c.inputs.len() == 1 && matches!(c.inputs[0], syn::Pat::Ident(_)) {
                            let mut ef = EscapeFinder::default();
                            ef.visit_expr(&c.body);
                            if ef.escapes == 0 {
                                let call = e.span().byte_range();
                                let recv = it.receiver.span().byte_range();
                                let pat = c.inputs[0].span().byte_range();
                                let body = c.body.span().byte_range();
                                self.vd.push(format!(
                                    "{{\"rule\":\"D12\",\"call\":[{},{}],\"recv\":[{},{}],\"pat\":[{},{}],\"body\":[{},{}]}}",
                                    call.start, call.end, recv.start, recv.end, pat.start, pat.end, body.start, body.end
                                ));
                            }
                        }
                    }
                }
            }
        }
        // D11: X.iter().map(|PAT| EXPR).sum::<T>()
        if e.method == "sum" && e.args.is_empty() && e.turbofish.is_some() {
            if let syn::Expr::MethodCall(mp) = &*e.receiver {
                if mp.method == "map" && mp.args.len() == 1 {
                    if let (syn::Expr::Closure(c), syn::Expr::MethodCall(it)) = (&mp.args[0], &*mp.receiver) {
                        if it.method == "iter" && it.args.is_empty() && c.inputs.len() == 1 {
                            let mut ef = EscapeFinder::default();
                            ef.visit_expr(&c.body);
                            if ef.escapes == 0 {
                                let call = e.span().byte_range();
                                let recv = mp.receiver.span().byte_range();
                                let pat = c.inputs[0].span().byte_range();
                                let body = c.body.span().byte_range();
                                let tf = e.turbofish.as_ref().unwrap().args.span().byte_range();
                                self.vd.push(format!(
                                    "{{\"rule\":\"D11\",\"call\":[{},{}],\"recv\":[{},{}],\"pat\":[{},{}],\"body\":[{},{}],\"ty\":[{},{}]}}",
                                    call.start, call.end, recv.start, recv.end, pat.start, pat.end, body.start, body.end, tf.start, tf.end
                                ));
                            }
                        }
                    }
                }
            }
        }
        // D69: X.iter().enumerate().filter(|(I, _)| C).fold(INIT, |ACC, ITEM| E)
        if e.method == "fold" && e.args.len() == 2 {
            if let (syn::Expr::Closure(cf2), syn::Expr::MethodCall(fl)) = (&e.args[1], &*e.receiver) {
                if fl.method == "filter" && fl.args.len() == 1 && cf2.inputs.len() == 2 {
                    if let (syn::Expr::Closure(cf), syn::Expr::MethodCall(en)) = (&fl.args[0], &*fl.receiver) {
                        if en.method == "enumerate" && en.args.is_empty() && cf.inputs.len() == 1 {
                            if let syn::Expr::MethodCall(it) = &*en.receiver {
                                if it.method == "iter" && it.args.is_empty() && matches!(&cf.inputs[0], syn::Pat::Tuple(t) if t.elems.len() == 2) {
                                    let mut ef = EscapeFinder::default();
                                    ef.visit_expr(&cf.body);
                                    ef.visit_expr(&cf2.body);
                                    if ef.escapes == 0 {
                                        let call = e.span().byte_range();
                                        let recv = it.receiver.span().byte_range();
                                        let init = e.args[0].span().byte_range();
                                        let fpat = cf.inputs[0].span().byte_range();
                                        let fbody = cf.body.span().byte_range();
                                        let acc = cf2.inputs[0].span().byte_range();
                                        let item = cf2.inputs[1].span().byte_range();
                                        let body = cf2.body.span().byte_range();
                                        self.vd.push(format!(
                                            "{{\"rule\":\"D69\",\"call\":[{},{}],\"recv\":[{},{}],\"init\":[{},{}],\"fpat\":[{},{}],\"fbody\":[{},{}],\"acc\":[{},{}],\"item\":[{},{}],\"body\":[{},{}]}}",
                                            call.start, call.end, recv.start, recv.end, init.start, init.end, fpat.start, fpat.end, fbody.start, fbody.end, acc.start, acc.end, item.start, item.end, body.start, body.end
                                        ));
                                    }
                                }
                            }
                        }
                    }
                }
            }
        }
        // D65: BUF.extend(X.iter().enumerate().map(|(I, P)| BODY))
        if e.method == "extend" && e.args.len() == 1 {
            if let syn::Expr::MethodCall(mp) = &e.args[0] {
                if mp.method == "map" && mp.args.len() == 1 {
                    if let (syn::Expr::Closure(c), syn::Expr::MethodCall(en)) = (&mp.args[0], &*mp.receiver) {
                        if en.method == "enumerate" && en.args.is_empty() && c.inputs.len() == 1 {
                            if let (syn::Expr::MethodCall(it), syn::Pat::Tuple(pt)) = (&*en.receiver, &c.inputs[0]) {
                                if it.method == "iter" && it.args.is_empty() && pt.elems.len() == 2
                                    && matches!(pt.elems[0], syn::Pat::Ident(_)) && matches!(pt.elems[1], syn::Pat::Ident(_)) {
                                    let mut ef = EscapeFinder::default();
                                    ef.visit_expr(&c.body);
                                    if ef.escapes == 0 {
                                        let call = e.span().byte_range();
                                        let buf = e.receiver.span().byte_range();
                                        let recv = it.receiver.span().byte_range();
                                        let p0 = pt.elems[0].span().byte_range();
                                        let p1 = pt.elems[1].span().byte_range();
                                        let body = c.body.span().byte_range();
                                        self.vd.push(format!(
                                            "{{\"rule\":\"D65\",\"call\":[{},{}],\"buf\":[{},{}],\"recv\":[{},{}],\"idx\":[{},{}],\"pat\":[{},{}],\"body\":[{},{}]}}",
                                            call.start, call.end, buf.start, buf.end, recv.start, recv.end, p0.start, p0.end, p1.start, p1.end, body.start, body.end
                                        ));
                                    }
                                }
                            }
                        }
                    }
                }
            }
        }
        // D53: X.iter().enumerate().for_each(|(I, P)| BODY)
        if e.method == "for_each" && e.args.len() == 1 {
            if let (syn::Expr::Closure(c), syn::Expr::MethodCall(en)) = (&e.args[0], &*e.receiver) {
                if en.method == "enumerate" && en.args.is_empty() && c.inputs.len() == 1 {
                    if let (syn::Expr::MethodCall(it), syn::Pat::Tuple(pt)) = (&*en.receiver, &c.inputs[0]) {
                        if it.method == "iter" && it.args.is_empty() && pt.elems.len() == 2
                            && matches!(pt.elems[0], syn::Pat::Ident(_)) && matches!(pt.elems[1], syn::Pat::Ident(_)) {
                            let mut ef = EscapeFinder::default();
                            ef.visit_expr(&c.body);
                            if ef.escapes == 0 {
                                let call = e.span().byte_range();
                                let recv = it.receiver.span().byte_range();
                                let p0 = pt.elems[0].span().byte_range();
                                let p1 = pt.elems[1].span().byte_range();
                                let body = c.body.span().byte_range();
                                let is_block = matches!(&*c.body, syn::Expr::Block(_));
                                self.vd.push(format!(
                                    "{{\"rule\":\"D53\",\"call\":[{},{}],\"recv\":[{},{}],\"idx\":[{},{}],\"pat\":[{},{}],\"body\":[{},{}],\"is_block\":{}}}",
                                    call.start, call.end, recv.start, recv.end, p0.start, p0.end, p1.start, p1.end, body.start, body.end, is_block
                                ));
                            }
                        }
                    }
                }
            }
        }
        // D4: RECV.for_each(|PAT| BODY)   (RECV ends in `.iter()`, body has no return/break/continue/?)
        if e.method == "for_each" && e.args.len() == 1 {
            if let (syn::Expr::Closure(c), syn::Expr::MethodCall(inner)) = (&e.args[0], &*e.receiver) {
                if inner.method == "iter" && inner.args.is_empty() && c.inputs.len() == 1 {
                    let mut ef = EscapeFinder::default();
                    ef.visit_expr(&c.body);
                    if ef.escapes == 0 {
                        let call = e.span().byte_range();
                        let recv = e.receiver.span().byte_range();
                        let pat = c.inputs[0].span().byte_range();
                        let body = c.body.span().byte_range();
                        let is_block = matches!(&*c.body, syn::Expr::Block(_));
                        self.vd.push(format!(
                            "{{\"rule\":\"D4\",\"call\":[{},{}],\"recv\":[{},{}],\"pat\":[{},{}],\"body\":[{},{}],\"is_block\":{}}}",
                            call.start, call.end, recv.start, recv.end, pat.start, pat.end, body.start, body.end, is_block
                        ));
                    }
                }
            }
        }
        syn::visit::visit_expr_method_call(self, e);
    }
}

fn src_of_path(e: &syn::Expr) -> String {
    match e { syn::Expr::Path(p) => p.path.segments.iter().map(|s| s.ident.to_string()).collect::<Vec<_>>().join("::"), _ => String::new() }
}
impl LoopFinder {
    // D38: X.iter().enumerate().filter(|&(I, _)| C).map(|(_, Q)| E)[.chain(std::iter::once(T))].collect()
    fn try_d38(&mut self, e: &syn::ExprMethodCall, fm: &syn::ExprMethodCall, tail: Option<(usize, usize)>) {
        if fm.method == "map" && fm.args.len() == 1 {
            if let (syn::Expr::Closure(cm), syn::Expr::MethodCall(fl)) = (&fm.args[0], &*fm.receiver) {
                if fl.method == "filter" && fl.args.len() == 1 {
                    if let (syn::Expr::Closure(cf), syn::Expr::MethodCall(en)) = (&fl.args[0], &*fl.receiver) {
                        if en.method == "enumerate" && en.args.is_empty() && cm.inputs.len() == 1 && cf.inputs.len() == 1 {
                            if let syn::Expr::MethodCall(it) = &*en.receiver {
                                // the filter closure takes `&(a, b)`, the map closure `(a, b)`
                                let fpat_inner = match &cf.inputs[0] {
                                    syn::Pat::Reference(r) => match &*r.pat { syn::Pat::Tuple(t) if t.elems.len() == 2 => Some((t.span().byte_range(), true)), _ => None },
                                            // `|(a, b)|` on the `&(usize, &T)` argument: default binding modes, the names bind references
                                            syn::Pat::Tuple(t) if t.elems.len() == 2 => Some((t.span().byte_range(), false)),
                                    _ => None,
                                };
                                let mpat_ok = matches!(&cm.inputs[0], syn::Pat::Tuple(t) if t.elems.len() == 2);
                                if it.method == "iter" && it.args.is_empty() && mpat_ok {
                                    if let Some((fp, fderef)) = fpat_inner {
                                        let mut ef = EscapeFinder::default();
                                        ef.visit_expr(&cm.body);
                                        ef.visit_expr(&cf.body);
                                        if ef.escapes == 0 {
                                            let call = e.span().byte_range();
                                            let recv = it.receiver.span().byte_range();
                                            let fb = cf.body.span().byte_range();
                                            let mp = cm.inputs[0].span().byte_range();
                                            let mb = cm.body.span().byte_range();
                                            self.vd.push(format!(
                                                "{{\"rule\":\"D38\",\"call\":[{},{}],\"recv\":[{},{}],\"fpat\":[{},{}],\"fbody\":[{},{}],\"pat\":[{},{}],\"body\":[{},{}],\"fderef\":{},\"tail\":[{},{}]}}",
                                                call.start, call.end, recv.start, recv.end, fp.start, fp.end, fb.start, fb.end, mp.start, mp.end, mb.start, mb.end, fderef, tail.map(|t| t.0).unwrap_or(0), tail.map(|t| t.1).unwrap_or(0)
                                            ));
                                        }
                                    }
                                }
                            }
                        }
                    }
                }
            }
        }
    }
}
struct Out {
    items: Vec<String>,
    conv: Conv,
}

fn attrs_end(attrs: &[syn::Attribute], default: usize) -> usize {
    // byte offset where the item proper starts (after outer attributes / doc comments)
    let mut e = default;
    for a in attrs {
        let r = a.span().byte_range();
        if r.end > e {
            e = r.end;
        }
    }
    e
}

impl Out {
    fn fn_entry(
        &mut self,
        kind: &str,
        path: &str,
        attrs: &[syn::Attribute],
        sig: &syn::Signature,
        block: Option<&syn::Block>,
        whole: Span,
        container: Option<(usize, usize, usize)>,
    ) {
        let (s, e) = self.conv.range(whole);
        let item_start = if attrs.is_empty() { s } else { attrs_end(attrs, s) };
        let sig_r = sig.span().byte_range();
        let ret = match &sig.output {
            syn::ReturnType::Default => None,
            syn::ReturnType::Type(_, t) => Some(t.span().byte_range()),
        };
        let mut lf = LoopFinder::default();
        let mut body_open = None;
        let mut body_close = None;
        if let Some(b) = block {
            lf.visit_block(b);
            body_open = Some(b.brace_token.span.open().byte_range().start);
            body_close = Some(b.brace_token.span.close().byte_range().start);
        }
        lf.loops.sort();
        let mut j = String::new();
        let _ = write!(
            j,
            "{{\"kind\":\"{}\",\"path\":\"{}\",\"name\":\"{}\",\"start\":{},\"end\":{},\"item_start\":{},\"sig_start\":{},\"sig_end\":{}",
            kind,
            esc(path),
            esc(&sig.ident.to_string()),
            s,
            e,
            item_start,
            sig_r.start,
            sig_r.end
        );
        if let Some(r) = ret {
            let _ = write!(j, ",\"ret\":[{},{}]", r.start, r.end);
        }
        if let Some(w) = &sig.generics.where_clause {
            let r = w.span().byte_range();
            let _ = write!(j, ",\"where\":[{},{}]", r.start, r.end);
        }
        if let (Some(o), Some(c)) = (body_open, body_close) {
            let _ = write!(j, ",\"body_open\":{},\"body_close\":{}", o, c);
        }
        let _ = write!(j, ",\"closures\":{}", lf.closures);
        let _ = write!(j, ",\"loops\":[");
        for (i, (a, b, c)) in lf.loops.iter().enumerate() {
            if i > 0 {
                j.push(',');
            }
            let _ = write!(j, "[{},{},{}]", a, b, c);
        }
        j.push(']');
        let _ = write!(j, ",\"vd\":[{}]", lf.vd.join(","));
        let _ = write!(j, ",\"self_calls\":[{}]", lf.self_calls.join(","));
        if let Some(b) = block {
            if b.stmts.len() == 1 {
                if let syn::Stmt::Expr(ex, None) = &b.stmts[0] {
                    let mut ef = EscapeFinder::default();
                    ef.visit_expr(ex);
                    let mut params: Vec<String> = vec![];
                    let mut simple = ef.escapes == 0;
                    let mut has_ref_self = false;
                    for inp in sig.inputs.iter() {
                        match inp {
                            syn::FnArg::Receiver(r) => { has_ref_self = r.reference.is_some() && r.mutability.is_none(); }
                            syn::FnArg::Typed(pt) => {
                                if let syn::Pat::Ident(pi) = &*pt.pat { params.push(pi.ident.to_string()); } else { simple = false; }
                            }
                        }
                    }
                    if simple && has_ref_self && sig.generics.params.is_empty() {
                        let r = ex.span().byte_range();
                        let ps: Vec<String> = params.iter().map(|p| format!("\"{}\"", p)).collect();
                        let _ = write!(j, ",\"single_expr\":[{},{}],\"params\":[{}]", r.start, r.end, ps.join(","));
                    }
                }
            }
        }
        if let Some((hs, he, ce)) = container {
            let _ = write!(j, ",\"container\":[{},{},{}]", hs, he, ce);
        }
        j.push('}');
        self.items.push(j);
    }

    fn simple(&mut self, kind: &str, path: &str, attrs: &[syn::Attribute], whole: Span) {
        let (s, e) = self.conv.range(whole);
        let item_start = if attrs.is_empty() { s } else { attrs_end(attrs, s) };
        self.items.push(format!(
            "{{\"kind\":\"{}\",\"path\":\"{}\",\"start\":{},\"end\":{},\"item_start\":{}}}",
            kind,
            esc(path),
            s,
            e,
            item_start
        ));
    }

    fn items(&mut self, prefix: &str, items: &[syn::Item]) {
        for it in items {
            match it {
                syn::Item::Fn(f) => {
                    let p = format!("{}fn {}", prefix, f.sig.ident);
                    self.fn_entry("fn", &p, &f.attrs, &f.sig, Some(&f.block), f.span(), None);
                }
                syn::Item::Impl(im) => {
                    let self_ty = im.self_ty.to_token_stream().to_string().replace(' ', "");
                    let head = match &im.trait_ {
                        Some((_, path, _)) => format!(
                            "impl {} for {}",
                            path.to_token_stream().to_string().replace(' ', ""),
                            self_ty
                        ),
                        None => format!("impl {}", self_ty),
                    };
                    let (s, e) = self.conv.range(im.span());
                    let istart = if im.attrs.is_empty() { s } else { attrs_end(&im.attrs, s) };
                    let open = im.brace_token.span.open().byte_range().start;
                    self.items.push(format!(
                        "{{\"kind\":\"impl\",\"path\":\"{}{}\",\"start\":{},\"end\":{},\"item_start\":{},\"body_open\":{}}}",
                        esc(prefix),
                        esc(&head),
                        s,
                        e,
                        istart,
                        open
                    ));
                    for ii in &im.items {
                        match ii {
                            syn::ImplItem::Fn(m) => {
                                let p = format!("{}{}::{}", prefix, head, m.sig.ident);
                                self.fn_entry(
                                    "method",
                                    &p,
                                    &m.attrs,
                                    &m.sig,
                                    Some(&m.block),
                                    m.span(),
                                    Some((istart, open, e)),
                                );
                            }
                            syn::ImplItem::Type(t) => {
                                let p = format!("{}{}::type {}", prefix, head, t.ident);
                                self.simple("assoc_type", &p, &t.attrs, t.span());
                            }
                            syn::ImplItem::Const(t) => {
                                let p = format!("{}{}::const {}", prefix, head, t.ident);
                                self.simple("assoc_const", &p, &t.attrs, t.span());
                            }
                            _ => {}
                        }
                    }
                }
                syn::Item::Trait(t) => {
                    let head = format!("trait {}", t.ident);
                    let (s, e) = self.conv.range(t.span());
                    let istart = if t.attrs.is_empty() { s } else { attrs_end(&t.attrs, s) };
                    let open = t.brace_token.span.open().byte_range().start;
                    self.items.push(format!(
                        "{{\"kind\":\"trait\",\"path\":\"{}{}\",\"start\":{},\"end\":{},\"item_start\":{},\"body_open\":{}}}",
                        esc(prefix),
                        esc(&head),
                        s,
                        e,
                        istart,
                        open
                    ));
                    for ti in &t.items {
                        if let syn::TraitItem::Fn(m) = ti {
                            let p = format!("{}{}::{}", prefix, head, m.sig.ident);
                            self.fn_entry(
                                "trait_method",
                                &p,
                                &m.attrs,
                                &m.sig,
                                m.default.as_ref(),
                                m.span(),
                                Some((istart, open, e)),
                            );
                        }
                    }
                }
                syn::Item::Struct(s) => {
                    let p = format!("{}struct {}", prefix, s.ident);
                    self.simple("struct", &p, &s.attrs, s.span());
                }
                syn::Item::Enum(s) => {
                    let p = format!("{}enum {}", prefix, s.ident);
                    self.simple("enum", &p, &s.attrs, s.span());
                }
                syn::Item::Const(s) => {
                    let p = format!("{}const {}", prefix, s.ident);
                    self.simple("const", &p, &s.attrs, s.span());
                }
                syn::Item::Static(s) => {
                    let p = format!("{}static {}", prefix, s.ident);
                    self.simple("static", &p, &s.attrs, s.span());
                }
                syn::Item::Type(s) => {
                    let p = format!("{}type {}", prefix, s.ident);
                    self.simple("type", &p, &s.attrs, s.span());
                }
                syn::Item::Macro(m) => {
                    let name = m
                        .ident
                        .as_ref()
                        .map(|i| i.to_string())
                        .unwrap_or_else(|| m.mac.path.to_token_stream().to_string());
                    let p = format!("{}macro {}", prefix, name);
                    self.simple("macro", &p, &m.attrs, m.span());
                }
                syn::Item::Mod(m) => {
                    if let Some((_, its)) = &m.content {
                        let p = format!("{}mod {}::", prefix, m.ident);
                        self.items(&p, its);
                    }
                }
                _ => {}
            }
        }
    }
}

fn main() {
    let path = std::env::args().nth(1).expect("usage: locator <file.rs>");
    let src = std::fs::read_to_string(&path).expect("cannot read file");
    let file = match syn::parse_file(&src) {
        Ok(f) => f,
        Err(e) => {
            eprintln!("parse error: {e}");
            std::process::exit(3);
        }
    };
    let mut out = Out { items: vec![], conv: Conv::new(&src) };
    out.items("", &file.items);
    println!("{{\"file\":\"{}\",\"len\":{},\"ascii\":{},\"items\":[", esc(&path), src.len(), src.is_ascii());
    for (i, it) in out.items.iter().enumerate() {
        println!("{}{}", it, if i + 1 < out.items.len() { "," } else { "" });
    }
    println!("]}}");
}
