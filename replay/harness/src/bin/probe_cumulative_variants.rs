//! Probe (C08): small cumulative instances (zero durations, zero usages, negative start times) under all 144 option
//! combinations, number of solutions compared with brute force; a time budget detects non-termination.
//! Arguments: <seed> <instances>.  Exit 1 = a discrepancy was found (printed as REPRODUCED).
use std::time::Duration;

use pumpkin_solver::constraints;
use pumpkin_solver::options::CumulativeExplanationType;
use pumpkin_solver::options::CumulativeOptions;
use pumpkin_solver::options::CumulativePropagationMethod;
use pumpkin_solver::results::solution_iterator::IteratedSolution;
use pumpkin_solver::termination::TimeBudget;
use pumpkin_solver::Solver;

struct Rng(u64);
impl Rng {
    fn next(&mut self) -> u64 { self.0 ^= self.0 << 13; self.0 ^= self.0 >> 7; self.0 ^= self.0 << 17; self.0 }
    fn range(&mut self, lo: i32, hi: i32) -> i32 { lo + (self.next() % ((hi - lo + 1) as u64)) as i32 }
}

fn brute(lbs: &[i32], ubs: &[i32], d: &[i32], r: &[i32], cap: i32) -> usize {
    fn rec(i: usize, s: &mut Vec<i32>, lbs: &[i32], ubs: &[i32], d: &[i32], r: &[i32], cap: i32) -> usize {
        if i == lbs.len() {
            let lo = *lbs.iter().min().unwrap();
            let hi = ubs.iter().zip(d).map(|(u, d)| u + d).max().unwrap();
            for t in lo..=hi {
                let usage: i32 = (0..s.len()).filter(|&j| s[j] <= t && t < s[j] + d[j]).map(|j| r[j]).sum();
                if usage > cap { return 0; }
            }
            return 1;
        }
        let mut n = 0;
        for v in lbs[i]..=ubs[i] { s.push(v); n += rec(i + 1, s, lbs, ubs, d, r, cap); let _ = s.pop(); }
        n
    }
    rec(0, &mut vec![], lbs, ubs, d, r, cap)
}

fn main() {
    let args: Vec<String> = std::env::args().collect();
    let seed: u64 = args.get(1).and_then(|s| s.parse().ok()).unwrap_or(1);
    let instances: usize = args.get(2).and_then(|s| s.parse().ok()).unwrap_or(30);
    let mut rng = Rng(seed.wrapping_mul(0x9E3779B97F4A7C15) | 1);
    let methods = [
        CumulativePropagationMethod::TimeTablePerPoint, CumulativePropagationMethod::TimeTablePerPointIncremental,
        CumulativePropagationMethod::TimeTablePerPointIncrementalSynchronised, CumulativePropagationMethod::TimeTableOverInterval,
        CumulativePropagationMethod::TimeTableOverIntervalIncremental, CumulativePropagationMethod::TimeTableOverIntervalIncrementalSynchronised,
    ];
    let expl = [CumulativeExplanationType::Naive, CumulativeExplanationType::BigStep, CumulativeExplanationType::Pointwise];
    let mut failed = false;
    for inst in 0..instances {
        let n = rng.range(2, 3) as usize;
        let mut lbs = vec![]; let mut ubs = vec![]; let mut d = vec![]; let mut r = vec![];
        for _ in 0..n {
            let lb = rng.range(-3, 2); lbs.push(lb); ubs.push(lb + rng.range(0, 3));
            d.push(rng.range(0, 3)); r.push(rng.range(0, 2));
        }
        let cap = rng.range(1, 2);
        let expected = brute(&lbs, &ubs, &d, &r, cap);
        for (mi, m) in methods.iter().enumerate() {
            for (ei, e) in expl.iter().enumerate() {
                for bits in 0..8 {
                    let (holes, seq, incr) = (bits & 1 == 1, bits & 2 == 2, bits & 4 == 4);
                    let (lbs2, ubs2, d2, r2) = (lbs.clone(), ubs.clone(), d.clone(), r.clone());
                    let (m2, e2) = (*m, *e);
                    let res = std::panic::catch_unwind(move || {
                    let mut solver = Solver::default();
                    let vars: Vec<_> = (0..n).map(|i| solver.new_bounded_integer(lbs2[i], ubs2[i])).collect();
                    let opts = CumulativeOptions::new(holes, e2, seq, m2, incr);
                    let posted = solver.add_constraint(constraints::cumulative_with_options(vars.clone(), d2.clone(), r2.clone(), cap, opts)).post();
                    let mut count = 0usize;
                    let mut status = "finished";
                    if posted.is_ok() {
                        let mut brancher = solver.default_brancher();
                        let mut termination = TimeBudget::starting_now(Duration::from_secs(5));
                        let mut it = solver.get_solution_iterator(&mut brancher, &mut termination);
                        loop {
                            match it.next_solution() {
                                IteratedSolution::Solution(..) => { count += 1; if count > 5000 { status = "too many"; break; } }
                                IteratedSolution::Finished | IteratedSolution::Unsatisfiable => break,
                                IteratedSolution::Unknown => { status = "TIMEOUT (5 s)"; break; }
                            }
                        }
                    }
                    (count, status)
                    });
                    let (count, status) = match res { Ok(x) => x, Err(_) => (usize::MAX, "PANIC") };
                    if count != expected || status != "finished" {
                        println!("REPRODUCED: instance {inst}: starts {:?} durations {d:?} usages {r:?} capacity {cap}; method {mi} explanation {ei} holes {holes} sequence {seq} incremental-backtracking {incr}: {count} solutions ({status}), brute force {expected}",
                            lbs.iter().zip(&ubs).collect::<Vec<_>>());
                        failed = true;
                    }
                }
            }
        }
        if failed { break; }
    }
    if failed { std::process::exit(1); }
    println!("ok: {instances} instances x 144 option combinations agree with brute force");
}
