#![feature(allocator_api)]
use vstd::prelude::*;
//@@SPEC macros.rs@@
verus! {
pub type Asg = spec_fn(int) -> int;
#[derive(Clone, Copy, PartialEq, Eq, Structural)]
pub struct DomainId { pub id: u32 }
#[derive(Clone, Copy)]
pub struct AffineView<V> { pub inner: V, pub scale: i32, pub offset: i32 }
impl AffineView<DomainId> {
    pub open spec fn eval(&self, a: Asg) -> int { self.scale * a(self.inner.id as int) + self.offset }
}
impl DomainId {
    #[verifier::external_body]
    pub fn scaled(&self, scale: i32) -> (r: AffineView<DomainId>) ensures r.inner == *self, r.scale == scale, r.offset == 0 { unimplemented!() }
}
#[verifier::external_body]
pub fn pv_into_boxed<T>(v: Vec<T>) -> (r: Box<[T]>) ensures r@ == v@ { v.into() }

// sum of the first n weighted variables / of the views
pub open spec fn wsum(w: Seq<i32>, x: Seq<DomainId>, n: int, a: Asg) -> int decreases n {
    if n <= 0 { 0 } else { wsum(w, x, n - 1, a) + w[n - 1] * a(x[n - 1].id as int) }
}
pub open spec fn vsum(v: Seq<AffineView<DomainId>>, a: Asg) -> int decreases v.len() {
    if v.len() == 0 { 0 } else { vsum(v.drop_last(), a) + v.last().eval(a) }
}
pub proof fn lemma_vsum_push(v: Seq<AffineView<DomainId>>, e: AffineView<DomainId>, a: Asg)
    ensures vsum(v.push(e), a) == vsum(v, a) + e.eval(a)
{ assert(v.push(e).drop_last() =~= v); }
pub open spec fn min_len(w: Seq<i32>, x: Seq<DomainId>) -> int { if w.len() < x.len() { w.len() as int } else { x.len() as int } }

// ---- boolean linear constraints: a literal is the 0/1 view of its variable ----
#[derive(Clone, Copy)]
pub struct Literal { pub integer_variable: AffineView<DomainId> }
impl Literal {
    #[verifier::external_body]
    pub fn get_integer_variable(&self) -> (r: AffineView<DomainId>) ensures r == self.integer_variable { unimplemented!() }
}
impl AffineView<DomainId> {
    // TransformableVariable for AffineView (affine_view.rs): scale and offset are multiplied; the products are i32 (A-VIEWRANGE)
    #[verifier::external_body]
    pub fn scaled(&self, scale: i32) -> (r: AffineView<DomainId>)
        requires i32::MIN <= self.scale * scale <= i32::MAX, i32::MIN <= self.offset * scale <= i32::MAX,
        ensures r.inner == self.inner, r.scale == self.scale * scale, r.offset == self.offset * scale
    { unimplemented!() }
}
pub open spec fn in_i32(x: int) -> bool { i32::MIN <= x <= i32::MAX }
// the weighted sum of the first n literals (each literal is the view of its variable)
pub open spec fn bsum(w: Seq<i32>, b: Seq<Literal>, n: int, a: Asg) -> int decreases n {
    if n <= 0 { 0 } else { bsum(w, b, n - 1, a) + w[n - 1] * b[n - 1].integer_variable.eval(a) }
}
// A-VIEWRANGE for the terms: the literal views are proper views and scaling them stays within i32
pub open spec fn terms_ok(w: Seq<i32>, b: Seq<Literal>) -> bool {
    b.len() <= w.len() && forall|i: int| #![trigger b[i]] 0 <= i < b.len() ==> b[i].integer_variable.scale != 0
        && in_i32(b[i].integer_variable.scale * w[i]) && in_i32(b[i].integer_variable.offset * w[i])
}
pub proof fn lemma_scaled_term(v: AffineView<DomainId>, w: int, r: AffineView<DomainId>, a: Asg)
    requires r.inner == v.inner, r.scale == v.scale * w, r.offset == v.offset * w, v.scale != 0, w != 0,
    ensures r.eval(a) == w * v.eval(a), r.scale != 0,
{
    let x = a(v.inner.id as int);
    assert((v.scale * w) * x + v.offset * w == w * (v.scale * x + v.offset)) by (nonlinear_arith);
    assert(v.scale * w != 0) by (nonlinear_arith) requires v.scale != 0, w != 0;
}
//@@EXTRACT s_ble@@
//@@EXTRACT s_beq@@
//@@EXTRACT wv@@
//@@EXTRACT ble@@
//@@EXTRACT beq@@
} // verus!
fn main() {}
