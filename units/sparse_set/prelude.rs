#![feature(allocator_api)]
use vstd::prelude::*;
verus! {
//@@SPEC macros.rs@@

pub assume_specification<T>[<[T]>::swap](s: &mut [T], a: usize, b: usize)
    requires a < old(s)@.len(), b < old(s)@.len(),
    ensures final(s)@ == old(s)@.update(a as int, old(s)@[b as int]).update(b as int, old(s)@[a as int]);

// stub for `fn(&T) -> usize` (Verus has no function-pointer types): a pure function with an uninterpreted result
pub struct MappingFn<T> { pub ghost_id: Ghost<int>, pub _p: core::marker::PhantomData<T> }
impl<T> MappingFn<T> {
    pub uninterp spec fn spec_call(&self, t: &T) -> usize;
    #[verifier::external_body]
    pub fn call(&self, t: &T) -> (r: usize) ensures r == self.spec_call(t) { unimplemented!() }
}

pub struct SparseSet<T> {
    pub size: usize,
    pub domain: Vec<T>,
    pub indices: Vec<usize>,
    pub mapping: MappingFn<T>,
}

impl<T> SparseSet<T> {
    pub open spec fn map(&self, t: &T) -> int { self.mapping.spec_call(t) as int }
    // documented assumption of the structure: the mapping is injective
    pub open spec fn injective(&self) -> bool {
        forall|a: &T, b: &T| #![trigger self.mapping.spec_call(a), self.mapping.spec_call(b)] self.mapping.spec_call(a) == self.mapping.spec_call(b) ==> *a == *b
    }
    // every stored element is found through `indices`, and `indices` points at nothing else
    pub open spec fn linked(&self) -> bool {
        &&& forall|i: int| #![trigger self.domain@[i]] 0 <= i < self.domain@.len() ==>
                0 <= self.map(&self.domain@[i]) < self.indices@.len() && self.indices@[self.map(&self.domain@[i])] == i
        &&& forall|k: int| #![trigger self.indices@[k]] 0 <= k < self.indices@.len() && self.indices@[k] < self.domain@.len() ==>
                self.map(&self.domain@[self.indices@[k] as int]) == k
        // a slot that points at nothing holds the sentinel (never a stale position)
        &&& forall|k: int| #![trigger self.indices@[k]] 0 <= k < self.indices@.len() && self.indices@[k] >= self.domain@.len() ==> self.indices@[k] == usize::MAX
    }
    pub open spec fn well_formed(&self) -> bool {
        self.size <= self.domain@.len() && self.linked() && self.injective()
    }
    // the abstract set: the first `size` stored elements
    pub open spec fn has(&self, t: &T) -> bool {
        exists|i: int| #![trigger self.domain@[i]] 0 <= i < self.size && self.domain@[i] == *t
    }
    // stored but temporarily removed
    pub open spec fn dormant(&self, t: &T) -> bool {
        exists|i: int| #![trigger self.domain@[i]] self.size <= i < self.domain@.len() && self.domain@[i] == *t
    }
    // the membership test the code uses; equal to `has` on a well-formed set (lemma below)
    pub open spec fn idx_has(&self, t: &T) -> bool {
        0 <= self.map(t) < self.indices@.len() && self.indices@[self.map(t)] < self.size
    }
    pub open spec fn idx_dormant(&self, t: &T) -> bool {
        0 <= self.map(t) < self.indices@.len() && self.size <= self.indices@[self.map(t)] < self.domain@.len()
    }
    pub proof fn lemma_has_idx(&self, t: &T)
        requires self.well_formed()
        ensures self.has(t) == self.idx_has(t), self.dormant(t) == self.idx_dormant(t),
    {
        if self.idx_has(t) || self.idx_dormant(t) {
            let k = self.map(t);
            let i = self.indices@[k] as int;
            assert(self.map(&self.domain@[i]) == k);
            assert(self.mapping.spec_call(&self.domain@[i]) == self.mapping.spec_call(t));
            assert(self.domain@[i] == *t);
        }
        if self.has(t) {
            let i = choose|i: int| #![trigger self.domain@[i]] 0 <= i < self.size && self.domain@[i] == *t;
            assert(self.indices@[self.map(&self.domain@[i])] == i);
        }
        if self.dormant(t) {
            let i = choose|i: int| #![trigger self.domain@[i]] self.size <= i < self.domain@.len() && self.domain@[i] == *t;
            assert(self.indices@[self.map(&self.domain@[i])] == i);
        }
    }
    // the last active element leaves the set when `size` is decremented
    pub proof fn lemma_shrink(&self, post: SparseSet<T>)
        requires self.well_formed(), self.size > 0, post.size == self.size - 1, post.domain == self.domain, post.indices == self.indices, post.mapping == self.mapping,
        ensures post.well_formed(),
                forall|t: &T| #![trigger post.has(t)] post.has(t) <==> (self.has(t) && *t != self.domain@[self.size - 1]),
    {
        assert forall|t: &T| #![trigger post.has(t)] post.has(t) <==> (self.has(t) && *t != self.domain@[self.size - 1]) by {
            self.lemma_has_idx(t); post.lemma_has_idx(t); self.lemma_has_idx(&self.domain@[self.size - 1]);
        }
    }
    // dropping the last stored element, when it is dormant, changes nothing of the set
    pub proof fn lemma_drop_last(&self, post: SparseSet<T>)
        requires self.well_formed(), self.size < self.domain@.len(), post.size == self.size, post.mapping == self.mapping,
                 post.domain@ == self.domain@.drop_last(),
                 post.indices@ == self.indices@.update(self.map(&self.domain@[self.domain@.len() - 1]), usize::MAX),
                 self.domain@.len() <= usize::MAX,
        ensures post.well_formed(),
                forall|t: &T| #![trigger post.has(t)] post.has(t) <==> self.has(t),
    {
        let last = self.domain@.len() - 1;
        assert forall|i: int| #![trigger post.domain@[i]] 0 <= i < post.domain@.len() implies
            0 <= post.map(&post.domain@[i]) < post.indices@.len() && post.indices@[post.map(&post.domain@[i])] == i by {
            assert(post.domain@[i] == self.domain@[i]);
            assert(self.indices@[self.map(&self.domain@[i])] == i);
            assert(self.indices@[self.map(&self.domain@[last])] == last);
        }
        assert forall|k: int| #![trigger post.indices@[k]] 0 <= k < post.indices@.len() && post.indices@[k] < post.domain@.len() implies
            post.map(&post.domain@[post.indices@[k] as int]) == k by {
            assert(self.indices@[k] == post.indices@[k] || k == self.map(&self.domain@[last]));
        }
        assert forall|k: int| #![trigger post.indices@[k]] 0 <= k < post.indices@.len() && post.indices@[k] >= post.domain@.len() implies
            post.indices@[k] == usize::MAX by {
            if k != self.map(&self.domain@[last]) {
                assert(self.indices@[k] == post.indices@[k]);
                if self.indices@[k] == last { assert(self.map(&self.domain@[last]) == k); }
            }
        }
        assert(post.well_formed());
        assert forall|t: &T| #![trigger post.has(t)] post.has(t) <==> self.has(t) by {
            self.lemma_has_idx(t); post.lemma_has_idx(t);
            assert(self.indices@[self.map(&self.domain@[last])] == last);
        }
    }
//@@EXTRACT ss@@
}

#[derive(Clone, Copy, PartialEq, Eq, Structural)]
pub struct DomainId { pub id: u32 }
pub struct RandomGen { pub x: u8 }
impl RandomGen {
    #[verifier::external_body]
    pub fn generate_usize_in_range(&mut self, range: std::ops::Range<usize>) -> (r: usize)
        requires range.start < range.end
        ensures range.start <= r < range.end
    { unimplemented!() }
}
// the assignments are read-only for a brancher: `fixed` does not change while a variable is selected
pub struct SelectionContext { pub rng: RandomGen, pub fixed: Ghost<spec_fn(DomainId) -> bool> }
impl SelectionContext {
    #[verifier::external_body]
    pub fn random(&mut self) -> (r: &mut RandomGen)
        ensures final(self).fixed == old(self).fixed
    { &mut self.rng }
    #[verifier::external_body]
    pub fn is_integer_fixed(&self, var: DomainId) -> (r: bool)
        ensures r == (self.fixed@)(var)
    { unimplemented!() }
}
pub struct RandomSelector { pub variables: SparseSet<DomainId> }
impl RandomSelector {
//@@EXTRACT rs@@
}
} // verus!
fn main() {}
