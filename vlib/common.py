"""Shared paths and small helpers of the verification driver."""
import hashlib
import json
import os
import shutil
import subprocess
import sys
import tempfile
import time

VERIF = os.path.dirname(os.path.dirname(os.path.abspath(__file__)))
REPO = os.environ.get("PUMPKIN_REPO", "/repo")
LOCATOR = os.path.join(VERIF, "tools", "locator", "target", "release", "locator")
BUILD = os.path.join(VERIF, "build")            # generated files (git-ignored), for reading/replay only
EVIDENCE = os.path.join(VERIF, "evidence")
REPLAYS = os.path.join(VERIF, "replays")
UNITS = os.path.join(VERIF, "units")
SPEC = os.path.join(VERIF, "spec")
KNOWN = os.path.join(VERIF, "known_findings.json")
SCRATCH_ROOT = os.environ.get("PUMPKIN_VERIF_SCRATCH", "/tmp/pumpkin-verif-scratch")

EXIT_OK, EXIT_VIOLATION, EXIT_UNDECIDED = 0, 1, 2


class Undecided(Exception):
    """The run cannot decide (lost anchor, unsupported construct, tool failure). Never an alarm."""


def sha(s):
    if isinstance(s, str):
        s = s.encode()
    return hashlib.sha256(s).hexdigest()


def read(path):
    with open(path, "r", encoding="utf-8") as f:
        return f.read()


def write(path, text):
    os.makedirs(os.path.dirname(path), exist_ok=True)
    with open(path, "w", encoding="utf-8") as f:
        f.write(text)


def scratch(prefix):
    os.makedirs(SCRATCH_ROOT, exist_ok=True)
    return tempfile.mkdtemp(prefix=prefix + "-", dir=SCRATCH_ROOT)


def rmtree(path):
    shutil.rmtree(path, ignore_errors=True)


def run(cmd, cwd=None, env=None, timeout=None, input=None):
    e = dict(os.environ)
    e["CARGO_NET_OFFLINE"] = "true"
    if env:
        e.update(env)
    t0 = time.time()
    try:
        p = subprocess.run(cmd, cwd=cwd, env=e, timeout=timeout, input=input,
                           stdout=subprocess.PIPE, stderr=subprocess.PIPE, text=True)
        return p.returncode, p.stdout, p.stderr, time.time() - t0
    except subprocess.TimeoutExpired as ex:
        out = ex.stdout.decode() if isinstance(ex.stdout, bytes) else (ex.stdout or "")
        err = ex.stderr.decode() if isinstance(ex.stderr, bytes) else (ex.stderr or "")
        return 124, out, err, time.time() - t0


def log(*a):
    print(*a, file=sys.stderr, flush=True)


def jdump(obj, path):
    os.makedirs(os.path.dirname(path), exist_ok=True)
    tmp = path + ".tmp%d" % os.getpid()
    with open(tmp, "w") as f:
        json.dump(obj, f, indent=1, sort_keys=False)
        f.write("\n")
    os.replace(tmp, path)
