//! F20 (C15): a WCNF whose hard clauses are unsatisfiable at the root and which has a soft clause with two or more
//! literals: SolverDimacsSink::add_soft_clause creates a relaxation literal in the inconsistent solver, which panics
//! ("Variables cannot be created in an inconsistent state") instead of `s UNSATISFIABLE`.  Exit 1 = reproduced.
use std::io::Write;
use std::process::Command;

fn main() {
    let repo = std::env::var("PUMPKIN_REPO").unwrap_or_else(|_| "/repo".into());
    // hard: x1, -x1.  soft: (x2 or x3, 1)
    let wcnf = "p wcnf 3 3 100\n100 1 0\n100 -1 0\n1 2 3 0\n";
    let path = std::env::temp_dir().join("pv_f20.wcnf");
    std::fs::File::create(&path).unwrap().write_all(wcnf.as_bytes()).unwrap();
    let target = std::env::var("CARGO_TARGET_DIR").unwrap_or_else(|_| "/tmp/pumpkin-verif-scratch/replay-target".into());
    let mut failed = false;
    for enc in ["generalized-totalizer", "cardinality-network"] {
        let out = Command::new("cargo")
            .args(["run", "--offline", "-q", "--manifest-path", &format!("{repo}/Cargo.toml"), "-p", "pumpkin-solver", "--bin", "pumpkin-solver", "--"])
            .args(["--upper-bound-encoding", enc])
            .arg(&path)
            .env("CARGO_TARGET_DIR", format!("{target}-bin"))
            .env("RUST_BACKTRACE", "0")
            .output()
            .expect("cannot run cargo");
        let so = String::from_utf8_lossy(&out.stdout).to_string();
        let se = String::from_utf8_lossy(&out.stderr).to_string();
        let last_o = so.lines().filter(|l| l.starts_with("o ")).last().map(|l| l.to_string());
        let status = so.lines().find(|l| l.starts_with("s ")).map(|l| l.to_string());
        if status.as_deref() == Some("s UNSATISFIABLE") {
            println!("ok [{enc}]: {status:?} {last_o:?}");
        } else {
            let panic = se.lines().find(|l| l.contains("panicked") || l.contains("overflow")).unwrap_or("");
            println!("REPRODUCED [{enc}]: WCNF with unsatisfiable hard clauses (x1, -x1) and soft clause (x2 or x3) gives status {status:?}, last o-line {last_o:?} {panic}");
            failed = true;
        }
    }
    if failed {
        std::process::exit(1);
    }
}
