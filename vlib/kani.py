"""Engine K — Kani on a scratch copy of the real crates (DESIGN.md 2.2).  Filled in with the `branching` group."""
import os

from .common import VERIF, Undecided

GROUPS = {}   # name -> config, registered below when kani/<group>/group.toml exists


def groups_for(pid, tier):
    return []


def run_group(group, pid, tier):
    raise Undecided("no kani group")


def all_groups():
    return {}
