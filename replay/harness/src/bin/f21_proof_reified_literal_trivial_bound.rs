//! F21 (C06): ProofLiterals::get_underlying_predicate panics for a predicate over a reified literal that is not one
//! of [l>=1] [l<=0] [l==0] [l==1] [l!=0] [l!=1] -- e.g. the trivially true bound [l >= 0] that a linear propagator puts in
//! an explanation.  Exit 1 = reproduced.
use std::num::NonZero;

use pumpkin_solver::constraints;
use pumpkin_solver::options::SolverOptions;
use pumpkin_solver::predicate;
use pumpkin_solver::proof::ProofLog;
use pumpkin_solver::results::SatisfactionResult;
use pumpkin_solver::termination::Indefinite;
use pumpkin_solver::variables::TransformableVariable;
use pumpkin_solver::Solver;

fn main() {
    let path = std::env::temp_dir().join("pv_probe_c06.drcp");
    let r = std::panic::catch_unwind(|| {
        let mut solver = Solver::with_options(SolverOptions {
            proof_log: ProofLog::cp(&path, drcp_format::Format::Text, true, true).expect("created proof"),
            ..Default::default()
        });
        let x = solver.new_named_bounded_integer(1, 10, "x");
        let y = solver.new_named_bounded_integer(0, 5, "y");
        let z = solver.new_named_bounded_integer(0, 5, "z");
        let l = solver.new_literal_for_predicate(predicate![x >= 5]);
        // l + y + z <= 1  and  y + z >= 3: infeasible; the explanations mention the lower bound 0 of l
        let _ = solver
            .add_constraint(constraints::less_than_or_equals(vec![l.get_integer_variable().scaled(1), y.scaled(1), z.scaled(1)], 1))
            .with_tag(NonZero::new(1).unwrap())
            .post();
        let _ = solver
            .add_constraint(constraints::less_than_or_equals(vec![y.scaled(-1), z.scaled(-1)], -3))
            .with_tag(NonZero::new(2).unwrap())
            .post();
        let mut brancher = solver.default_brancher();
        let res = matches!(solver.satisfy(&mut brancher, &mut Indefinite), SatisfactionResult::Unsatisfiable);
        res
    });
    match r {
        Err(_) => {
            println!("REPRODUCED: l <-> [x >= 5]; l + y + z <= 1; y + z >= 3 with proof logging: panic while logging");
            std::process::exit(1);
        }
        Ok(unsat) => println!("ok: no panic (unsat = {unsat})"),
    }
}
